"""./check <ID> [--tier quick|thorough] [--replay file]

Property module contract (props/cXX.py):

    PROPERTY = "C09"
    LEVEL = "model_checking" | "exploration"
    RULE = "..."                       # how cases are generated / what is non-trivial
    ASSUMPTIONS = [...]
    def run(ctx, total, info) -> None  # drives engine.run_shards / engine.explore, fills `total`
                                         # and `info` (dict: extra coverage keys, 'exhaustive', floors)
    def replay(case) -> list[str]      # re-run one stored case without the explorer;
                                         # returns the violation descriptions it reproduces
"""
from __future__ import annotations

import argparse
import importlib
import json
import os
import sys
import time
import warnings

ROOT = os.path.dirname(os.path.dirname(os.path.abspath(__file__)))
sys.path.insert(0, ROOT)
VENDOR = os.path.join(ROOT, ".vendor")
if os.path.isdir(VENDOR):
    sys.path.append(VENDOR)

if os.environ.get("VERIF_REPO_SRC"):      # development aid: run against a scratch worktree's src directory
    sys.path.insert(0, os.environ["VERIF_REPO_SRC"])

from mc import engine  # noqa: E402

SCHEMA = "/root/.vp/EVIDENCE.schema.json"
SCHEMA_COPY = os.path.join(ROOT, "mc", "EVIDENCE.schema.json")


def load_findings(prop):
    import glob
    out = []
    paths = [os.path.join(ROOT, "known_findings.json")] + sorted(glob.glob(os.path.join(ROOT, "known_findings.d", "*.json")))
    for path in paths:
        if not os.path.exists(path):
            continue
        with open(path) as f:
            data = json.load(f)
        out += [x for x in data.get("findings", []) if x.get("property") == prop and x.get("status") == "finding"]
    return out


def matches(pattern: dict, signature: dict) -> bool:
    for k, v in pattern.items():
        if k not in signature:
            return False
        sv = signature[k]
        if isinstance(v, list) and not isinstance(sv, list):
            if sv not in v:
                return False
        elif sv != v:
            return False
    return True


def validate_evidence(ev):
    schema_path = SCHEMA if os.path.exists(SCHEMA) else SCHEMA_COPY
    try:
        import jsonschema
    except Exception:
        print("note: jsonschema not vendored (run ./setup.sh); evidence not schema-validated", file=sys.stderr)
        return
    with open(schema_path) as f:
        schema = json.load(f)
    jsonschema.validate(ev, schema)


def main(argv=None):
    ap = argparse.ArgumentParser()
    ap.add_argument("prop")
    ap.add_argument("--tier", default=os.environ.get("VERIF_TIER", "quick"), choices=["quick", "thorough"])
    ap.add_argument("--replay", default=None)
    ap.add_argument("--cap-min", type=float, default=None, help="time cap in minutes for thorough runs")
    args = ap.parse_args(argv)
    prop = args.prop.upper()
    seed = int(os.environ.get("VERIF_SEED", "0") or 0)
    warnings.filterwarnings("ignore")
    mod = importlib.import_module("props." + prop.lower())

    if args.replay:
        with open(args.replay) as f:
            rec = json.load(f)
        out = mod.replay(rec["case"])
        for line in out:
            print("REPRODUCED:", line)
        if out:
            print("VIOLATION property=%s replay=%s" % (prop, args.replay))
            return 1
        print("not reproduced on this tree")
        return 0

    t0 = time.time()
    ctx = engine.Ctx(args.tier, seed)
    ctx.cap_s = (args.cap_min * 60.0) if args.cap_min else None
    ctx.t0 = t0
    total = engine.Result()
    info = {}
    try:
        mod.run(ctx, total, info)
    finally:
        engine.close_pool()
    wall = time.time() - t0

    # ---- uncaught exceptions inside a shard ---------------------------------
    # Property modules catch and classify the exceptions they expect; anything that
    # escapes means the implementation (or an internal the harness relies on) behaved
    # in a way never seen on the unchanged tree.  It is reported as a violation of
    # kind "crash" with the traceback, so that it is never silently dropped.
    for e in total.errors:
        print("UNCAUGHT in %s:\n%s" % (prop, e), file=sys.stderr)
        last = e.strip().splitlines()[-1] if e.strip() else ""
        total.violations.append({"check": "crash", "signature": {"check": "crash", "error": last[:200]},
                                 "case": {"traceback": e}, "detail": last})
        total.violation_total += 1

    # ---- classify violations ----------------------------------------------
    findings = load_findings(prop)
    known_hit = {}
    unknown = []
    for v in total.violations:
        hit = None
        for f in findings:
            if matches(f["match"], v["signature"]):
                hit = f
                break
        if hit is not None:
            known_hit.setdefault(hit["what"], 0)
            known_hit[hit["what"]] += 1
        else:
            unknown.append(v)

    # vacuity floors
    floors = info.pop("floors", {})
    measured = info.get("measured", {})
    for name, (value, floor) in floors.items():
        if value < floor:
            unknown.append({"check": "vacuous", "signature": {"check": "vacuous", "floor": name},
                            "case": {"floor": name, "measured": value, "required": floor},
                            "detail": "exploration below its vacuity floor: %s = %s < %s" % (name, value, floor)})

    # ---- replay files -------------------------------------------------------
    rdir = os.path.join(ROOT, "replays", prop)
    lines = []
    if unknown:
        os.makedirs(rdir, exist_ok=True)
        seen_sig = set()
        n = 0
        for v in unknown:
            k = engine.sigkey(v["signature"])
            if k in seen_sig:
                continue
            seen_sig.add(k)
            n += 1
            if n > 12:
                break
            name = "%s_%s_%016x.json" % (args.tier, v["check"], engine.short_hash(k + engine.sigkey(v["case"])))
            path = os.path.join(rdir, name)
            rec = dict(v)
            rec.update(property=prop, tier=args.tier, seed=seed,
                       how_to_replay="./check %s --replay %s" % (prop, os.path.relpath(path, ROOT)))
            with open(path, "w") as f:
                json.dump(rec, f, indent=1, sort_keys=True)
            lines.append("VIOLATION property=%s replay=%s" % (prop, os.path.relpath(path, ROOT)))
            print("  [%s] %s :: %s" % (v["check"], engine.sigkey(v["signature"])[:300], v["detail"][:400]))

    # ---- evidence -------------------------------------------------------------
    cov = {
        "evaluations": int(total.evaluations),
        "distinct_nontrivial": len(total.nontrivial),
        "rule": getattr(mod, "RULE", ""),
        "samples": total.samples[: engine.MAX_SAMPLES] or [{"note": "no sample recorded"}],
        "excluded": dict(total.excluded),
        "counters": dict(total.counters),
        "distinct_classes": {k: len(v) for k, v in total.classes.items()},
        "known_findings_observed": known_hit,
        "violations_total_including_known": int(total.violation_total),
        "harness_errors": len(total.errors),
        "workers": engine.NCPU,
    }
    cov.update(info)
    cov.setdefault("exhaustive", not total.errors)
    if total.errors:
        cov["exhaustive"] = False
    ev = {
        "property_id": prop, "tier": args.tier, "seed": seed, "level": mod.LEVEL,
        "coverage": cov, "assumptions": list(getattr(mod, "ASSUMPTIONS", [])),
        "wall_s": round(wall, 2), "violations": len(lines),
    }
    # evidence/ only ever describes runs against /repo itself; development runs against a scratch tree go elsewhere
    evdir = os.path.join(ROOT, ".work", "evidence_scratch_tree") if os.environ.get("VERIF_REPO_SRC") else os.path.join(ROOT, "evidence")
    os.makedirs(evdir, exist_ok=True)
    evpath = os.path.join(evdir, prop + ".json")
    validate_evidence(ev)
    with open(evpath, "w") as f:
        json.dump(ev, f, indent=1, sort_keys=True)
        f.write("\n")

    # ---- report ------------------------------------------------------------------
    summ = "%s %s seed=%d: evaluations=%d distinct_nontrivial=%d" % (
        prop, args.tier, seed, cov["evaluations"], cov["distinct_nontrivial"])
    if "states" in cov:
        summ += " states=%d transitions=%d depth=%s" % (cov["states"], cov["transitions"], cov.get("max_depth"))
    summ += " excluded=%s exhaustive=%s wall=%.1fs" % (sum(total.excluded.values()), cov["exhaustive"], wall)
    print(summ)
    for what, n in known_hit.items():
        print("KNOWN-FINDING: property=%s %s (%d cases)" % (prop, what, n))
    for ln in lines:
        print(ln)
    return 1 if lines else 0


if __name__ == "__main__":
    sys.exit(main())
