"""Bounded-exhaustive exploration engine.

Two drivers, both exhaustive over a stated finite space and both executed against
the real implementation in /repo's working tree:

* ``Enumerator`` (``run_shards``): a property module cuts its finite input space
  into shards; every shard is evaluated completely in a worker process.
* ``Explorer`` (``explore``): level-synchronous breadth-first search over
  operation histories.  A state *is* the history that reaches it; workers rebuild
  the real object and the reference model by replaying the history on fresh
  objects, apply every operation of the alphabet, evaluate the oracle on every
  transition and return the canonical key of each successor; the master
  deduplicates keys globally, so ``states`` is the exact number of distinct
  canonical states and ``transitions`` the exact number of oracle-checked steps.

No sampling anywhere: VERIF_SEED only sets PYTHONHASHSEED (in ./check) and rotates
value tables inside property modules.
"""
from __future__ import annotations

import collections
import contextlib
import hashlib
import importlib
import io
import json
import multiprocessing as mp
import os
import sys
import time
import traceback
import warnings

MAX_VIOLATIONS_KEPT = 40          # per shard and per (check, sigkey)
MAX_SAMPLES = 6
NCPU = int(os.environ.get("VERIF_WORKERS", "0")) or min(16, os.cpu_count() or 1)


def jsonable(x):
    """Best-effort conversion of a case description to JSON-able data."""
    import numpy as np
    if isinstance(x, dict):
        return {str(k): jsonable(v) for k, v in x.items()}
    if isinstance(x, (list, tuple, set, frozenset)):
        return [jsonable(v) for v in x]
    if isinstance(x, (np.integer,)):
        return int(x)
    if isinstance(x, (np.floating, float)):
        x = float(x)
        if x != x:
            return "nan"
        if x in (float("inf"), float("-inf")):
            return "inf" if x > 0 else "-inf"
        return x
    if isinstance(x, np.ndarray):
        return jsonable(x.tolist())
    if isinstance(x, (str, int, bool)) or x is None:
        return x
    return repr(x)


def sigkey(sig) -> str:
    return json.dumps(jsonable(sig), sort_keys=True)


def short_hash(obj) -> int:
    """64-bit stable hash of a canonical (JSON-able or repr-able) object."""
    if not isinstance(obj, (bytes, str)):
        obj = repr(obj)
    if isinstance(obj, str):
        obj = obj.encode()
    return int.from_bytes(hashlib.blake2b(obj, digest_size=8).digest(), "big")


class Result:
    """What one shard (or one batch of explorer expansions) measured."""

    def __init__(self):
        self.evaluations = 0
        self.nontrivial = set()            # 64-bit hashes of distinct non-trivial signatures
        self.violations = []               # dicts: check, signature, case, detail
        self._vcount = collections.Counter()
        self.violation_total = 0
        self.excluded = collections.Counter()
        self.counters = collections.Counter()   # free-form measured counters (outcome classes …)
        self.classes = {}                  # name -> set of hashes (distinct outcome classes)
        self.samples = []
        self.transitions = 0
        self.successors = []               # explorer: (hist, key)
        self.errors = []                   # harness errors (tracebacks)

    # -- recording -----------------------------------------------------
    def ev(self, n=1):
        self.evaluations += n

    def nt(self, sig):
        self.nontrivial.add(short_hash(sigkey(sig)) if not isinstance(sig, int) else sig)

    def cls(self, name, value):
        self.classes.setdefault(name, set()).add(short_hash(sigkey(value)))

    def count(self, key, n=1):
        self.counters[key] += n

    def exclude(self, reason, n=1):
        self.excluded[reason] += n

    def sample(self, case):
        if len(self.samples) < MAX_SAMPLES:
            self.samples.append(jsonable(case))

    def violation(self, check, signature, case, detail=""):
        """signature: small dict identifying *what* fails (matched against known findings
        and used to group); case: JSON-able description sufficient for replay."""
        self.violation_total += 1
        signature = dict(signature)
        signature.setdefault("check", check)
        k = sigkey(signature)
        self._vcount[k] += 1
        if self._vcount[k] <= 3 and len(self.violations) < MAX_VIOLATIONS_KEPT:
            self.violations.append({"check": check, "signature": jsonable(signature),
                                    "case": jsonable(case), "detail": str(detail)[:2000]})

    def error(self, text):
        if len(self.errors) < 5:
            self.errors.append(text[-4000:])

    # -- merging -------------------------------------------------------
    def merge(self, other: "Result"):
        self.evaluations += other.evaluations
        self.nontrivial |= other.nontrivial
        self.violation_total += other.violation_total
        for v in other.violations:
            k = sigkey(v["signature"])
            self._vcount[k] += 1
            if self._vcount[k] <= 3 and len(self.violations) < 400:
                self.violations.append(v)
        self.excluded.update(other.excluded)
        self.counters.update(other.counters)
        for name, s in other.classes.items():
            self.classes.setdefault(name, set()).update(s)
        for s in other.samples:
            if len(self.samples) < MAX_SAMPLES:
                self.samples.append(s)
        self.transitions += other.transitions
        self.successors.extend(other.successors)
        self.errors.extend(other.errors[: max(0, 5 - len(self.errors))])


class Ctx:
    def __init__(self, tier, seed):
        self.tier = tier
        self.seed = seed
        self.quick = tier == "quick"


# ---------------------------------------------------------------------------
# worker side
# ---------------------------------------------------------------------------

def _init_worker():
    warnings.filterwarnings("ignore")
    os.environ.setdefault("OMP_NUM_THREADS", "1")


def _call(args):
    modname, funcname, item, tier, seed = args
    res = Result()
    try:
        mod = importlib.import_module(modname)
        fn = getattr(mod, funcname)
        sink = io.StringIO()
        with contextlib.redirect_stdout(sink), warnings.catch_warnings():
            warnings.simplefilter("ignore")
            fn(item, res, Ctx(tier, seed))
    except BaseException:  # harness error, not a property violation
        res.error("shard %r of %s.%s:\n%s" % (item, modname, funcname, traceback.format_exc()))
    return res


_POOL = None


def pool():
    global _POOL
    if _POOL is None:
        for k in ("OMP_NUM_THREADS", "OPENBLAS_NUM_THREADS", "MKL_NUM_THREADS"):
            os.environ.setdefault(k, "1")
        ctx = mp.get_context("fork")
        _POOL = ctx.Pool(NCPU, initializer=_init_worker)
    return _POOL


def close_pool():
    global _POOL
    if _POOL is not None:
        _POOL.terminate()
        _POOL.join()
        _POOL = None


def run_shards(modname, funcname, shards, ctx, total: Result, deadline=None, progress=None):
    """Evaluate every shard completely.  Returns (n_done, n_total).  With a deadline,
    shards not yet *started* when it passes are skipped (and the caller must report
    exhaustive=False)."""
    shards = list(shards)
    if not shards:
        return 0, 0
    args = [(modname, funcname, s, ctx.tier, ctx.seed) for s in shards]
    done = 0
    if NCPU == 1 or len(shards) == 1:
        _init_worker()
        for a in args:
            if deadline is not None and time.time() > deadline:
                break
            total.merge(_call(a))
            done += 1
        return done, len(shards)
    p = pool()
    if deadline is None:
        for r in p.imap_unordered(_call, args, chunksize=1):
            total.merge(r)
            done += 1
        return done, len(shards)
    # deadline mode: keep at most 2*NCPU tasks in flight so that we can stop early
    pending = collections.deque()
    it = iter(args)
    exhausted = False
    while True:
        while not exhausted and len(pending) < 2 * NCPU and time.time() < deadline:
            try:
                pending.append(p.apply_async(_call, (next(it),)))
            except StopIteration:
                exhausted = True
        if not pending:
            break
        total.merge(pending.popleft().get())
        done += 1
    return done, len(shards)


# ---------------------------------------------------------------------------
# explicit-state exploration
# ---------------------------------------------------------------------------

def _expand(item, res: Result, ctx: Ctx):
    """Worker: expand a batch of states.  item = (modname, explorer_name, [hist, ...], expand_children)"""
    modname, exname, hists, want_children = item
    mod = importlib.import_module(modname)
    ex = getattr(mod, exname)
    for hist in hists:
        for op in ex.ops(hist, ctx):
            hist2 = list(hist) + [op]
            key = ex.step(hist, op, res, ctx)      # rebuild(hist), apply op, check oracle; -> canonical key or None
            res.transitions += 1
            if key is not None and want_children:
                res.successors.append((hist2, short_hash(key)))


def explore(modname, exname, ctx: Ctx, total: Result, max_depth: int, deadline=None):
    """Level-synchronous BFS.  ``exname`` names an object in module ``modname`` with
    ``initial(ctx) -> [hist]`` (histories of length 1 whose only op builds an initial
    state), ``key0(hist) -> canonical key``, ``ops(hist, ctx) -> iterable of ops`` and
    ``step(hist, op, res, ctx) -> canonical key | None``.
    Returns dict(states=, transitions=, max_depth=, complete_depth=, per_level=)."""
    mod = importlib.import_module(modname)
    ex = getattr(mod, exname)
    seen = set()
    frontier = []
    for h in ex.initial(ctx):
        k = short_hash(ex.key0(h, ctx))
        if k not in seen:
            seen.add(k)
            frontier.append(list(h))
    n_init = len(frontier)
    per_level = [n_init]
    complete_depth = 0
    sample_hists = []
    for depth in range(1, max_depth + 1):
        if not frontier:
            break
        want_children = depth < max_depth
        nb = max(1, min(len(frontier), NCPU * 4))
        batches = [frontier[i::nb] for i in range(nb)]
        items = [(modname, exname, b, True) for b in batches]
        level = Result()
        done, n = run_shards("mc.engine", "_expand", items, ctx, level, deadline=deadline)
        succ = level.successors
        level.successors = []
        total.merge(level)
        new_frontier = []
        for hist2, k in sorted(succ, key=lambda t: (len(t[0]), sigkey(t[0]))):
            if k not in seen:
                seen.add(k)
                if want_children:
                    new_frontier.append(hist2)
                if len(sample_hists) < MAX_SAMPLES and len(hist2) >= min(depth + 1, 3):
                    sample_hists.append(hist2)
        per_level.append(len(new_frontier))
        if done < n:
            break
        complete_depth = depth
        frontier = new_frontier
    for h in sample_hists:
        total.sample({"history": h})
    return {"states": len(seen), "transitions": total.transitions, "initial_states": n_init,
            "max_depth": complete_depth, "requested_depth": max_depth,
            "frontier_per_level": per_level}
