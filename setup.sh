#!/bin/bash
# Offline setup: vendor jsonschema (evidence validation) next to the framework.
# /venv itself is never modified.
cd "$(dirname "$0")" || exit 1
if [ ! -d .vendor/jsonschema ]; then
  PIP_NO_INDEX=1 /venv/bin/pip install --quiet --no-index --find-links /opt/veriftools/wheels \
      --target .vendor jsonschema >/dev/null 2>&1 || echo "warning: could not vendor jsonschema; evidence will not be schema-validated"
fi
cp -f /root/.vp/EVIDENCE.schema.json mc/EVIDENCE.schema.json 2>/dev/null || true
/venv/bin/python -c "import irispie, numpy, scipy; print('setup ok: irispie', irispie.__version__)"
