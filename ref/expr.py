"""Expression trees for generated model equations: render / evaluate / differentiate.

Three independent interpreters over the same tree, none of which imports irispie.

Nodes (plain tuples, JSON-able as lists):
  ("num", c) ("par", name) ("var", name, shift)
  ("neg", a) ("+", a, b) ("-", a, b) ("*", a, b) ("/", a, b) ("^", a, b)
  ("fn", fname, a) ("fn", fname, a, b)      fname in FUNCS1 / FUNCS2 or a user function registered in USER
  ("pf", name, a, k)                         pseudofunction, k = shift argument or None for the default

`get(name, t)` supplies the value of a variable at absolute time index t; `get(name, None)` a parameter.
"""
import math

FUNCS1 = {
    "log": (math.log, lambda x: 1.0 / x),
    "exp": (math.exp, lambda x: math.exp(x)),
    "sqrt": (math.sqrt, lambda x: 0.5 / math.sqrt(x)),
    "logistic": (lambda x: 1.0 / (1.0 + math.exp(-x)), lambda x: math.exp(-x) / (1.0 + math.exp(-x)) ** 2),
    "abs": (abs, lambda x: 1.0 if x > 0 else -1.0),
    "normal_cdf": (lambda x: 0.5 * (1.0 + math.erf(x / math.sqrt(2.0))), lambda x: math.exp(-0.5 * x * x) / math.sqrt(2.0 * math.pi)),
    "normal_pdf": (lambda x: math.exp(-0.5 * x * x) / math.sqrt(2.0 * math.pi), lambda x: -x * math.exp(-0.5 * x * x) / math.sqrt(2.0 * math.pi)),
}
FUNCS2 = {"maximum": max, "minimum": min}
USER = {}          # name -> (callable, tuple of partial-derivative callables)

# reference semantics of pseudofunctions, from the documentation table:
#   diff(x,k)      = x - x[k]                 default k = -1
#   diff_log(x,k)  = log(x) - log(x[k])       (aliases difflog)
#   pct(x,k)       = 100*(x/x[k] - 1)
#   roc(x,k)       = x/x[k]
#   mov_sum(x,k)   = x + x[-1] + ... (|k| terms)      default k = -4   (aliases movsum)
#   mov_avg(x,k)   = mov_sum/|k|                        (aliases movavg)
#   mov_prod(x,k)  = x * x[-1] * ...                   (aliases movprod)
#   shift(x,k)     = x[k]                      default k = -1
PF_DEFAULT = {"diff": -1, "diff_log": -1, "pct": -1, "roc": -1, "mov_sum": -4, "mov_avg": -4, "mov_prod": -4, "shift": -1}


def shift_tree(tr, k):
    kind = tr[0]
    if kind == "var":
        return ("var", tr[1], tr[2] + k)
    if kind in ("num", "par"):
        return tr
    if kind == "fn":
        return ("fn", tr[1]) + tuple(shift_tree(a, k) for a in tr[2:])
    if kind == "pf":
        return ("pf", tr[1], shift_tree(tr[2], k), tr[3])
    return (kind,) + tuple(shift_tree(a, k) for a in tr[1:])


def expand_pf(tr):
    """rewrite pseudofunction nodes into plain arithmetic (reference expansion)"""
    kind = tr[0]
    if kind in ("num", "par", "var"):
        return tr
    if kind == "fn":
        return ("fn", tr[1]) + tuple(expand_pf(a) for a in tr[2:])
    if kind != "pf":
        return (kind,) + tuple(expand_pf(a) for a in tr[1:])
    name, a, k = tr[1], expand_pf(tr[2]), tr[3]
    k = PF_DEFAULT[name] if k is None else k
    if name == "diff":
        return ("-", a, shift_tree(a, k))
    if name == "diff_log":
        return ("-", ("fn", "log", a), ("fn", "log", shift_tree(a, k)))
    if name == "pct":
        return ("*", ("num", 100.0), ("-", ("/", a, shift_tree(a, k)), ("num", 1.0)))
    if name == "roc":
        return ("/", a, shift_tree(a, k))
    if name == "shift":
        return shift_tree(a, k)
    if name in ("mov_sum", "mov_avg", "mov_prod"):
        n = abs(k)
        op = "*" if name == "mov_prod" else "+"
        out = a
        for j in range(1, n):
            out = (op, out, shift_tree(a, -j if k < 0 else j))
        if name == "mov_avg":
            out = ("/", out, ("num", float(n)))
        return out
    raise KeyError(name)


def ev(tr, get, t=0):
    kind = tr[0]
    if kind == "num":
        return float(tr[1])
    if kind == "par":
        return get(tr[1], None)
    if kind == "var":
        return get(tr[1], t + tr[2])
    if kind == "neg":
        return -ev(tr[1], get, t)
    if kind == "fn":
        args = [ev(a, get, t) for a in tr[2:]]
        if tr[1] in FUNCS1:
            return FUNCS1[tr[1]][0](args[0])
        if tr[1] in FUNCS2:
            return FUNCS2[tr[1]](*args)
        return USER[tr[1]][0](*args)
    if kind == "pf":
        return ev(expand_pf(tr), get, t)
    a, b = ev(tr[1], get, t), ev(tr[2], get, t)
    if kind == "+":
        return a + b
    if kind == "-":
        return a - b
    if kind == "*":
        return a * b
    if kind == "/":
        return a / b
    if kind == "^":
        return a ** b
    raise KeyError(kind)


def evd(tr, get, wrt, t=0):
    """(value, d value / d wrt) with wrt = (name, shift) a variable occurrence (relative shift) or
    (name, None) a parameter; forward mode with the textbook rules."""
    kind = tr[0]
    if kind == "num":
        return float(tr[1]), 0.0
    if kind == "par":
        return get(tr[1], None), (1.0 if wrt == (tr[1], None) else 0.0)
    if kind == "var":
        return get(tr[1], t + tr[2]), (1.0 if wrt == (tr[1], tr[2]) else 0.0)
    if kind == "neg":
        v, d = evd(tr[1], get, wrt, t)
        return -v, -d
    if kind == "pf":
        return evd(expand_pf(tr), get, wrt, t)
    if kind == "fn":
        vd = [evd(a, get, wrt, t) for a in tr[2:]]
        name = tr[1]
        if name in FUNCS1:
            f, df = FUNCS1[name]
            v, d = vd[0]
            return f(v), (df(v) * d if d != 0.0 else 0.0)
        if name in FUNCS2:
            (a, da), (b, db) = vd
            if name == "maximum":
                return (a, da) if a >= b else (b, db)
            return (a, da) if a <= b else (b, db)
        f, partials = USER[name]
        vals = [v for v, _ in vd]
        return f(*vals), sum(p(*vals) * d for p, (_, d) in zip(partials, vd))
    (a, da), (b, db) = evd(tr[1], get, wrt, t), evd(tr[2], get, wrt, t)
    if kind == "+":
        return a + b, da + db
    if kind == "-":
        return a - b, da - db
    if kind == "*":
        return a * b, da * b + a * db
    if kind == "/":
        return a / b, da / b - a * db / (b * b)
    if kind == "^":
        v = a ** b
        d = 0.0
        if da != 0.0:
            d += b * a ** (b - 1.0) * da
        if db != 0.0:
            d += v * math.log(a) * db
        return v, d
    raise KeyError(kind)


def occurrences(tr, out=None):
    """set of (name, shift) variable occurrences, after pseudofunction expansion"""
    out = set() if out is None else out
    kind = tr[0]
    if kind == "var":
        out.add((tr[1], tr[2]))
    elif kind in ("num", "par"):
        pass
    elif kind == "pf":
        occurrences(expand_pf(tr), out)
    elif kind == "fn":
        for a in tr[2:]:
            occurrences(a, out)
    else:
        for a in tr[1:]:
            occurrences(a, out)
    return out


def params(tr, out=None):
    out = set() if out is None else out
    kind = tr[0]
    if kind == "par":
        out.add(tr[1])
    elif kind in ("num", "var"):
        pass
    elif kind == "fn":
        for a in tr[2:]:
            params(a, out)
    elif kind == "pf":
        params(tr[2], out)
    else:
        for a in tr[1:]:
            params(a, out)
    return out


# ---------------------------------------------------------------------------
# rendering to the model language
# ---------------------------------------------------------------------------

_PREC = {"+": 1, "-": 1, "*": 2, "/": 2, "neg": 3, "^": 4}


def _num(c):
    c = float(c)
    if c == int(c) and abs(c) < 1e9:
        return str(int(c))
    return repr(c)


def render(tr, style=None, prec=0):
    """style keys: brackets '{}'|'[]' (time-shift bracket), plus_lead True|False ('{+1}' vs '{1}'),
    pf_alias {name: spelling}, pf_expand True -> pseudofunctions are written out by hand,
    space '' | ' ' around binary operators."""
    st = style or {}
    lb, rb = st.get("brackets", "[]")
    sp = st.get("space", "")
    kind = tr[0]
    if kind == "num":
        s = _num(tr[1])
        return "(" + s + ")" if s.startswith("-") and prec > 0 else s
    if kind == "par":
        return tr[1]
    if kind == "var":
        k = tr[2]
        if k == 0:
            return tr[1]
        ks = ("+%d" % k if st.get("plus_lead", True) else "%d" % k) if k > 0 else "%d" % k
        return "%s%s%s%s" % (tr[1], lb, ks, rb)
    if kind == "neg":
        s = "-" + render(tr[1], st, _PREC["neg"])
        return "(" + s + ")" if prec > 0 else s
    if kind == "fn":
        return "%s(%s)" % (tr[1], ("," + sp).join(render(a, st, 0) for a in tr[2:]))
    if kind == "pf":
        if st.get("pf_expand"):
            return "(" + render(expand_pf(tr), st, 0) + ")"
        name = st.get("pf_alias", {}).get(tr[1], tr[1])
        if tr[3] is None:
            return "%s(%s)" % (name, render(tr[2], st, 0))
        return "%s(%s,%s%d)" % (name, render(tr[2], st, 0), sp, tr[3])
    p = _PREC[kind]
    if kind == "^":
        s = render(tr[1], st, p + 1) + "^" + render(tr[2], st, p + 1)
    elif kind in ("-", "/"):
        s = render(tr[1], st, p) + sp + kind + sp + render(tr[2], st, p + 1)
    else:
        s = render(tr[1], st, p) + sp + kind + sp + render(tr[2], st, p)
    return "(" + s + ")" if p < prec or (p == prec and prec >= 3) else s


def to_python(tr):
    """same tree as a Python expression over a function x(name, shift) and p(name) — used by self-checks"""
    return render(tr, {"brackets": "[]"})


def richardson(f, x, h=1e-3):
    """4th-order central difference with one Richardson step (for self-checking derivative rules)"""
    d1 = (f(x + h) - f(x - h)) / (2 * h)
    d2 = (f(x + h / 2) - f(x - h / 2)) / h
    return (4 * d2 - d1) / 3
