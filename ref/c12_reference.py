"""Reference semantics for C12 (aggregate / disaggregate / arip), written from the
docstrings of irispie.Series.aggregate / disaggregate and from ref/calendar only.

Nothing here imports irispie.  Frequencies are the integer codes of ref/calendar
(Y=1, H=2, Q=4, M=12, D=365); periods are reference ordinals.
"""
import datetime as _dt
import math

import numpy as np

from ref import calendar as C

NAN = float("nan")

AGG_METHODS = ("mean", "sum", "prod", "first", "last", "min", "max", "callable")


def user_callable(v):
    """The user-supplied aggregation function of the sweep: sensitive to which values it
    receives, to their order and to their number; NaN propagates."""
    v = np.asarray(v, dtype=float).ravel()
    return float(np.sum(np.arange(1, v.size + 1) * v) + 100.0 * v.size)


# ---------------------------------------------------------------------------
# membership
# ---------------------------------------------------------------------------

def coarse_of(fine, coarse, o):
    """the coarse period that contains fine period o (by its first calendar day)"""
    return C.containing(coarse, C.first_day(fine, o))


def group_matrix(fine, coarse, p, start, V):
    """rows = every fine period that falls inside coarse period p (calendar order),
    NaN where the series has no observation"""
    mem = C.members(fine, coarse, p)
    G = np.full((len(mem), V.shape[1]), NAN)
    L = V.shape[0]
    for r, o in enumerate(mem):
        if 0 <= o - start < L:
            G[r] = V[o - start]
    return G


# ---------------------------------------------------------------------------
# aggregation of one group, all columns at once (numpy) and one column (plain Python)
# ---------------------------------------------------------------------------

def reduce_columns(G, method, discard):
    """-> (expected vector, asserted mask).  G: members x columns, already `select`ed.
    Documented semantics: the method is applied to the members of the group; a missing
    member makes mean/sum/prod (and any NaN-propagating callable) missing; first/last are
    the first/last member; with discard_missing the missing members are removed first and
    an empty group is missing.  min/max of a group that still contains NaN: not asserted."""
    n, nc = G.shape
    miss = np.isnan(G)
    asserted = np.ones(nc, dtype=bool)
    with np.errstate(all="ignore"):
        if not discard:
            if method == "mean":
                e = G.sum(axis=0) / n
            elif method == "sum":
                e = G.sum(axis=0)
            elif method == "prod":
                e = G.prod(axis=0)
            elif method == "first":
                e = G[0].copy()
            elif method == "last":
                e = G[-1].copy()
            elif method in ("min", "max"):
                e = G.min(axis=0) if method == "min" else G.max(axis=0)
                asserted = ~miss.any(axis=0)
            elif method == "callable":
                w = np.arange(1, n + 1, dtype=float)[:, None]
                e = (w * G).sum(axis=0) + 100.0 * n
            else:
                raise KeyError(method)
            return e, asserted
        cnt = (~miss).sum(axis=0)
        Z = np.where(miss, 0.0, G)
        cols = np.arange(nc)
        if method == "mean":
            e = Z.sum(axis=0) / np.where(cnt == 0, 1, cnt)
        elif method == "sum":
            e = Z.sum(axis=0)
        elif method == "prod":
            e = np.where(miss, 1.0, G).prod(axis=0)
        elif method == "first":
            e = Z[np.argmax(~miss, axis=0), cols]
        elif method == "last":
            e = Z[n - 1 - np.argmax(~miss[::-1], axis=0), cols]
        elif method == "min":
            e = np.where(miss, np.inf, G).min(axis=0)
        elif method == "max":
            e = np.where(miss, -np.inf, G).max(axis=0)
        elif method == "callable":
            rank = np.cumsum(~miss, axis=0).astype(float)
            e = (rank * Z).sum(axis=0) + 100.0 * cnt
        else:
            raise KeyError(method)
        e = np.where(cnt == 0, NAN, e)
    return e, asserted


def reduce_one(members, method, discard):
    """same semantics, one column, plain Python (second method for the self-check).
    -> (value, asserted)"""
    v = [float(a) for a in members]
    if discard:
        v = [a for a in v if a == a]
    if not v:
        return NAN, True
    has_nan = any(a != a for a in v)
    if method in ("min", "max"):
        if has_nan:
            return NAN, False
        return (min(v) if method == "min" else max(v)), True
    if method == "first":
        return v[0], True
    if method == "last":
        return v[-1], True
    if has_nan:
        return NAN, True
    if method == "mean":
        return math.fsum(v) / len(v), True
    if method == "sum":
        return math.fsum(v), True
    if method == "prod":
        return math.prod(v), True
    if method == "callable":
        return math.fsum((i + 1) * a for i, a in enumerate(v)) + 100.0 * len(v), True
    raise KeyError(method)


def aggregate(fine, coarse, start, V, method, discard, select):
    """-> (first coarse ordinal, E, A): expected rows for every coarse period touched by the
    span start..start+L-1, and the mask of asserted cells.  Everything outside is NaN."""
    L, nc = V.shape
    c0, c1 = coarse_of(fine, coarse, start), coarse_of(fine, coarse, start + L - 1)
    E = np.full((c1 - c0 + 1, nc), NAN)
    A = np.ones((c1 - c0 + 1, nc), dtype=bool)
    for p in range(c0, c1 + 1):
        G = group_matrix(fine, coarse, p, start, V)
        if select is not None:
            G = G[list(select)]
        E[p - c0], A[p - c0] = reduce_columns(G, method, discard)
    return c0, E, A


def aggregate_one_column(fine, coarse, start, col, method, discard, select):
    """plain-Python path: dict period -> value over the observations, group by containment"""
    obs = {start + i: float(a) for i, a in enumerate(col)}
    groups = {}
    for o in obs:
        groups.setdefault(coarse_of(fine, coarse, o), None)
    out = {}
    for p in groups:
        a, b = C.first_day(coarse, p), C.last_day(coarse, p)
        mem = []
        o = C.containing(fine, a)
        while C.first_day(fine, o) <= b:
            mem.append(obs.get(o, NAN))
            o += 1
        if select is not None:
            mem = [mem[i] for i in select]
        out[p] = reduce_one(mem, method, discard)
    return out


# ---------------------------------------------------------------------------
# disaggregation
# ---------------------------------------------------------------------------

def middle_candidates(coarse, fine, p):
    """indexes (within the members of coarse period p) that qualify as 'the middle
    high-frequency period'.  The docstring does not define it for an even number of members:
    both central members are accepted; for a daily target also the day documented as the
    'middle' position of a period (15th day of a middle month)."""
    mem = C.members(fine, coarse, p)
    n = len(mem)
    cand = {(n - 1) // 2, n // 2}
    if fine == C.D:
        a = C.first_day(coarse, p)
        nm = 12 // coarse
        for k in {(nm - 1) // 2, nm // 2}:
            d = _dt.date(a.year, a.month + k, 15)
            cand.add(d.toordinal() - mem[0])
    return sorted(cand)


def disaggregate(coarse, fine, start, V, method, middle_index=None):
    """-> (first fine ordinal, E): documented placement.  middle_index: dict low row -> index"""
    L, nc = V.shape
    lo = C.members(fine, coarse, start)[0]
    hi = C.members(fine, coarse, start + L - 1)[-1]
    E = np.full((hi - lo + 1, nc), NAN)
    for i in range(L):
        mem = C.members(fine, coarse, start + i)
        if method == "flat":
            for o in mem:
                E[o - lo] = V[i]
        elif method == "first":
            E[mem[0] - lo] = V[i]
        elif method == "last":
            E[mem[-1] - lo] = V[i]
        elif method == "middle":
            k = (middle_index or {}).get(i, middle_candidates(coarse, fine, start + i)[0])
            E[mem[k] - lo] = V[i]
        else:
            raise KeyError(method)
    return lo, E


def disaggregate_fixed_factor(coarse, fine, start, V, method):
    """what a repetition with the fixed factor fine//coarse (365//f for daily) produces;
    used only to *classify* a failure of the daily target (known finding), never as oracle"""
    lead = 0                                   # a Series drops leading all-missing rows
    while lead < V.shape[0] - 1 and np.isnan(V[lead]).all():
        lead += 1
    start, V = start + lead, V[lead:]
    L, nc = V.shape
    n = fine // coarse
    lo = C.members(fine, coarse, start)[0]
    E = np.full((L * n, nc), NAN)
    for i in range(L):
        if method == "flat":
            E[i * n:(i + 1) * n] = V[i]
        else:
            k = {"first": 0, "middle": n // 2, "last": n - 1}[method]
            E[i * n + k] = V[i]
    return lo, E


# ---------------------------------------------------------------------------
# arip
# ---------------------------------------------------------------------------

ARIP_Z = {
    "sum": lambda n: np.ones(n),
    "mean": lambda n: np.ones(n) / n,
    "avg": lambda n: np.ones(n) / n,
    "first": lambda n: np.eye(n)[0],
    "last": lambda n: np.eye(n)[-1],
}
ARIP_FORM = {"rate": "rate", "multiplicative": "rate", "diff": "diff", "additive": "diff"}


def arip_problem(n, y, tvec, form, agg):
    """The documented problem for one data column.
    x_t = rho x_{t-1} + c + eps_t, eps_t ~ N(0, sigma_t^2), y = Z x  =>  minimise
    sum_{t>=1} ((x_t - rho x_{t-1} - c)/sigma_t)^2 subject to the aggregation constraints of
    every observed low-frequency period and to the high-frequency target values.
    rate: rho = (average gross rate of change of y)^(1/n), c = 0, sigma_0 = 1, sigma_t = rho sigma_{t-1};
    diff: rho = 1, c = (average difference of y)/n, sigma_t = 1.
    -> dict(K, d, A, b, rho, c)"""
    y = np.asarray(y, dtype=float)
    L = y.size
    T = n * L
    fin = [i for i in range(L) if math.isfinite(y[i])]
    i0, i1 = fin[0], fin[-1]
    if ARIP_FORM[form] == "rate":
        rho = (y[i1] / y[i0]) ** (1.0 / (i1 - i0)) if i1 > i0 else 1.0
        rho = rho ** (1.0 / n)
        c = 0.0
        sigma = [1.0]
        for t in range(1, T):
            sigma.append(rho * sigma[-1])
    else:
        rho = 1.0
        c = ((y[i1] - y[i0]) / (i1 - i0) if i1 > i0 else 0.0) / n
        sigma = [1.0] * T
    K = np.zeros((T - 1, T))
    d = np.zeros(T - 1)
    for t in range(1, T):
        K[t - 1, t] = 1.0 / sigma[t]
        K[t - 1, t - 1] = -rho / sigma[t]
        d[t - 1] = c / sigma[t]
    z = ARIP_Z[agg](n)
    rows, rhs = [], []
    for i in fin:
        r = np.zeros(T)
        r[i * n:(i + 1) * n] = z
        rows.append(r)
        rhs.append(y[i])
    for t in range(T):
        if math.isfinite(tvec[t]):
            r = np.zeros(T)
            r[t] = 1.0
            rows.append(r)
            rhs.append(tvec[t])
    return dict(K=K, d=d, A=np.array(rows), b=np.array(rhs), rho=rho, c=c, n_agg=len(fin))


def null_space(A, rtol=1e-10):
    u, s, vt = np.linalg.svd(A, full_matrices=True)
    rank = int((s > rtol * s[0]).sum()) if s.size else 0
    return vt[rank:].T


def arip_solve(prob):
    """independent constrained least squares by the null-space method (no KKT matrix)"""
    K, d, A, b = prob["K"], prob["d"], prob["A"], prob["b"]
    xp = np.linalg.lstsq(A, b, rcond=None)[0]
    N = null_space(A)
    if N.shape[1] == 0:
        return xp, N
    w = np.linalg.lstsq(K @ N, d - K @ xp, rcond=None)[0]
    return xp + N @ w, N


def arip_projected_gradient(prob, N, x):
    K, d = prob["K"], prob["d"]
    g = K.T @ (K @ x - d)
    scale = float(np.abs(K.T @ K).sum(axis=1).max() * max(1.0, np.abs(x).max()) + np.abs(K.T @ d).max())
    pg = N.T @ g if N.shape[1] else np.zeros(1)
    return float(np.abs(pg).max()), scale
