"""Reference calendar, written only with Python's datetime/calendar.

A reference period is (freq, ordinal):
  freq in {1, 2, 4, 12}: ordinal = year*freq + (segment-1)
  freq == 365 (daily):   ordinal = date.toordinal()
  freq == 0 (integer):   ordinal = the integer
Nothing here imports irispie.
"""
import calendar as _ca
import datetime as _dt

Y, H, Q, M, D, I = 1, 2, 4, 12, 365, 0
REGULAR = (Y, H, Q, M)
CALENDAR = (Y, H, Q, M, D)
ALL = (Y, H, Q, M, D, I)
NAMES = {Y: "Y", H: "H", Q: "Q", M: "M", D: "D", I: "I"}


def ordinal(freq, year, seg=1):
    if freq in REGULAR:
        return year * freq + seg - 1
    if freq == D:
        return _dt.date(year, 1, 1).toordinal() + seg - 1
    raise ValueError(freq)


def year_segment(freq, o):
    if freq in REGULAR:
        return o // freq, o % freq + 1
    if freq == D:
        d = _dt.date.fromordinal(o)
        return d.year, d.timetuple().tm_yday
    raise ValueError(freq)


def months_per(freq):
    return 12 // freq


def first_day(freq, o):
    if freq == D:
        return _dt.date.fromordinal(o)
    y, s = year_segment(freq, o)
    return _dt.date(y, (s - 1) * months_per(freq) + 1, 1)


def last_day(freq, o):
    if freq == D:
        return _dt.date.fromordinal(o)
    y, s = year_segment(freq, o)
    m = s * months_per(freq)
    return _dt.date(y, m, _ca.monthrange(y, m)[1])


def containing(freq, day: _dt.date):
    """ordinal of the freq-period that contains the calendar day"""
    if freq == D:
        return day.toordinal()
    return day.year * freq + (day.month - 1) // months_per(freq)


def days_in(freq, o):
    return (last_day(freq, o) - first_day(freq, o)).days + 1


def members(fine, coarse, o_coarse):
    """ordinals of all fine-frequency periods contained in coarse period o_coarse"""
    a, b = first_day(coarse, o_coarse), last_day(coarse, o_coarse)
    return list(range(containing(fine, a), containing(fine, b) + 1))


def sdmx(freq, o):
    """SDMX rendering from the standard (used only to cross-check the library's strings)"""
    if freq == I:
        return "(%d)" % o
    if freq == D:
        d = _dt.date.fromordinal(o)
        return "%04d-%02d-%02d" % (d.year, d.month, d.day)
    y, s = year_segment(freq, o)
    if freq == Y:
        return "%04d" % y
    if freq == M:
        return "%04d-%02d" % (y, s)
    return "%04d-%s%d" % (y, NAMES[freq], s)
