"""Reference facts about block-triangular orderings of boolean incidence matrices (C16).

A matrix is a tuple of row bitmasks: bit j of rows[i] is entry (i, j).  Nothing here
imports irispie or numpy; everything is plain integer arithmetic.

* perfect matching, decided two independent ways (augmenting search / Hall's condition);
* the validity conditions of a block decomposition as stated in the property;
* the finest decomposition (strong components of the matched digraph), used only to
  *record* how coarse the implementation's answer is (the property does not ask for the
  finest one);
* acyclicity / sequential-order facts for dependency digraphs.
"""
import itertools as _it


def rows_from_bits(n, bits):
    """row-major code: bit i*n+j of `bits` is entry (i, j)"""
    full = (1 << n) - 1
    return tuple((bits >> (i * n)) & full for i in range(n))


def bits_from_rows(n, rows):
    out = 0
    for i, r in enumerate(rows):
        out |= r << (i * n)
    return out


def popcount(x):
    return bin(x).count("1")


# ---------------------------------------------------------------------------
# perfect matching
# ---------------------------------------------------------------------------

def matching(rows, ncols=None):
    """a maximum-cardinality matching by depth-first assignment with backtracking:
    returns a tuple col_of_row (or None when no perfect matching of all rows exists)"""
    k = len(rows)

    def rec(i, used):
        if i == k:
            return ()
        avail = rows[i] & ~used
        while avail:
            low = avail & -avail
            rest = rec(i + 1, used | low)
            if rest is not None:
                return (low.bit_length() - 1,) + rest
            avail ^= low
        return None
    return rec(0, 0)


def has_pm(rows):
    """square system: is there a perfect matching?  (backtracking search)"""
    return matching(rows) is not None


def has_pm_hall(rows):
    """Hall's marriage condition over every subset of rows (second, independent method);
    assumes as many columns as rows are in play (union of all rows must reach k columns)."""
    k = len(rows)
    for s in range(1, 1 << k):
        nb = 0
        cnt = 0
        i = 0
        t = s
        while t:
            if t & 1:
                nb |= rows[i]
                cnt += 1
            t >>= 1
            i += 1
        if popcount(nb) < cnt:
            return False
    return True


def has_pm_perm(rows):
    """third method for small k: some permutation hits only ones"""
    k = len(rows)
    return any(all((rows[i] >> p[i]) & 1 for i in range(k)) for p in _it.permutations(range(k)))


def submatrix(rows, row_idx, col_idx):
    """re-coded rows of the sub-matrix rows[row_idx][:, col_idx]"""
    out = []
    for i in row_idx:
        r = 0
        for b, j in enumerate(col_idx):
            if (rows[i] >> j) & 1:
                r |= 1 << b
        out.append(r)
    return tuple(out)


# ---------------------------------------------------------------------------
# validity of a block decomposition
# ---------------------------------------------------------------------------

def check_blocks(n, rows, blocks):
    """blocks: sequence of (row index tuple, column index tuple) in the returned order.
    Returns a list of (check, detail) for every condition of the property that fails:
      partition  – rows / columns not each covered exactly once
      square     – a block with different numbers of rows and columns (or an empty block)
      singular   – a square block whose own sub-matrix has no perfect matching
      order      – a row of a block touches a column of a *later* block
    """
    bad = []
    seen_r = sorted(i for b in blocks for i in b[0])
    seen_c = sorted(j for b in blocks for j in b[1])
    if seen_r != list(range(n)):
        bad.append(("partition", "rows covered %r" % (seen_r,)))
    if seen_c != list(range(n)):
        bad.append(("partition", "columns covered %r" % (seen_c,)))
    if bad:
        return bad
    done = 0
    for k, (ri, ci) in enumerate(blocks):
        if len(ri) != len(ci) or not ri:
            bad.append(("square", "block %d has %d rows and %d columns" % (k, len(ri), len(ci))))
            return bad
        own = 0
        for j in ci:
            own |= 1 << j
        allowed = done | own
        for i in ri:
            if rows[i] & ~allowed:
                bad.append(("order", "block %d row %d touches columns %s of later blocks"
                            % (k, i, [j for j in range(n) if (rows[i] & ~allowed) >> j & 1])))
                return bad
        sub = submatrix(rows, ri, ci)
        a, b = has_pm(sub), has_pm_hall(sub)
        if a != b:
            raise AssertionError("reference matching self-check failed on %r" % (sub,))
        if not a:
            bad.append(("singular", "block %d (rows %r, columns %r) has no perfect matching" % (k, ri, ci)))
            return bad
        done = allowed
    return bad


def finest_block_count(n, rows):
    """number of blocks of the finest block-triangular form = number of strong components of
    the digraph row i -> row matched to column j, for every j in row i (any perfect matching
    gives the same components).  Requires a perfect matching."""
    col_of = matching(rows)
    row_of_col = {c: r for r, c in enumerate(col_of)}
    reach = []
    for i in range(n):
        m = 1 << i
        for j in range(n):
            if (rows[i] >> j) & 1:
                m |= 1 << row_of_col[j]
        reach.append(m)
    changed = True
    while changed:
        changed = False
        for i in range(n):
            m = reach[i]
            new = m
            t = m
            k = 0
            while t:
                if t & 1:
                    new |= reach[k]
                t >>= 1
                k += 1
            if new != m:
                reach[i] = new
                changed = True
    comps = set()
    for i in range(n):
        comp = 0
        for k in range(n):
            if (reach[i] >> k) & 1 and (reach[k] >> i) & 1:
                comp |= 1 << k
        comps.add(comp)
    return len(comps)


# ---------------------------------------------------------------------------
# dependency digraphs (Sequential models)
# ---------------------------------------------------------------------------

def is_acyclic(n, deps):
    """deps[i] = bitmask of the variables equation i reads at zero shift (self excluded).
    Kahn's algorithm."""
    left = set(range(n))
    defined = 0
    while left:
        ready = [i for i in left if not (deps[i] & ~defined)]
        if not ready:
            return False
        for i in ready:
            left.discard(i)
            defined |= 1 << i
    return True


def has_cycle_dfs(n, deps):
    """second method: depth-first search for a back edge"""
    color = [0] * n

    def visit(i):
        color[i] = 1
        for j in range(n):
            if (deps[i] >> j) & 1:
                if color[j] == 1:
                    return True
                if color[j] == 0 and visit(j):
                    return True
        color[i] = 2
        return False
    return any(color[i] == 0 and visit(i) for i in range(n))


def order_violations(deps, order):
    """order: equation indexes in execution order.  Returns the (position, equation, variable)
    triples where an equation reads at zero shift a variable not defined strictly earlier."""
    out = []
    defined = 0
    for pos, i in enumerate(order):
        missing = deps[i] & ~defined & ~(1 << i)
        j = 0
        while missing:
            if missing & 1:
                out.append((pos, i, j))
            missing >>= 1
            j += 1
        defined |= 1 << i
    return out
