"""Reference side of C18 (reduced-form VAR): plain numpy, never imports irispie.

Everything here is written from the textbook definitions

    y_t = A_1 y_{t-1} + ... + A_p y_{t-p} + B x_t + c + u_t ,        t in the fitted sample

* data tables (deterministic pseudo-random; noise-free paths of a known stable VAR),
* own lag stacking and own complete-row mask,
* prior dummy observations (Minnesota / mean) in the textbook form,
* companion form, its mean, eigenvalues and autocovariances (Lyapunov by Kronecker solve),
* a forward recursion simulator.
"""
import numpy as np

# ---------------------------------------------------------------------------
# data tables
# ---------------------------------------------------------------------------


def random_table(nrow, ncol, key):
    """deterministic pseudo-random table; `key` (tuple of ints) names the table"""
    rng = np.random.default_rng([18, 7] + [int(k) for k in key])
    return rng.standard_normal((nrow, ncol))


def random_data(n, nx, P, key):
    """levels and scales differ per variable so that the intercept and the scaling matter"""
    z = random_table(n + nx, P, key)
    y = np.array([[1.0 + 0.7 * i] for i in range(n)]) + np.array([[0.6 + 0.5 * i] for i in range(n)]) * z[:n]
    # mild persistence so that lags carry information
    for t in range(1, P):
        y[:, t] += 0.35 * (y[:, t - 1] - y[:, t - 1].mean())
    x = 0.5 + z[n:] * 1.3
    return y, x


def generating_var(n, nx, p, ic, key):
    """a known stable VAR: coefficient matrices scaled to spectral radius 0.9"""
    m = random_table(n, n * p + nx + 1, (101,) + tuple(key))
    A = m[:, :n * p].copy()
    for lag in range(p):                       # make own lags dominant, alternate sign over lags
        A[:, lag * n:(lag + 1) * n] = 0.4 * A[:, lag * n:(lag + 1) * n] + (0.8 if lag % 2 == 0 else -0.5) * np.eye(n)
    rad = max(abs(np.linalg.eigvals(companion(A, n, p))))
    s = 0.9 / rad
    for lag in range(p):                       # A_l -> s^l A_l scales every eigenvalue by s
        A[:, lag * n:(lag + 1) * n] *= s ** (lag + 1)
    B = 0.5 + 0.8 * m[:, n * p:n * p + nx]
    c = (1.0 + m[:, -1]) if ic else np.zeros(n)
    return A, B, c


def var_path(A, B, c, n, nx, p, P, key):
    """noise-free path of the VAR (A, B, c), driven by a pseudo-random exogenous input and
    pseudo-random initial conditions"""
    z = random_table(n + nx, P, (202,) + tuple(key))
    x = 0.5 + 1.3 * z[n:]
    y = np.zeros((n, P))
    y[:, :p] = 1.0 + 2.0 * z[:n, :p]
    for t in range(p, P):
        acc = c.copy()
        for lag in range(1, p + 1):
            acc = acc + A[:, (lag - 1) * n:lag * n] @ y[:, t - lag]
        if nx:
            acc = acc + B @ x[:, t]
        y[:, t] = acc
    return y, x


# ---------------------------------------------------------------------------
# regression arrays
# ---------------------------------------------------------------------------

def stack(y, x, p, ic):
    """Y0 (n x T), regressors R (k x T) = [lag 1; ...; lag p; x; 1], complete-row mask (T,)
    for the T = P - p base periods"""
    n, P = y.shape
    T = P - p
    y0 = y[:, p:]
    lags = [y[:, p - lag:P - lag] for lag in range(1, p + 1)]
    rows = lags + [x[:, p:]]
    if ic:
        rows.append(np.ones((1, T)))
    R = np.vstack(rows)
    complete = np.isfinite(y0).all(axis=0) & np.isfinite(R).all(axis=0)
    return y0, R, complete


def runs(mask):
    """maximal runs of consecutive True entries -> list of (first, last)"""
    out, start = [], None
    for i, m in enumerate(list(mask) + [False]):
        if m and start is None:
            start = i
        if not m and start is not None:
            out.append((start, i - 1))
            start = None
    return out


# ---------------------------------------------------------------------------
# prior dummy observations (textbook form)
# ---------------------------------------------------------------------------

def minnesota_dummies(n, nx, p, ic, rho, mu, kappa, sigma):
    """n*p artificial observations: for lag l and variable i
           mu*sigma_i*l^kappa * A_l[:, i] = (l == 1) * rho_i * mu*sigma_i * e_i
       i.e. prior A_1 = diag(rho), A_l = 0 (l > 1), tightness mu * l^kappa; exogenous/constant columns 0"""
    rho = np.broadcast_to(np.asarray(rho, dtype=float), (n,))
    sigma = np.broadcast_to(np.asarray(sigma, dtype=float), (n,))
    m = n * p
    lhs = np.zeros((n, m))
    rhs = np.zeros((m + nx + int(ic), m))
    for lag in range(1, p + 1):
        for i in range(n):
            j = (lag - 1) * n + i
            rhs[j, j] = mu * sigma[i] * lag ** kappa
            if lag == 1:
                lhs[i, j] = mu * sigma[i] * rho[i]
    return lhs, rhs


def mean_dummies(n, nx, p, ic, mean, mu):
    """one artificial observation (only with an intercept) saying that the process sits at `mean`
    at all lags, weight mu:   mu*mean = sum_l A_l mu*mean + c*mu"""
    k = n * p + nx + int(ic)
    if not ic:
        return np.zeros((n, 0)), np.zeros((k, 0))
    mean = np.broadcast_to(np.asarray(mean, dtype=float), (n,))
    lhs = (mu * mean).reshape(n, 1)
    rhs = np.zeros((k, 1))
    for lag in range(p):
        rhs[lag * n:(lag + 1) * n, 0] = mu * mean
    rhs[-1, 0] = mu
    return lhs, rhs


# ---------------------------------------------------------------------------
# companion form
# ---------------------------------------------------------------------------

def companion(A, n, p):
    C = np.zeros((n * p, n * p))
    C[:n, :] = A
    for i in range(n * (p - 1)):
        C[n + i, i] = 1.0
    return C


def var_mean(A, c, n, p):
    """(I - A_1 - ... - A_p)^-1 c ; returns (mean, condition number of the matrix inverted)"""
    S = np.eye(n)
    for lag in range(p):
        S = S - A[:, lag * n:(lag + 1) * n]
    return np.linalg.solve(S, c), np.linalg.cond(S)


def acov(A, Sigma, n, p, up_to):
    """autocovariances of the companion form by a Kronecker (vec) solve of Omega = C Omega C' + S;
    returns (list of n x n matrices, condition number of the Kronecker system, series self-check error)"""
    C = companion(A, n, p)
    m = n * p
    S = np.zeros((m, m))
    S[:n, :n] = Sigma
    K = np.eye(m * m) - np.kron(C, C)
    cond = np.linalg.cond(K)
    Om = np.linalg.solve(K, S.reshape(-1)).reshape(m, m)
    out = [Om[:n, :n]]
    X = Om
    for _ in range(up_to):
        X = C @ X
        out.append(X[:n, :n])
    return out, cond, Om, C, S


def simulate(A, B, c, y_init, x, u, n, p):
    """forward recursion; y_init n x p (oldest first), x nx x H, u n x H -> n x H"""
    H = u.shape[1]
    y = np.hstack([y_init, np.zeros((n, H))])
    for h in range(H):
        t = p + h
        acc = (c if c is not None else 0.0) + u[:, h]
        for lag in range(1, p + 1):
            acc = acc + A[:, (lag - 1) * n:lag * n] @ y[:, t - lag]
        if x.shape[0]:
            acc = acc + B @ x[:, h]
        y[:, t] = acc
    return y[:, p:]


def multiset_distance(a, b):
    """greedy matching: max over elements of a of the distance to the nearest still unmatched element of b"""
    a = list(complex(v) for v in a)
    b = list(complex(v) for v in b)
    if len(a) != len(b):
        return float("inf")
    worst = 0.0
    key = lambda v: (round(v.real, 6), v.imag)
    for v in sorted(a, key=key):
        j = min(range(len(b)), key=lambda i: abs(b[i] - v))
        worst = max(worst, abs(b[j] - v))
        b.pop(j)
    return worst


# ---------------------------------------------------------------------------
# call histories (reference model of the caller's objects)
# ---------------------------------------------------------------------------
# The reference model of a sequence of calls is deliberately trivial: the caller's data table is whatever the caller
# put there - no estimate / simulate call changes it - and an estimated model object holds the estimates of its own
# last estimate call.  Hence every estimate of a history has to be the least-squares solution on the complete rows of
# ITS span of the ORIGINAL table, whatever was called before, on whichever objects.

def span_rows(y, x, p, ic, lo, hi):
    """regression arrays of the base rows lo..hi (inclusive) of the original table"""
    y0, Rg, complete = stack(y, x, p, ic)
    return y0[:, lo:hi + 1], Rg[:, lo:hi + 1], complete[lo:hi + 1]


H_SPANS = ("S", "L")                      # short (interior) span, long span (the whole table)
H_EST_TARGETS = ("none", "sep", "same")   # target_db: not given | a separate databox | the input databox itself
H_MODELS = ("same", "fresh")              # the model object of the previous estimate | a newly constructed one
H_SIM_TARGETS = ("none", "db", "est")     # simulate target_db: not given | the data databox | simulate's own input


def history_alphabet():
    """letters: ("E", span, target, model) | ("S", target) | ("X",) = the caller overwrites, in place, every series of
    the databox returned by the last estimate"""
    out = [("E", sp, tg, md) for sp in H_SPANS for tg in H_EST_TARGETS for md in H_MODELS]
    out += [("S", tg) for tg in H_SIM_TARGETS]
    out.append(("X",))
    return out


def history_sequences(max_len, min_len=1):
    """every valid word of min_len..max_len letters.  Valid: the first letter is an estimate with a fresh model; "S"
    and "X" need the databox returned by the last estimate to be still intact (no "X" since)."""
    alphabet = history_alphabet()
    out = []

    def extend(word, have_model, est_intact):
        if min_len <= len(word):
            out.append(tuple(word))
        if len(word) == max_len:
            return
        for letter in alphabet:
            if letter[0] == "E":
                if not have_model and letter[3] != "fresh":
                    continue
                extend(word + [letter], True, True)
            elif est_intact:
                extend(word + [letter], have_model, letter[0] != "X")

    extend([], False, False)
    return out
