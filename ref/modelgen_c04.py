"""Structured model programs -> model-language source text, for C04 (translation validation).

Nothing in this file imports irispie.  A *model spec* is plain data: declarations with kinds,
descriptions and log flags, and equations as (lhs tree, rhs tree, optional steady pair) built from
ref.expr nodes plus four source-level nodes that exist only here:

    ("sub", name)                         a reference to spec["subs"][name]      ($name$ or inlined)
    ("ctx", key)                          a numeric preparser context expression (<expr> or literal)
    ("forsum", head, ctrl, tokens, term)  head + sum over tokens of term         (!for inside an equation)
    names containing @c@ / @cU@ / @cL@    the control variable c of an enclosing FOR group (as is / upper / lower)

`structure(spec)` lowers a spec to its meaning (plain trees, explicit names): that is the reference.
`render(spec, sw)` writes one of the 2^k source texts selected by the switch vector `sw` (dict name->0/1).
All switches are meaning-preserving except `desc_off`, which removes the description strings (the
expected descriptions are then empty).
"""
import re

from ref import expr as X

SWITCHES = [
    "kw_short",   # !variables / !shocks / !equations instead of !transition-...
    "kw_under",   # underscores instead of hyphens in every keyword
    "curly",      # x{-1} instead of x[-1]
    "walrus",     # := instead of =
    "noplus",     # x[1] instead of x[+1]
    "sep",        # newline-separated declarations instead of ", "
    "sep2",       # with sep: "; " / " " instead of ", " / newline
    "desc_off",   # description strings removed
    "lcom",       # % # \ #! line comments at token boundaries
    "bcom",       # %{ %} and #{ #} block comments at token boundaries
    "cont",       # ... line continuations at token boundaries
    "ws",         # blanks around operators and inside time-shift brackets
    "pfx",        # pseudofunctions written out by hand (reference expansion)
    "pfa",        # alias spellings difflog movavg movsum movprod
    "pfd",        # default shift written explicitly
    "for",        # !for factoring of families and sums
    "forc",       # other spelling of the control variable (?c / ? / |upper |lower)
    "if",         # !if ... !then ... !else ... !end wrappers
    "sub",        # $name$ substitutions instead of inline text
    "ctx",        # <expr> context expressions instead of literals
    "list",       # name`tag + !list(`tag) for the log-variable list
    "allbut",     # !log-variables !all-but <complement>
    "order",      # blocks split in two and written in another order
]

KW = {"tv": ("!transition-variables", "!variables"), "ts": ("!transition-shocks", "!shocks"),
      "teq": ("!transition-equations", "!equations"), "mv": ("!measurement-variables",) * 2,
      "ms": ("!measurement-shocks",) * 2, "meq": ("!measurement-equations",) * 2,
      "par": ("!parameters",) * 2, "exo": ("!exogenous-variables",) * 2,
      "log": ("!log-variables",) * 2, "subs": ("!substitutions",) * 2}
DECL_KINDS = ("tv", "ts", "mv", "ms", "par", "exo")
KIND_NAME = {"tv": "TRANSITION_VARIABLE", "ts": "TRANSITION_SHOCK", "mv": "MEASUREMENT_VARIABLE",
             "ms": "MEASUREMENT_SHOCK", "par": "PARAMETER", "exo": "EXOGENOUS_VARIABLE"}
PF_ALIAS = {"diff_log": "difflog", "mov_avg": "movavg", "mov_sum": "movsum", "mov_prod": "movprod"}

# ---------------------------------------------------------------------------
# tree constructors
# ---------------------------------------------------------------------------


def V(n, k=0):
    return ("var", n, k)


def P(n):
    return ("par", n)


def N(c):
    return ("num", c)


def _fold(op, args):
    out = args[0]
    for a in args[1:]:
        out = (op, out, a)
    return out


def add(*a):
    return _fold("+", a)


def sub(a, b):
    return ("-", a, b)


def mul(*a):
    return _fold("*", a)


def div(a, b):
    return ("/", a, b)


def pw(a, b):
    return ("^", a, b)


def neg(a):
    return ("neg", a)


def F(name, *a):
    return ("fn", name) + tuple(a)


def PF(name, a, k=None):
    return ("pf", name, a, k)


def SUB(name):
    return ("sub", name)


def CTX(key):
    return ("ctx", key)


def FORSUM(head, ctrl, tokens, term):
    return ("forsum", head, ctrl, tuple(tokens), term)


def Q(name, desc="", log=False):
    return ("q", name, desc, log)


def E(lhs, rhs, steady=None, desc=""):
    return ("e", lhs, rhs, steady, desc)


def FOR(ctrl, tokens, groups, tokens_ctx=None):
    return ("for", ctrl, tuple(tokens), list(groups), tokens_ctx)


def ONLY(ctrl, tok, group):
    return ("only", ctrl, tok, group)


def CTXNAMES(key, qs):
    return ("ctxnames", key, list(qs))


# ---------------------------------------------------------------------------
# lowering to the meaning
# ---------------------------------------------------------------------------

_MARK = re.compile(r"@([a-z])([UL]?)@")


def inst_name(name, env):
    def rep(m):
        if m.group(1) not in env:
            return m.group(0)
        tok = env[m.group(1)]
        return tok.upper() if m.group(2) == "U" else tok.lower() if m.group(2) == "L" else tok
    return _MARK.sub(rep, name)


def lower(tr, spec, env):
    """plain ref.expr tree: markers instantiated, substitutions inlined, context values as numbers,
    for-sums folded"""
    k = tr[0]
    if k == "var":
        return ("var", inst_name(tr[1], env), tr[2])
    if k == "par":
        return ("par", inst_name(tr[1], env))
    if k == "num":
        return tr
    if k == "sub":
        return lower(spec["subs"][tr[1]], spec, env)
    if k == "ctx":
        return ("num", float(spec["ctx"][tr[1]][1]))
    if k == "forsum":
        _, head, ctrl, tokens, term = tr
        out = lower(head, spec, env) if head is not None else None
        for tok in tokens:
            t = lower(term, spec, dict(env, **{ctrl: tok}))
            out = t if out is None else ("+", out, t)
        return out
    if k == "fn":
        return ("fn", tr[1]) + tuple(lower(a, spec, env) for a in tr[2:])
    if k == "pf":
        return ("pf", tr[1], lower(tr[2], spec, env), tr[3])
    return (k,) + tuple(lower(a, spec, env) for a in tr[1:])


def _walk(groups, env, out, spec, kind):
    for g in groups:
        t = g[0]
        if t == "q":
            out.append(("q", kind, inst_name(g[1], env), inst_name(g[2], env), g[3]))
        elif t == "e":
            _, lhs, rhs, steady, desc = g
            st = None if steady is None else (lower(steady[0], spec, env), lower(steady[1], spec, env))
            out.append(("e", kind, lower(lhs, spec, env), lower(rhs, spec, env), st, inst_name(desc, env)))
        elif t == "for":
            _, ctrl, tokens, sub_groups, _ = g
            for tok in tokens:
                _walk(sub_groups, dict(env, **{ctrl: tok}), out, spec, kind)
        elif t == "only":
            if env[g[1]] == g[2]:
                _walk([g[3]], env, out, spec, kind)
        elif t == "ctxnames":
            _walk(g[2], env, out, spec, kind)
        else:
            raise KeyError(t)


def structure(spec):
    """the meaning of a spec:
    {"decl": {kind: [(name, desc, log)]}, "teq": [(lhs, rhs, steady|None, desc)], "meq": [...]}"""
    decl = {k: [] for k in DECL_KINDS}
    eqs = {"teq": [], "meq": []}
    for kind, groups in spec["blocks"]:
        if kind == "log":
            continue
        out = []
        _walk(groups, {}, out, spec, kind)
        for it in out:
            if it[0] == "q":
                decl[kind].append((it[2], it[3], bool(it[4])))
            else:
                eqs[kind].append((it[2], it[3], it[4], it[5]))
    return {"decl": decl, "teq": eqs["teq"], "meq": eqs["meq"]}


# ---------------------------------------------------------------------------
# rendering
# ---------------------------------------------------------------------------

_TOK = re.compile(r"""
      [\[\{][^\]\}]*[\]\}]        # a time-shift bracket (atomic)
    | ,[-+]?\d+(?=\))             # an integer last argument (pseudofunction shift): sign stays with digits
    | :=|!!|[-+*/^(),=]            # operators
    | [\w.@]+                     # names (with markers / placeholders) and numbers
    | \s+
""", re.X)

_LCOMS = ["% c1 \"x\" !if ?c <no> $z$ %}", "# c2 'q' !for ... x{-1}", "\\ c3 backslash"]
# comments that survive until the model parser: only between statements / declared names
_LCOMS_KEPT = _LCOMS + ["#! c4 kept until the model parser", "%! c5 also kept"]
_BCOMS = ["%{ b1 ) ( , %}", "#{ b2\n   second line ; !! = #}", "%{b3%}"]


class _Deco:
    """inserts comments / continuations / blanks at token boundaries, by a fixed schedule of the
    running boundary index"""

    def __init__(self, sw):
        self.sw = sw
        self.i = 0

    def gap(self, hard_newline_ok=True):
        """text to put at one token boundary"""
        sw, i = self.sw, self.i
        self.i += 1
        out = " " if sw["ws"] else ""
        if sw["bcom"] and i % 3 == 0:
            out += _BCOMS[(i // 3) % len(_BCOMS)] + (" " if i % 2 else "")
        ender = None
        if sw["cont"] and i % 5 == 2:
            ender = " ..." + ("" if i % 2 else " continued") + "\n        "
        if sw["lcom"] and i % 5 == 4:
            ender = "  " + _LCOMS[(i // 5) % len(_LCOMS)] + "\n      "
        if ender and hard_newline_ok:
            out += ender
        return out

    def expr(self, text):
        """decorate a rendered expression"""
        sw = self.sw
        out = []
        for m in _TOK.finditer(text):
            tok = m.group(0)
            if tok[0] in "[{":
                if sw["ws"] and self.i % 2 == 0:
                    tok = tok[0] + " " + tok[1:-1] + " " + tok[-1]
                out.append(tok)
            elif tok[0] == "," and len(tok) > 1:
                out.append(",")
                out.append(self.gap())
                out.append(tok[1:])
            elif tok in ("+", "-", "*", "/", "^", "(", ",", "=", ":="):
                if sw["ws"] and tok not in ("(", "^"):
                    out.append(" ")
                out.append(tok)
                out.append(self.gap())
            else:
                out.append(tok)
        return "".join(out)


def _prep(tr, spec, sw, ph):
    """replace source-level nodes by placeholder leaves (or inline them), ready for ref.expr.render"""
    k = tr[0]
    if k in ("var", "par", "num"):
        return tr
    if k == "sub":
        if sw["sub"]:
            return ("var", "ZSUB%sZ" % tr[1], 0)
        return _prep(spec["subs"][tr[1]], spec, sw, ph)
    if k == "ctx":
        if sw["ctx"]:
            ph.append(spec["ctx"][tr[1]][0])
            return ("var", "ZCTX%dZ" % (len(ph) - 1), 0)
        return ("num", spec["ctx"][tr[1]][1])
    if k == "fn":
        return ("fn", tr[1]) + tuple(_prep(a, spec, sw, ph) for a in tr[2:])
    if k == "pf":
        kk = tr[3]
        if kk is None and sw["pfd"]:
            kk = X.PF_DEFAULT[tr[1]]
        return ("pf", tr[1], _prep(tr[2], spec, sw, ph), kk)
    if k == "forsum":
        raise ValueError("forsum must be the whole right-hand side")
    return (k,) + tuple(_prep(a, spec, sw, ph) for a in tr[1:])


class Renderer:
    def __init__(self, spec, sw):
        self.spec, self.sw = spec, dict(sw)
        for s in SWITCHES:
            self.sw.setdefault(s, 0)
        sw = self.sw
        self.style = {"brackets": "{}" if sw["curly"] else "[]", "plus_lead": not sw["noplus"],
                      "pf_expand": bool(sw["pfx"]), "pf_alias": PF_ALIAS if sw["pfa"] else {}, "space": ""}
        self.deco = _Deco(sw)
        self.eqsign = ":=" if sw["walrus"] else "="
        self.nfor = 0          # running index of !for groups (selects the control spelling)
        self.neq = 0           # running index of top-level equations (selects the !if form)
        self.ctrl_text = {}    # ctrl -> (as_is, upper, lower) spelling inside the current !for bodies
        self.events = []       # top-level !if forms in source order: "if_else" / "if_noelse"
        st = structure(spec)
        self.logset = {n for k in ("tv", "mv", "exo") for (n, _, lg) in st["decl"][k] if lg}
        self.nonlogset = {n for k in ("tv", "mv", "exo") for (n, _, lg) in st["decl"][k] if not lg}
        self.use_allbut = bool(sw["allbut"]) and bool(self.nonlogset) and bool(self.logset)
        self.use_list = bool(sw["list"]) and bool(self.logset) and (bool(self.nonlogset) or not self.use_allbut)

    # -- expressions ----------------------------------------------------
    def _finish(self, text, ph, env):
        text = re.sub(r"ZSUB(\w+?)Z", lambda m: "$" + m.group(1) + "$", text)
        text = re.sub(r"ZCTX(\d+)Z", lambda m: "<" + ph[int(m.group(1))] + ">", text)
        return self._markers(text, env)

    def _markers(self, text, env):
        """markers of controls that are being factored stay symbolic (spelled as the control variable);
        the others are instantiated from env"""
        def rep(m):
            c, mode = m.group(1), m.group(2)
            if c in self.ctrl_text:
                return self.ctrl_text[c][{"": 0, "U": 1, "L": 2}[mode]]
            tok = env[c]
            return tok.upper() if mode == "U" else tok.lower() if mode == "L" else tok
        return _MARK.sub(rep, text)

    def expr(self, tr, env, prec=0, decorate=True):
        ph = []
        t = X.render(_prep(tr, self.spec, self.sw, ph), self.style, prec)
        if decorate:
            t = self.deco.expr(t)
        return self._finish(t, ph, env)

    def side(self, lhs, rhs, env):
        sw = self.sw
        L = self.expr(lhs, env)
        if rhs[0] == "forsum":
            R = self.forsum(rhs, env)
        else:
            R = self.expr(rhs, env)
        sp = " " if sw["ws"] else ""
        return L + sp + self.eqsign + self.deco.gap() + R

    def forsum(self, tr, env):
        _, head, ctrl, tokens, term = tr
        sw = self.sw
        if not sw["for"]:
            # expanded by hand: head + term(tok1) + term(tok2) ...
            parts = [] if head is None else [self.expr(head, env)]
            for tok in tokens:
                parts.append("+" + self.deco.gap() + self.expr(term, dict(env, **{ctrl: tok}), prec=1))
            return (" " if sw["ws"] else "").join(parts)
        gi = self.nfor
        self.nfor += 1
        spell = self._choose_spell(ctrl, gi, term, inner=False)
        self.ctrl_text[ctrl] = self._spellings(spell, ctrl)
        body = "+" + self.deco.gap() + self.expr(term, env, prec=1)
        del self.ctrl_text[ctrl]
        head_t = "" if head is None else self.expr(head, env)
        key = self.spec.get("forsum_ctx", {}).get(tuple(tokens))
        return head_t + "\n        " + self._for_header(spell, gi, tokens, key) + "\n            " + body + "\n        !end\n    "

    def _choose_spell(self, ctrl, gi, body, inner):
        """spelling of the control variable: ?(c) (needed for the upper/lower forms), ?c, or the bare ?
        (only when no other !for is active or nested inside); ?(c) cannot be followed by a curly time shift"""
        if _uses_case(body, ctrl):
            return "?(" + ctrl + ")"
        options = ["?(" + ctrl + ")", "?" + ctrl]
        if not self.ctrl_text and not inner:
            options.append("?")
        if self.sw["curly"] and _marker_before_shift(body, ctrl):
            options.remove("?(" + ctrl + ")")
        return options[(gi + self.sw["forc"]) % len(options)]

    def _for_header(self, spell, gi, tokens, ctx_key):
        toks = ("<" + ctx_key + ">") if (self.sw["ctx"] and ctx_key) else (", " if gi % 2 == 0 else " ").join(tokens)
        name = (spell + (" = " if gi % 2 == 0 else " : ")) if (spell != "?" or gi % 2) else ""
        return "!for " + name + toks + " !do"

    def _spellings(self, spell, ctrl):
        if spell.startswith("?("):
            if self.sw["forc"]:
                return (spell, spell + "|upper", spell + "|lower")
            return (spell, "?{" + ctrl + "}", "?[" + ctrl + "]")
        return (spell, None, None)

    # -- groups ---------------------------------------------------------
    def equation(self, g, env, top):
        _, lhs, rhs, steady, desc = g
        sw = self.sw
        t = ""
        if desc and not sw["desc_off"]:
            t += '"' + self._markers(desc, env) + '"' + ("\n    " if self.deco.i % 2 else " ")
        t += self.side(lhs, rhs, env)
        if steady is not None:
            t += (" " if not sw["sep"] else "\n        ") + "!!" + self.deco.gap() + self.side(steady[0], steady[1], env)
        t += (" " if sw["ws"] else "") + ";"
        if sw["lcom"] and self.deco.i % 2:
            t += "  " + _LCOMS_KEPT[self.deco.i % len(_LCOMS_KEPT)] + " after the semicolon\n    "
        if top and sw["if"]:
            i = self.neq
            if i % 4 == 0:
                t = "!if True !then\n    " + t + "\n    !else\n    " + self._wrong_equation(g, env) + "\n    !end"
                self.events.append("if_else")
            elif i % 4 == 2:
                t = "!if K_TWO > 3 !then\n    @@ not a model $ at all\n    !else\n    " + t + "\n    !end"
                self.events.append("if_else")
            elif i % 4 == 3:
                # an !if without !else, nested in the taken branch of an outer !if
                t = ("!if K_TWO == 2 and K_TRUE !then\n    !if len(\"ab\") == K_TWO !then " + t + "\n    !end\n    !else\n    "
                     + self._wrong_equation(g, env) + "\n    !end")
                self.events.append("if_else")
            elif self.spec.get("if_style") == "seq":
                # an !if without !else at the top level of the file
                t = "!if K_TRUE !then " + t + "\n    !end"
                self.events.append("if_noelse")
        if top:
            self.neq += 1
        return t

    def _wrong_equation(self, g, env):
        """a well-formed equation with another meaning (the branch that must not be taken)"""
        _, lhs, rhs, steady, desc = g
        save = self.deco
        self.deco = _Deco(dict(self.sw, lcom=0, bcom=0, cont=0))
        try:
            if rhs[0] == "forsum":
                return "@@ wrong branch"
            t = self.expr(lhs, env) + self.eqsign + "999*(" + self.expr(rhs, env) + ")+1;"
        finally:
            self.deco = save
        return t

    def quantity(self, g, env, kind):
        _, name, desc, log = g
        sw = self.sw
        nm = self._markers(name, env)
        t = ""
        if desc and not sw["desc_off"]:
            t += '"' + self._markers(desc, env) + '" '
        t += nm
        if self.use_list and kind in ("tv", "mv", "exo"):
            if self.use_allbut and not log:
                t += "`nl"
            elif not self.use_allbut and log:
                t += "`lg"
        return t

    def _sep(self):
        sw = self.sw
        s = [[", ", "; "], ["\n    ", " "]][sw["sep"]][sw["sep2"]]
        d = self.deco
        i = d.i
        d.i += 1
        if sw["bcom"] and i % 3 == 1:
            s += _BCOMS[i % len(_BCOMS)] + " "
        if sw["lcom"] and i % 2 == 0:
            s += " " + _LCOMS_KEPT[i % len(_LCOMS_KEPT)] + "\n    "
        return s

    def groups(self, groups, env, kind, top=True):
        """text of a list of groups of one block"""
        sw = self.sw
        is_eq = kind in ("teq", "meq")
        out = []
        for g in groups:
            t = g[0]
            if t == "e":
                out.append(self.equation(g, env, top and not self.ctrl_text))
            elif t == "q":
                out.append(self.quantity(g, env, kind))
            elif t == "ctxnames":
                if sw["ctx"]:
                    out.append("<" + g[1] + ">")
                else:
                    out.extend(self.quantity(q, env, kind) for q in g[2])
            elif t == "only":
                _, ctrl, tok, sub_g = g
                if ctrl in self.ctrl_text:
                    cond = '"%s" == "%s"' % (self.ctrl_text[ctrl][0], tok)
                    out.append("!if " + cond + " !then\n    " + self.groups([sub_g], env, kind, False) + "\n    !end")
                elif env[ctrl] == tok:
                    out.append(self.groups([sub_g], env, kind, top))
            elif t == "for":
                _, ctrl, tokens, sub_groups, tokens_ctx = g
                if not sw["for"]:
                    for tok in tokens:
                        out.append(self.groups(sub_groups, dict(env, **{ctrl: tok}), kind, top))
                    continue
                gi = self.nfor
                self.nfor += 1
                spell = self._choose_spell(ctrl, gi, sub_groups, inner=_has_inner_for(sub_groups))
                self.ctrl_text[ctrl] = self._spellings(spell, ctrl)
                body = self.groups(sub_groups, env, kind, False)
                del self.ctrl_text[ctrl]
                t2 = self._for_header(spell, gi, tokens, tokens_ctx) + "\n    " + body + "\n    !end"
                if sw["if"] and gi % 2 == 0 and not self.ctrl_text:
                    t2 = "!if K_TRUE !then\n    " + t2 + "\n    !else\n    @@ the other branch\n    !end"
                    self.events.append("if_else")
                out.append(t2)
            else:
                raise KeyError(t)
        if is_eq:
            return "\n    ".join(out)
        # declarations: join with the separator style; directives need white space around them
        text = ""
        for j, piece in enumerate(out):
            if j:
                text += self._sep()
                if (piece.startswith("!") or out[j - 1].endswith("!end")) and not text.endswith(("\n", " ", "\n    ")):
                    text += " "
            text += piece
        return text

    # -- blocks -----------------------------------------------------------
    def keyword(self, kind, extra=""):
        kw = KW[kind][1 if self.sw["kw_short"] else 0] + extra
        return kw.replace("-", "_") if self.sw["kw_under"] else kw

    def block(self, kind, groups):
        sw = self.sw
        if kind == "log":
            if not self.logset:
                return ""
            names = sorted(self.nonlogset) if self.use_allbut else sorted(self.logset)
            if groups in ("part0", "part1"):
                # the log list split over two blocks of the same kind (they accumulate)
                h = (len(names) + 1) // 2
                names = names[:h] if groups == "part0" else names[h:]
            # declared order is irrelevant for the log list: written in reverse alphabetical order
            body = ("!list(`%s)" % ("nl" if self.use_allbut else "lg")) if self.use_list else \
                [[", ", "; "], ["\n    ", " "]][sw["sep"]][sw["sep2"]].join(reversed(names))
            return self.keyword("log") + (" " + ("!all_but" if sw["kw_under"] else "!all-but") if self.use_allbut else "") + "\n    " + body + "\n"
        if kind == "subs":
            if not sw["sub"]:
                return ""
            lines = []
            for name, tr in self.spec["subs"].items():
                body = self.expr(tr, {}, prec=9)
                if not body.lstrip().startswith("("):
                    body = "(" + body + ")"
                lines.append(name + " " + self.eqsign + " " + body + ";")
            return self.keyword("subs") + "\n    " + "\n    ".join(lines) + "\n"
        body = self.groups(groups, {}, kind)
        return self.keyword(kind) + "\n    " + body + "\n"

    def source(self):
        sw, spec = self.sw, self.spec
        blocks = []
        for kind, groups in spec["blocks"]:
            blocks.append((kind, groups))
        if spec.get("subs") and not any(k == "subs" for k, _ in blocks):
            # the substitutions block goes before the first equation block
            idx = next(i for i, (k, _) in enumerate(blocks) if k in ("teq", "meq"))
            blocks.insert(idx, ("subs", None))
        if sw["order"]:
            first, second = [], []
            for kind, groups in blocks:
                if kind == "log" and self.logset and not self.use_list and len(self.nonlogset if self.use_allbut else self.logset) >= 2:
                    first.append((kind, "part0"))
                    second.append((kind, "part1"))
                elif groups and len(groups) > 1 and kind not in ("log", "subs"):
                    h = (len(groups) + 1) // 2
                    first.append((kind, groups[:h]))
                    second.append((kind, groups[h:]))
                else:
                    first.append((kind, groups))
            blocks = list(reversed(first)) + list(reversed(second))
        texts = []
        for bi, (kind, groups) in enumerate(blocks):
            if kind in DECL_KINDS and sw["if"] and len(groups) > 1 and groups[-1][0] == "q" and bi % 2 == 0:
                # the last declared name of the block sits in the taken branch of an !if
                head = self.groups(groups[:-1], {}, kind)
                last = self.quantity(groups[-1], {}, kind)
                self.events.append("if_else")
                t = (self.keyword(kind) + "\n    " + head + self._sep().rstrip(" ") + "\n    !if K_TWO < 2 !then zz_wrong_name !else "
                     + last + " !end\n")
            else:
                t = self.block(kind, groups)
            if not t:
                continue
            if sw["bcom"] and bi % 2 == 0:
                t = "%{ block comment before a block\n!variables junk_name\n%}\n" + t
            if sw["lcom"] and bi % 2 == 1:
                t = "% a full-line comment !equations junk = 1;\n" + t
            texts.append(t)
        src = "\n".join(texts)
        if sw["lcom"]:
            src += "\n# trailing comment without a newline"
        return src


def _uses_case(x, ctrl):
    """does a group / tree use the upper- or lower-case form of control variable ctrl"""
    if isinstance(x, str):
        return ("@%sU@" % ctrl) in x or ("@%sL@" % ctrl) in x
    if isinstance(x, (tuple, list)):
        return any(_uses_case(y, ctrl) for y in x)
    return False


def _has_inner_for(x):
    if isinstance(x, (tuple, list)):
        if len(x) and x[0] in ("for", "forsum") and isinstance(x[0], str):
            return True
        return any(_has_inner_for(y) for y in x)
    return False


def _marker_before_shift(x, ctrl):
    """is there a shifted variable whose name ends with the control variable"""
    if isinstance(x, (tuple, list)):
        if len(x) == 3 and x[0] == "var" and isinstance(x[1], str):
            return x[2] != 0 and x[1].endswith("@%s@" % ctrl)
        return any(_marker_before_shift(y, ctrl) for y in x)
    return False


def render(spec, sw):
    """-> (source text, context dict)"""
    return Renderer(spec, sw).source(), dict(spec.get("context", {}))


def render_facts(spec, sw):
    """-> (source text, context dict, facts); facts["elseless_if_before_if_else"]: the file contains, at its
    top level, a taken !if without !else that is followed by an !if with !else"""
    r = Renderer(spec, sw)
    src = r.source()
    ev = r.events
    flag = any(e == "if_noelse" and "if_else" in ev[i + 1:] for i, e in enumerate(ev))
    return src, dict(spec.get("context", {})), {"elseless_if_before_if_else": flag}


def relevant_switches(spec):
    """switches that change the text of this model for at least one of a few base vectors"""
    zero = {s: 0 for s in SWITCHES}
    bases = [zero, dict(zero, **{"for": 1}), dict(zero, sep=1), dict(zero, list=1), dict(zero, lcom=1)]
    out = []
    for s in SWITCHES:
        for b in bases:
            if b.get(s):
                continue
            if render(spec, b)[0] != render(spec, dict(b, **{s: 1}))[0]:
                out.append(s)
                break
    return out


# ---------------------------------------------------------------------------
# base models
# ---------------------------------------------------------------------------

def sq1(v):
    return v * v + 1.0


def hyp(u, v):
    return (u * u + v * v) ** 0.5


USER_FUNCS = {"sq1": sq1, "hyp": hyp}
X.USER.setdefault("sq1", (sq1, (lambda v: 2.0 * v,)))
X.USER.setdefault("hyp", (hyp, (lambda u, v: u / hyp(u, v), lambda u, v: v / hyp(u, v))))

_D1 = "Output gap, % of potential; #1 ... = (x)"
_D2 = "Inflation q/q # annualised"
_CONTEXT = {"K_TRUE": True, "K_TWO": 2}


def _spec(name, blocks, subs=None, ctx=None, context=None, forsum_ctx=None, user=None):
    c = dict(_CONTEXT)
    c.update(context or {})
    for f in (user or []):
        c[f] = USER_FUNCS[f]
    return {"name": name, "blocks": blocks, "subs": subs or {}, "ctx": ctx or {}, "context": c,
            "forsum_ctx": forsum_ctx or {}, "user": user or []}


def _m_core():
    x, y, z = V("x"), V("y"), V("z")
    a, b, c = P("a"), P("b"), P("c")
    return _spec("core", [
        ("tv", [Q("x", _D1), Q("y"), Q("z", _D2)]),
        ("ts", [Q("e", "Demand shock"), Q("u")]),
        ("par", [Q("a", "Persistence"), Q("b"), Q("c")]),
        ("teq", [
            E(x, add(mul(a, V("x", -1)), mul(sub(N(1), a), V("x", 1)), pw(y, N(2)), V("e")),
              steady=(x, pw(y, N(2))), desc="IS curve, % # ..."),
            E(y, sub(mul(b, V("y", -2)), div(mul(c, pw(sub(V("z", 2), x), N(2))), add(N(1), pw(V("y", -1), N(2)))))),
            E(sub(z, V("u")), add(neg(pw(x, N(2))), mul(F("exp", neg(V("z", -1))), F("sqrt", add(V("y", 1), N(2)))),
                                  div(N(1), pw(N(2), neg(a)))),
              steady=(z, mul(N(0.5), a)), desc=_D2),
        ]),
    ])


def _m_logs():
    k, c, r, w = V("k"), V("c"), V("r"), V("w")
    return _spec("logs", [
        ("tv", [Q("k", "Capital", True), Q("c", "Consumption", True), Q("r", "Rate"), Q("i", "", True)]),
        ("exo", [Q("w", "World demand", True), Q("tau")]),
        ("log", None),
        ("ts", [Q("ek")]),
        ("par", [Q("alpha"), Q("delta"), Q("beta")]),
        ("teq", [
            E(k, add(mul(sub(N(1), P("delta")), V("k", -1)), V("i"))),
            E(F("log", c), add(F("log", V("c", 1)), neg(F("log", mul(P("beta"), add(N(1), r)))), V("ek")),
              steady=(c, mul(N(0.7), pw(k, P("alpha"))))),
            E(r, sub(mul(P("alpha"), pw(V("k", -1), sub(P("alpha"), N(1)))), mul(P("delta"), V("tau")))),
            E(add(V("i"), c), mul(pw(V("k", -1), P("alpha")), pw(w, N(0.25))), desc="Resource constraint"),
        ]),
        ("mv", [Q("obs_c", "Observed C", True), Q("obs_r")]),
        ("ms", [Q("v_c"), Q("v_r", "Noise in r")]),
        ("meq", [
            E(V("obs_c"), mul(c, F("exp", V("v_c")))),
            E(V("obs_r"), add(mul(N(400), r), V("v_r")), steady=(V("obs_r"), mul(N(400), r))),
        ]),
    ])


def _m_pf_basic():
    x, y = V("x"), V("y")
    names = ["d1", "d2", "d3", "d4", "d5", "d6", "d7", "d8"]
    pfs = ["diff", "diff_log", "pct", "roc", "mov_sum", "mov_avg", "mov_prod", "shift"]
    eqs = []
    for i, (n, pf) in enumerate(zip(names, pfs)):
        k2 = [-2, -3, -4, -1, -2, -3, -2, -2][i]
        eqs.append(E(V(n), add(PF(pf, x), mul(N(0.5), PF(pf, y, k2)))))
    eqs.append(E(x, add(mul(P("a"), V("x", -1)), V("e"))))
    eqs.append(E(y, add(mul(P("a"), V("y", 1)), N(1))))
    return _spec("pf_basic", [
        ("tv", [Q(n) for n in names] + [Q("x"), Q("y")]),
        ("ts", [Q("e")]),
        ("par", [Q("a")]),
        ("teq", eqs),
    ])


def _m_pf_expr():
    x, y, z = V("x"), V("y"), V("z")
    a = P("a")
    return _spec("pf_expr", [
        ("tv", [Q("x", "X"), Q("y"), Q("z", "", True), Q("v"), Q("q")]),
        ("log", None),
        ("ts", [Q("e")]),
        ("par", [Q("a")]),
        ("teq", [
            E(x, add(PF("diff", add(mul(a, V("x", -1)), mul(sub(N(1), a), V("y", 1))), -2), V("e"))),
            E(PF("diff", y), add(mul(a, PF("diff", V("y", -1))), PF("pct", mul(x, add(N(1), y)))),
              steady=(y, PF("shift", x, 2))),
            E(F("log", z), add(mul(N(0.5), PF("diff_log", V("z", -1), -2)), PF("mov_avg", mul(F("log", x), y), -3)),
              desc="Log z"),
            E(V("v"), sub(PF("roc", div(x, add(y, V("z", -1))), -4), pw(PF("mov_prod", add(N(1), x), -2), N(2)))),
            E(V("q"), add(PF("shift", mul(x, V("y", -1)), -2), neg(PF("mov_sum", pw(x, N(2)), 2)),
                          F("maximum", PF("diff", x), N(0)), mul(N(2), PF("mov_sum", z)))),
        ]),
    ])


def _m_names():
    n = ["diff_x", "pct1", "logistic_a", "shift_y", "xdiff", "mov_sum2", "log_y", "exp1", "x", "t", "X1", "roc"]
    vs = {k: V(k) for k in n}
    return _spec("names", [
        ("tv", [Q(k, "D " + k if i % 3 == 0 else "") for i, k in enumerate(n)]),
        ("ts", [Q("e"), Q("e1"), Q("ee"), Q("x_e")]),
        ("par", [Q("a"), Q("std"), Q("ant"), Q("diff_"), Q("lambda_")]),
        ("teq", [
            E(vs["diff_x"], add(mul(P("a"), V("diff_x", -1)), PF("diff", vs["x"]), V("e"))),
            E(vs["pct1"], add(PF("pct", vs["pct1"], -2), V("e1"), mul(P("std"), V("ee")))),
            E(vs["logistic_a"], F("logistic", add(vs["logistic_a"], V("x_e")))),
            E(vs["shift_y"], add(PF("shift", vs["shift_y"], -1), mul(P("ant"), vs["xdiff"]))),
            E(vs["xdiff"], sub(V("xdiff", 1), mul(P("diff_"), V("mov_sum2", -1)))),
            E(vs["mov_sum2"], PF("mov_sum", vs["mov_sum2"], -2)),
            E(vs["log_y"], F("log", add(vs["log_y"], vs["exp1"]))),
            E(vs["exp1"], F("exp", neg(vs["exp1"]))),
            E(vs["x"], add(mul(P("lambda_"), V("x", -1)), V("t", 1), mul(V("e"), V("e1")))),
            E(vs["t"], sub(V("t", -1), V("X1", 2))),
            E(vs["X1"], mul(vs["roc"], add(vs["x"], vs["t"]))),
            E(vs["roc"], add(PF("roc", vs["roc"]), PF("diff_log", vs["X1"]))),
        ]),
    ])


def _m_shklag():
    x, y = V("x"), V("y")
    return _spec("shklag", [
        ("tv", [Q("x"), Q("y"), Q("z")]),
        ("ts", [Q("e"), Q("u")]),
        ("teq", [
            E(x, add(mul(N(0.5), V("x", -1)), V("e"), mul(N(0.3), V("e", -1)))),
            E(y, add(mul(N(0.25), V("y", 1)), V("u"), x)),
            E(V("z"), add(V("z", -1), mul(V("e"), V("u")))),
        ]),
        ("mv", [Q("o")]),
        ("ms", [Q("w")]),
        ("meq", [E(V("o"), add(x, V("w"), mul(N(0.5), V("w", -1))))]),
    ])


def _m_forfam():
    return _spec("forfam", [
        ("tv", [FOR("c", ["a", "b"], [Q("@c@_pi", "Inflation @cU@"), Q("@c@_gap", "", True)]), Q("tot", "Total")]),
        ("log", None),
        ("ts", [FOR("c", ["a", "b"], [Q("e_@c@")])]),
        ("par", [FOR("c", ["A", "B"], [Q("RHO_@c@"), Q("w_@cL@", "Weight @c@")]), Q("kappa")]),
        ("teq", [
            FOR("c", ["a", "b"], [
                E(V("@c@_pi"), add(mul(P("RHO_@cU@"), V("@c@_pi", -1)), mul(P("kappa"), V("@c@_gap")), V("e_@c@")),
                  desc="Phillips curve @cU@ (@c@)"),
                ONLY("c", "a", E(V("@c@_gap"), mul(N(0.5), V("@c@_gap", -1)))),
                ONLY("c", "b", E(V("@c@_gap"), add(mul(N(0.8), V("@c@_gap", 1)), V("a_gap")),
                                 steady=(V("@c@_gap"), N(1)))),
            ], tokens_ctx="sectors"),
            E(V("tot"), add(mul(P("w_a"), V("a_pi")), mul(P("w_b"), V("b_pi")))),
        ]),
    ], context={"sectors": ["a", "b"]})


def _m_fornest():
    return _spec("fornest", [
        ("tv", [FOR("c", ["b", "a"], [FOR("k", ["2", "1"], [Q("y@c@@k@")])]), Q("s")]),
        ("par", [FOR("k", ["1", "2"], [Q("g@k@")])]),
        ("teq", [
            FOR("c", ["b", "a"], [FOR("k", ["2", "1"], [
                E(V("y@c@@k@"), add(mul(P("g@k@"), V("y@c@@k@", -1)), V("s", 1))),
            ])]),
            E(V("s"), FORSUM(mul(N(0.5), V("s", -1)), "c", ["a", "b"], mul(P("g1"), V("y@c@2", -1)))),
        ]),
    ])


def _m_forsum():
    return _spec("forsum", [
        ("tv", [Q("tot", "Sum"), Q("ya"), Q("yb"), Q("yc")]),
        ("ts", [Q("e")]),
        ("par", [CTXNAMES("wnames", [Q("wa"), Q("wb"), Q("wc")]), Q("r")]),
        ("teq", [
            E(V("tot"), FORSUM(None, "c", ["a", "b", "c"], mul(P("w@c@"), V("y@c@", -1))), desc="Aggregate"),
            E(V("ya"), FORSUM(V("e"), "d", ["b", "c"], mul(P("r"), PF("diff", V("y@d@"))))),
            E(V("yb"), add(mul(P("r"), V("yb", -1)), V("tot", 1))),
            E(V("yc"), FORSUM(mul(P("r"), V("yc", 1)), "c", ["a", "b"], div(V("y@c@", -2), N(4))),
              steady=(V("yc"), N(2))),
        ]),
    ], context={"wnames": ["wa", "wb", "wc"], "sec3": ["a", "b", "c"]}, forsum_ctx={("a", "b", "c"): "sec3"})


def _m_subs():
    x, y, z = V("x"), V("y"), V("z")
    subs = {
        "s1": add(V("x", -1), mul(P("a"), V("y", 1))),
        "gap": sub(x, P("a")),
        "dz": PF("diff", z),
        "k": N(0.25),
    }
    return _spec("subs", [
        ("tv", [Q("x"), Q("y"), Q("z")]),
        ("ts", [Q("e")]),
        ("par", [Q("a")]),
        ("teq", [
            E(x, add(mul(N(2), SUB("s1")), neg(pw(SUB("gap"), N(2))), V("e")), steady=(x, mul(SUB("k"), SUB("s1")))),
            E(y, add(mul(SUB("k"), SUB("dz")), div(SUB("s1"), SUB("gap")))),
            E(z, sub(V("z", -1), mul(SUB("k"), SUB("gap")))),
        ]),
        ("mv", [Q("o")]),
        ("meq", [E(V("o"), add(SUB("gap"), SUB("dz")))]),
    ], subs=subs)


# context numbers with more significant digits than any short print format keeps: the number that reaches the
# equation must be the context value itself
_ALPHA0 = 0.2534567891


def _m_ctx():
    x, y = V("x"), V("y")
    return _spec("ctx", [
        ("tv", [Q("x"), Q("y"), Q("z")]),
        ("ts", [Q("e")]),
        ("par", [CTXNAMES("pnames", [Q("p1"), Q("p2")])]),
        ("teq", [
            E(x, add(mul(CTX("alpha0"), V("x", -1)), mul(CTX("twok"), P("p1")), V("e"))),
            E(y, add(pw(x, CTX("ktwo")), mul(P("p2"), F("sq1", V("y", -1))))),
            E(V("z"), add(mul(CTX("third"), F("hyp", x, V("z", 1))), div(y, CTX("twok"))),
              steady=(V("z"), CTX("ktwo"))),
        ]),
    ], ctx={"alpha0": ("alpha0", _ALPHA0), "third": ("alpha0/3", _ALPHA0 / 3), "twok": ("2*K_TWO", 4), "ktwo": ("K_TWO", 2)},
        context={"alpha0": _ALPHA0, "pnames": ["p1", "p2"]}, user=["sq1", "hyp"])


def _m_meas():
    x, y = V("x"), V("y")
    return _spec("meas", [
        ("tv", [Q("x", "State x"), Q("y")]),
        ("ts", [Q("e")]),
        ("teq", [
            E(x, add(mul(N(0.9), V("x", -1)), V("e"))),
            E(y, add(mul(N(0.5), V("y", -1)), mul(N(0.5), V("y", 1)), x)),
        ]),
        ("mv", [Q("o1", "Obs 1"), Q("o2", "", True), Q("o3")]),
        ("log", None),
        ("ms", [Q("w1"), Q("w2", "Noise 2"), Q("e2")]),
        ("par", [Q("h")]),
        ("meq", [
            E(V("o1"), add(x, V("w1")), desc="First observation"),
            E(F("log", V("o2")), add(mul(P("h"), y), V("w2"), V("e2")), steady=(V("o2"), F("exp", mul(P("h"), y)))),
            # a transition shock inside a measurement equation: no anticipated twin there
            # (a 13-digit literal and one whose shortest spelling is in scientific notation, 1.5e-05)
            E(V("o3"), add(sub(mul(x, y), pw(V("w1"), N(2))), mul(N(0.2512345678901), V("e")), mul(N(1.5e-05), x))),
        ]),
    ])


def _m_mixed():
    x, y, z = V("x"), V("y"), V("z")
    a, b = P("a"), P("b")
    subs = {"lead": mul(sub(N(1), a), V("x", 1))}
    return _spec("mixed", [
        ("tv", [Q("x", "Output gap"), Q("y"), Q("z", _D2, True)]),
        ("log", None),
        ("ts", [Q("e")]),
        ("par", [Q("a"), Q("b")]),
        ("teq", [
            E(x, add(mul(a, V("x", -1)), SUB("lead"), pw(y, N(2)), V("e")), steady=(x, pw(y, N(2)))),
            E(PF("diff", y), add(mul(b, PF("diff", V("y", -1))), PF("pct", z))),
            E(F("log", z), add(mul(CTX("half"), PF("diff_log", V("z", -1), -2)), PF("mov_avg", x)), desc="Log z"),
        ]),
        ("mv", [Q("obs")]),
        ("ms", [Q("w")]),
        ("meq", [E(V("obs"), add(x, V("w")))]),
    ], subs=subs, ctx={"half": ("K_TWO/4", 0.5)})


def _m_funcs():
    x, y = V("x"), V("y")
    fs = ["log", "exp", "sqrt", "abs", "logistic", "normal_cdf", "normal_pdf"]
    names = ["f%d" % i for i in range(len(fs))]
    eqs = [E(V(n), add(F(f, add(x, V("y", -1))), mul(N(0.5), F(f, V(n, -1))))) for n, f in zip(names, fs)]
    eqs.append(E(x, F("maximum", V("x", -1), sub(y, N(1)))))
    eqs.append(E(y, add(F("minimum", V("y", 1), mul(N(2), x)), pw(F("abs", sub(x, N(3))), N(1.5)))))
    return _spec("funcs", [("tv", [Q(n) for n in names] + [Q("x"), Q("y")]), ("teq", eqs)])


def _m_ifseq():
    p, q, r = V("p"), V("q"), V("r")
    spec = _spec("ifseq", [
        ("tv", [Q("p"), Q("q"), Q("r"), Q("s")]),
        ("ts", [Q("e")]),
        ("par", [Q("g")]),
        ("teq", [
            E(p, add(mul(P("g"), V("p", -1)), V("e"))),
            E(q, sub(V("p", 1), pw(V("q", -1), N(2)))),
            E(r, mul(q, V("r", -1))),
            E(V("s"), add(r, div(V("s", -1), N(2)))),
        ]),
    ])
    spec["if_style"] = "seq"
    return spec


BASE_MODELS = {f().get("name"): f for f in (
    _m_core, _m_logs, _m_pf_basic, _m_pf_expr, _m_names, _m_shklag, _m_forfam, _m_fornest, _m_forsum, _m_subs,
    _m_ctx, _m_meas, _m_mixed, _m_funcs, _m_ifseq)}
