"""Structured linear rational-expectations models and an independent oracle for them.

A model is generated from a *structure* the harness owns, so every coefficient is known
without trusting irispie's parser, differentiator or solver:

    v_i[t] = sum_k c_ik * v_{j_ik}[t + s_ik] + k_i + e_i[t]                (transition, i < n)
    o_m[t] = sum_k q_mk * v_{j_mk}[t + s_mk] + d_m (+ w_m[t])              (measurement, s <= 0)

With `log=True` every variable is declared a log-variable and the same structure is written
in logarithms, `log(v_i) = sum c*log(v_j[s]) + k + e`, which is exactly linear in logs.

The oracle never computes a solution.  It provides (i) a determinacy classification from
the generalized eigenvalues of the harness's own companion pencil (scipy ggev on matrices
assembled here, unrelated to irispie's stacking), and (ii) the residual operator of the
equations applied to a returned path.
"""
import itertools

import numpy as np
import scipy.linalg


class LinSpec:
    def __init__(self, n, eqs, meas=(), log=False, name="", flat=True):
        """eqs[i] = dict(terms=[(j, shift, coef)], const=float, shock=True)
           meas[m] = dict(terms=[(j, shift<=0, coef)], const=float, shock=bool)"""
        self.n = n
        self.eqs = [dict(e) for e in eqs]
        self.meas = [dict(m) for m in meas]
        self.log = log
        self.name = name
        self.flat = flat

    # ---- names -----------------------------------------------------------------
    # names are deliberately NOT in alphabetical order of declaration (z, a, m): an implementation that sorts
    # names somewhere and relies on declaration order elsewhere must not get away with it
    _SFX = "zamqb"

    def var(self, j):
        return "v" + self._SFX[j]

    def shk(self, i):
        return "e" + self._SFX[i]

    def obs(self, m):
        return "o" + self._SFX[m]

    def mshk(self, m):
        return "w" + self._SFX[m]

    def max_lag(self, j=None):
        return max([0] + [-s for e in self.eqs + self.meas for (jj, s, _) in e["terms"] if s < 0 and (j is None or jj == j)])

    def max_lead(self, j=None):
        return max([0] + [s for e in self.eqs for (jj, s, _) in e["terms"] if s > 0 and (j is None or jj == j)])

    # ---- parameters: every coefficient is a named parameter ----------------------------
    def param_values(self):
        out = {}
        for i, e in enumerate(self.eqs):
            for k, (_, _, c) in enumerate(e["terms"]):
                out["c_%d_%d" % (i, k)] = float(c)
            out["k_%d" % i] = float(e.get("const", 0.0))
        for m, e in enumerate(self.meas):
            for k, (_, _, c) in enumerate(e["terms"]):
                out["q_%d_%d" % (m, k)] = float(c)
            out["d_%d" % m] = float(e.get("const", 0.0))
        return out

    # ---- source text ------------------------------------------------------------------------
    def source(self):
        def ref(j, s):
            return self.var(j) + ("" if s == 0 else "[%+d]" % s)
        L = ["!transition-variables", "    " + ", ".join(self.var(j) for j in range(self.n))]
        L += ["!transition-shocks", "    " + ", ".join(self.shk(i) for i in range(self.n) if self.eqs[i].get("shock", True))]
        L += ["!parameters", "    " + ", ".join(self.param_values())]
        if self.log:
            names = [self.var(j) for j in range(self.n)] + [self.obs(m) for m in range(len(self.meas))]
            L += ["!log-variables", "    " + ", ".join(names)]
        L += ["!transition-equations"]
        for i, e in enumerate(self.eqs):
            sh = (" + " + self.shk(i)) if e.get("shock", True) else ""
            # time-shifted shocks: (index of the shock, shift, loading)
            for (i2, s2, cf) in e.get("lagshocks", ()):
                sh += " + %r*%s[%+d]" % (float(cf), self.shk(i2), s2)
            if self.log:
                rhs = " + ".join(["c_%d_%d*log(%s)" % (i, k, ref(j, s)) for k, (j, s, _) in enumerate(e["terms"])] + ["k_%d" % i]) + sh
                L.append("    log(%s) = %s;" % (self.var(i), rhs))
            else:
                rhs = " + ".join(["c_%d_%d*%s" % (i, k, ref(j, s)) for k, (j, s, _) in enumerate(e["terms"])] + ["k_%d" % i]) + sh
                L.append("    %s = %s;" % (self.var(i), rhs))
        if self.meas:
            L += ["!measurement-variables", "    " + ", ".join(self.obs(m) for m in range(len(self.meas)))]
            ws = [self.mshk(m) for m, e in enumerate(self.meas) if e.get("shock")]
            if ws:
                L += ["!measurement-shocks", "    " + ", ".join(ws)]
            L += ["!measurement-equations"]
            for m, e in enumerate(self.meas):
                sh = (" + " + self.mshk(m)) if e.get("shock") else ""
                # a measurement shock of another equation entering this one: (index of that equation, loading)
                for (m2, cf) in e.get("xshocks", ()):
                    sh += " + %r*%s" % (float(cf), self.mshk(m2))
                if self.log:
                    rhs = " + ".join(["q_%d_%d*log(%s)" % (m, k, ref(j, s)) for k, (j, s, _) in enumerate(e["terms"])] + ["d_%d" % m]) + sh
                    L.append("    log(%s) = %s;" % (self.obs(m), rhs))
                else:
                    rhs = " + ".join(["q_%d_%d*%s" % (m, k, ref(j, s)) for k, (j, s, _) in enumerate(e["terms"])] + ["d_%d" % m]) + sh
                    L.append("    %s = %s;" % (self.obs(m), rhs))
        return "\n".join(L) + "\n"

    # ---- own steady state (in logs for log models) ----------------------------------------------
    def steady(self):
        A = np.eye(self.n)
        k = np.zeros(self.n)
        for i, e in enumerate(self.eqs):
            for (j, _, c) in e["terms"]:
                A[i, j] -= c
            k[i] = e.get("const", 0.0)
        if np.linalg.cond(A) > 1e8:
            return None
        return np.linalg.solve(A, k)

    # ---- determinacy oracle -----------------------------------------------------------------------
    def pencil(self):
        """Companion pencil A0 z[t+1] + B0 z[t] = 0 with z[t] stacking, for each variable j,
        v_j[t+F_j-1] ... v_j[t-L_j] (static variables get an artificial lag with zero coefficient)."""
        F = [self.max_lead(j) for j in range(self.n)]
        Lg = [max(self.max_lag_trans(j), 0) for j in range(self.n)]
        Lg = [l if (l + f) > 0 else 1 for l, f in zip(Lg, F)]
        off = np.cumsum([0] + [F[j] + Lg[j] for j in range(self.n)])
        N = int(off[-1])
        A0 = np.zeros((N, N))
        B0 = np.zeros((N, N))

        def pos(j, s):
            """(which, index): v_j[t+s] as an entry of z[t+1] (which=1, shifts F_j .. -L_j+1) or z[t] (which=0, shift -L_j)"""
            if s >= -Lg[j] + 1:
                return 1, int(off[j]) + (F[j] - s)
            return 0, int(off[j]) + (F[j] - 1 - s)
        row = 0
        for i, e in enumerate(self.eqs):
            w, p = pos(i, 0)
            (A0 if w else B0)[row, p] -= 1.0
            for (j, s, c) in e["terms"]:
                w, p = pos(j, s)
                (A0 if w else B0)[row, p] += c
            row += 1
        for j in range(self.n):           # identities: entry k+1 of z[t+1] equals entry k of z[t]
            for k in range(F[j] + Lg[j] - 1):
                A0[row, int(off[j]) + k + 1] = 1.0
                B0[row, int(off[j]) + k] = -1.0
                row += 1
        assert row == N
        return A0, B0, sum(F)

    def max_lag_trans(self, j):
        return max([0] + [-s for e in self.eqs for (jj, s, _) in e["terms"] if s < 0 and jj == j])

    def classify(self, band=1e-4):
        """-> dict(kind= 'determinate' | 'indeterminate' | 'no_stable' | 'boundary' | 'singular', …)"""
        A0, B0, nf = self.pencil()
        try:
            w = scipy.linalg.eigvals(-B0, A0, homogeneous_eigvals=True)
        except Exception:
            return dict(kind="singular")
        alpha, beta = w
        if np.any((np.abs(alpha) < 1e-10) & (np.abs(beta) < 1e-10)):
            return dict(kind="singular")
        mod = np.where(np.abs(beta) < 1e-12 * np.maximum(1.0, np.abs(alpha)), np.inf, np.abs(alpha) / np.maximum(np.abs(beta), 1e-300))
        unit = np.abs(mod - 1.0) < 1e-8          # exact unit roots belong to the "stable or unit" side
        if np.any((np.abs(mod - 1.0) < band) & ~unit):
            return dict(kind="boundary", moduli=sorted(mod.tolist()))
        nu = int(np.sum((mod > 1.0) & ~unit))
        stable = mod[(mod < 1.0) & ~unit]
        unstable = mod[(mod > 1.0) & ~unit]
        kind = "determinate" if nu == nf else ("indeterminate" if nu < nf else "no_stable")
        return dict(kind=kind, num_unstable=nu, num_forward=nf, num_unit=int(unit.sum()),
                    rho_max=float(stable.max()) if stable.size else 0.0,
                    lam_min=float(unstable.min()) if unstable.size else np.inf, moduli=sorted(mod.tolist()))

    # ---- residual operator ------------------------------------------------------------------------------
    def residuals(self, get, t, deviation=False):
        """residuals of all transition and measurement equations at period index t.
        get(name, t) -> value (level, or deviation when deviation=True; for log models the caller passes
        logarithms / log-deviations).  Shock value = unanticipated + anticipated."""
        out = []
        for i, e in enumerate(self.eqs):
            r = -get(self.var(i), t)
            for (j, s, c) in e["terms"]:
                r += c * get(self.var(j), t + s)
            if not deviation:
                r += e.get("const", 0.0)
            if e.get("shock", True):
                r += get(self.shk(i), t) + get("ant_" + self.shk(i), t)
            for (i2, s2, cf) in e.get("lagshocks", ()):
                r += cf * (get(self.shk(i2), t + s2) + get("ant_" + self.shk(i2), t + s2))
            out.append(r)
        for m, e in enumerate(self.meas):
            r = -get(self.obs(m), t)
            for (j, s, c) in e["terms"]:
                r += c * get(self.var(j), t + s)
            if not deviation:
                r += e.get("const", 0.0)
            if e.get("shock"):
                r += get(self.mshk(m), t)
            for (m2, cf) in e.get("xshocks", ()):
                r += cf * get(self.mshk(m2), t)
            out.append(r)
        return out

    def signature(self):
        return {"name": self.name, "log": self.log,
                "eqs": [[(j, s, round(c, 6)) for (j, s, c) in e["terms"]] + [round(e.get("const", 0.0), 6)] for e in self.eqs],
                "meas": [[(j, s, round(c, 6)) for (j, s, c) in e["terms"]] + [round(e.get("const", 0.0), 6), bool(e.get("shock"))] for e in self.meas]}

    def to_json(self):
        import copy
        return {"n": self.n, "eqs": copy.deepcopy(self.eqs), "meas": copy.deepcopy(self.meas), "log": self.log, "name": self.name,
                "flat": self.flat}

    @classmethod
    def from_json(cls, d):
        fix = lambda es: [dict(e, terms=[tuple(t) for t in e["terms"]], **({"xshocks": [tuple(x) for x in e["xshocks"]]} if "xshocks" in e else {}),
                                **({"lagshocks": [tuple(x) for x in e["lagshocks"]]} if "lagshocks" in e else {})) for e in es]
        return cls(d["n"], fix(d["eqs"]), fix(d["meas"]), d["log"], d.get("name", ""), d.get("flat", True))


# ---------------------------------------------------------------------------
# the template family
# ---------------------------------------------------------------------------

REGIMES = {
    # own-lag weight, own-lead weight, cross weight
    "saddle": (0.5, 0.3, 0.15),
    "backward": (0.7, 0.0, 0.2),
    "sunspot": (0.45, 0.65, 0.1),
    "explosive": (1.3, 0.1, 0.1),
    "forward": (0.1, 0.55, 0.2),
}


def make_spec(n, lags, leads, cross_shift, regime, scale=1.0, const=True, meas="none", log=False):
    """lags[i], leads[i] in {0,1,2}; equation i additionally reads variable (i+1) % n at `cross_shift`
    (for n == 1 no cross term).  Coefficients of shift +-2 are 0.4 of the weight with opposite sign pattern."""
    drift = regime == "drift"           # unit root with drift: steady-state growth, model built with flat=False
    unitroot = regime == "unitroot" or drift
    a, b, c = REGIMES["saddle" if unitroot else regime]
    a, b, c = a * scale, b * scale, c * scale
    eqs = []
    for i in range(n):
        if unitroot and i == 0:
            # variable 0 is a pure random walk (no constant: flat steady state), the others load on it
            eqs.append(dict(terms=[(0, -1, 1.0)], const=(0.02 if drift else 0.0), shock=True))
            continue
        terms = []
        w = 1.0 - 0.07 * i                      # make equations differ
        if lags[i] == 1:
            terms.append((i, -1, a * w))
        elif lags[i] == 2:
            terms += [(i, -1, a * w * 1.2), (i, -2, -a * w * 0.2)]
        if leads[i] == 1:
            terms.append((i, +1, b * w))
        elif leads[i] == 2:
            terms += [(i, +1, b * w * 0.7), (i, +2, b * w * 0.3)]
        if n > 1:
            terms.append(((i + 1) % n, cross_shift, c * (1 if i % 2 == 0 else -1)))
        eqs.append(dict(terms=terms, const=(0.3 + 0.2 * i) if const else 0.0, shock=True))
    ms = []
    if meas in ("one", "two"):
        ms.append(dict(terms=[(0, 0, 1.0)], const=0.5 if const else 0.0, shock=True))
    if meas == "two":
        j = 1 if n > 1 else 0
        ms.append(dict(terms=[(j, 0, 0.8), (0, -1, 0.5)] if lags[0] > 0 or True else [(j, 0, 0.8)], const=-0.2 if const else 0.0, shock=False))
    name = "n%d_L%s_F%s_x%+d_%s_%s%s%s" % (n, "".join(map(str, lags)), "".join(map(str, leads)), cross_shift, regime,
                                         meas, "_log" if log else "", "" if const else "_noconst")
    return LinSpec(n, eqs, ms, log, name, flat=not drift)


def family(tier, seed=0):
    """the list of structures of a tier (identical for every seed; the seed only scales coefficients slightly)"""
    scale = 1.0 + 0.03 * (seed % 3)
    out = []
    regs = list(REGIMES)

    def add(n, lags, leads, xs, **kw):
        for reg in regs:
            out.append(make_spec(n, lags, leads, xs, reg, scale=scale, **kw))
    # n = 1: all 9 lag/lead structures
    for L, F in itertools.product((0, 1, 2), repeat=2):
        add(1, (L,), (F,), 0, meas="one" if (L + F) % 2 == 0 else "two")
    lim = (0, 1) if tier == "quick" else (0, 1, 2)
    for L0, F0, L1, F1 in itertools.product(lim, repeat=4):
        for xs in (-1, 0, 1):
            add(2, (L0, L1), (F0, F1), xs, meas=("none", "one", "two")[(L0 + F0 + L1 + F1 + xs) % 3])
    if tier == "quick":
        add(2, (2, 2), (2, 2), 0, meas="two")
        add(2, (2, 1), (1, 2), 1, meas="one")
        add(2, (1, 2), (2, 0), -1, meas="one")
        for L, F in (((1, 0, 1), (1, 1, 0)), ((1, 1, 1), (1, 1, 1)), ((0, 1, 2), (1, 0, 1))):
            for xs in (-1, 1):
                add(3, L, F, xs, meas="one")
    else:
        for L in itertools.product((0, 1), repeat=3):
            for F in itertools.product((0, 1), repeat=3):
                for xs in (-1, 0, 1):
                    add(3, L, F, xs, meas="one" if sum(L) % 2 else "none")
        for L, F in (((2, 1, 0), (1, 2, 0)), ((2, 2, 2), (1, 1, 1)), ((1, 1, 1), (2, 2, 2))):
            for xs in (-1, 0, 1):
                add(3, L, F, xs, meas="two")
    # unit-root models: variable 0 is a random walk
    regs_save, regs[:] = list(regs), ["unitroot"]
    add(1, (1,), (0,), 0, meas="one")
    for L1, F1 in itertools.product((0, 1, 2) if tier != "quick" else (0, 1), repeat=2):
        for xs in (-1, 0):
            add(2, (1, L1), (0, F1), xs, meas=("one", "two")[(L1 + F1) % 2])
    add(3, (1, 1, 1), (0, 1, 1), -1, meas="one")
    add(3, (1, 0, 2), (0, 1, 0), 0, meas="two")
    # unit root with drift (steady-state growth; non-flat), in levels and as log-variables
    regs[:] = ["drift"]
    for lg in (False, True):
        add(1, (1,), (0,), 0, meas="one", log=lg)
        add(2, (1, 1), (0, 1), -1, meas="one", log=lg)
        add(2, (1, 0), (0, 1), 0, meas="two", log=lg)
        add(3, (1, 1, 1), (0, 1, 0), -1, meas="one", log=lg)
    regs[:] = regs_save
    # log-variable (multiplicative) versions of the n <= 2 models with lags/leads <= 1 and a no-constant variant
    for L0, F0 in itertools.product((0, 1), repeat=2):
        add(1, (L0,), (F0,), 0, meas="one", log=True)
        add(1, (L0,), (F0,), 0, meas="one", const=False)
        for L1, F1 in itertools.product((0, 1), repeat=2):
            add(2, (L0, L1), (F0, F1), -1, meas="one", log=True)
    return out


def oscillating_spec(meas="two"):
    """two coupled AR(2) processes with complex-conjugate root pairs (four stable states, two 2x2 Schur blocks)"""
    eqs = [dict(terms=[(0, -1, 1.2), (0, -2, -0.7), (1, -1, 0.1)], const=0.2, shock=True),
           dict(terms=[(1, -1, 0.9), (1, -2, -0.5), (0, -1, -0.15)], const=0.1, shock=True)]
    ms = [dict(terms=[(0, 0, 1.0)], const=0.0, shock=True)]
    if meas == "two":
        ms.append(dict(terms=[(1, 0, 1.0), (0, -1, 0.3)], const=0.5, shock=False))
    return LinSpec(2, eqs, ms, False, "oscillating_ar2_pair_%s" % meas)


def shared_measurement_shock_spec():
    """one measurement shock entering two measurement equations (H has a full column: correlated measurement errors)"""
    eqs = [dict(terms=[(0, -1, 0.7), (1, -1, 0.1)], const=0.3, shock=True),
           dict(terms=[(1, -1, 0.5), (0, 0, 0.2)], const=0.1, shock=True)]
    ms = [dict(terms=[(0, 0, 1.0)], const=0.0, shock=True),
          dict(terms=[(1, 0, 1.0)], const=0.5, shock=True, xshocks=[(0, -0.8)])]
    return LinSpec(2, eqs, ms, False, "shared_measurement_shock")


def unit_root_declared_last_specs():
    """the unit-root variable is NOT the first declared transition variable"""
    ar = dict(terms=[(0, -1, 0.6)], const=0.2, shock=True)
    rw = dict(terms=[(1, -1, 1.0)], const=0.0, shock=True)
    ar2 = dict(terms=[(0, -1, 0.5), (0, +1, 0.2)], const=0.0, shock=True)
    mid = dict(terms=[(1, -1, 0.4), (0, 0, 0.3)], const=0.0, shock=True)
    rw3 = dict(terms=[(2, -1, 1.0)], const=0.0, shock=True)
    return [
        LinSpec(2, [ar, rw], [dict(terms=[(1, 0, 1.0), (0, 0, 1.0)], const=0.0, shock=True), dict(terms=[(0, 0, 2.0)], const=0.1, shock=True)], False, "ur_last_two"),
        LinSpec(3, [ar2, mid, rw3], [dict(terms=[(2, 0, 1.0)], const=0.0, shock=True), dict(terms=[(0, 0, 1.0), (1, 0, 0.5)], const=0.0, shock=False),
                                      dict(terms=[(1, 0, 1.0), (2, 0, 1.0), (2, -1, -1.0)], const=0.0, shock=True)], False, "ur_last_three"),
    ]


def lagged_shock_specs():
    """transition equations that contain a shock with a time shift (a moving-average error term)"""
    out = []
    for base in (make_spec(1, (1,), (0,), 0, "backward", meas="one"), make_spec(2, (1, 1), (0, 1), -1, "saddle", meas="one"),
                 make_spec(2, (1, 0), (0, 0), 0, "backward", meas="none")):
        d = base.to_json()
        d["eqs"][0]["lagshocks"] = [(0, -1, 0.5)]
        if base.n > 1:
            d["eqs"][1]["lagshocks"] = [(0, -1, -0.3)]
        sp = LinSpec.from_json(d)
        sp.name = base.name + "_lagshock"
        out.append(sp)
    return out
