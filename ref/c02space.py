"""C02 — the enumerated space of expression trees, the admissibility (domain / kink distance)
reference and the evaluation-point tables.  Pure Python; never imports irispie.

Trees are ref.expr tuples.  Depth counts levels: a leaf has depth 1.
"""
import math

from ref import expr as E

# variable occurrences used as leaves: each variable appears with exactly one shift in the trees
OCC = (("x", 0), ("y", -1), ("z", 1), ("w", -2))
VARNAMES = tuple(n for n, _ in OCC)
SHIFT = dict(OCC)
LEAVES = tuple(("var", n, s) for n, s in OCC) + (("par", "p"), ("num", 2), ("num", 0.5))
UNARY = ("neg", "log", "exp", "sqrt", "logistic", "abs", "normal_cdf", "normal_pdf", "f")
BINARY = ("+", "-", "*", "/", "^", "maximum", "minimum", "g")

# user context functions (numpy-free reference side; the implementation side lives in props/c02.py)
E.USER["f"] = (lambda a: math.atan(a) + 0.3 * a * a,
               (lambda a: 1.0 / (1.0 + a * a) + 0.6 * a,))
E.USER["g"] = (lambda a, b: a * math.tanh(b) + 0.5 * b * b,
               (lambda a, b: math.tanh(b), lambda a, b: a / math.cosh(b) ** 2 + b))


def mk1(op, a):
    return ("neg", a) if op == "neg" else ("fn", op, a)


def mk2(op, a, b):
    return (op, a, b) if op in ("+", "-", "*", "/", "^") else ("fn", op, a, b)


def depth2_exact():
    out = [mk1(op, a) for op in UNARY for a in LEAVES]
    out += [mk2(op, a, b) for op in BINARY for a in LEAVES for b in LEAVES]
    return out


_D2 = None


def d2():
    global _D2
    if _D2 is None:
        _D2 = tuple(depth2_exact())
    return _D2


_D2V = None


def d2v():
    """depth-2 trees whose leaves are all variable occurrences"""
    global _D2V
    if _D2V is None:
        vl = LEAVES[:len(OCC)]
        _D2V = tuple([mk1(op, a) for op in UNARY for a in vl] + [mk2(op, a, b) for op in BINARY for a in vl for b in vl])
    return _D2V


# families: name -> (count, index -> tree); every family is enumerated completely by index range
#   D12  all trees of depth <= 2                      D3U  unary(depth-2 tree)
#   D3L  binary(depth-2 tree, leaf)                   D3R  binary(leaf, depth-2 tree)
#   D3V  binary(t1, t2), t1 and t2 depth-2 trees over variable leaves only
#   D3F  binary(t1, t2), t1 and t2 any depth-2 trees (stated for reference; not run)
def family_size(name):
    n2, nl, nv = len(d2()), len(LEAVES), len(d2v())
    return {"D12": nl + n2, "D3U": len(UNARY) * n2, "D3L": len(BINARY) * n2 * nl, "D3R": len(BINARY) * nl * n2,
            "D3V": len(BINARY) * nv * nv, "D3F": len(BINARY) * n2 * n2}[name]


def family_tree(name, i):
    t2, nl, n2 = d2(), len(LEAVES), len(d2())
    if name == "D12":
        return LEAVES[i] if i < nl else t2[i - nl]
    if name == "D3U":
        return mk1(UNARY[i // n2], t2[i % n2])
    if name == "D3L":
        op, r = divmod(i, n2 * nl)
        return mk2(BINARY[op], t2[r // nl], LEAVES[r % nl])
    if name == "D3R":
        op, r = divmod(i, n2 * nl)
        return mk2(BINARY[op], LEAVES[r // n2], t2[r % n2])
    if name == "D3V":
        tv, nv = d2v(), len(d2v())
        op, r = divmod(i, nv * nv)
        return mk2(BINARY[op], tv[r // nv], tv[r % nv])
    if name == "D3F":
        op, r = divmod(i, n2 * n2)
        return mk2(BINARY[op], t2[r // n2], t2[r % n2])
    raise KeyError(name)


def has_var(tr):
    k = tr[0]
    if k == "var":
        return True
    if k in ("num", "par"):
        return False
    return any(has_var(a) for a in (tr[2:] if k == "fn" else tr[1:]))


def opkinds(tr, out=None):
    """set of operator classes occurring in a tree ('^' and maximum/minimum split by what the second /
    first argument is made of, as in the statement of the space)"""
    out = set() if out is None else out
    k = tr[0]
    if k in ("num", "par", "var"):
        return out
    if k == "neg":
        out.add("neg")
        opkinds(tr[1], out)
    elif k == "fn":
        name = tr[1]
        if name in ("maximum", "minimum"):
            name += "_c" if not has_var(tr[3]) else "_v"
            if not has_var(tr[2]):
                name = tr[1] + "_constfirst"
        out.add(name)
        for a in tr[2:]:
            opkinds(a, out)
    else:
        if k == "^":
            if not has_var(tr[2]):
                out.add("^const")
            elif has_var(tr[1]):
                out.add("^var")
            else:
                out.add("const^var")
        else:
            out.add(k)
        opkinds(tr[1], out)
        opkinds(tr[2], out)
    return out


# ---------------------------------------------------------------------------
# admissibility: inside the domain, away from kinks, moderate magnitudes
# ---------------------------------------------------------------------------
DOM_MARGIN = 0.05       # arguments of log / sqrt / non-integer powers, |denominators|
KINK_DIST = 0.1         # |a - b| for maximum / minimum, |a| for abs
MAG = 60.0              # every node value must stay below this in absolute value


class Inadmissible(Exception):
    pass


def _is_int_const(tr):
    return tr[0] == "num" and float(tr[1]) == int(tr[1])


def check_value(tr, get, t=0):
    """value of the tree; raises Inadmissible when the point is outside the domain, closer than KINK_DIST to a
    kink, or produces a node value above MAG.  Decided from the tree and the point only."""
    k = tr[0]
    if k == "num":
        return float(tr[1])
    if k == "par":
        return get(tr[1], None)
    if k == "var":
        return get(tr[1], t + tr[2])
    if k == "neg":
        return -check_value(tr[1], get, t)
    if k == "fn":
        name = tr[1]
        args = [check_value(a, get, t) for a in tr[2:]]
        a = args[0]
        if name in ("log", "sqrt") and a < DOM_MARGIN:
            raise Inadmissible(name)
        if name == "abs" and abs(a) < KINK_DIST:
            raise Inadmissible("kink")
        if name in ("maximum", "minimum") and abs(a - args[1]) < KINK_DIST:
            raise Inadmissible("kink")
        if name == "exp" and a > 5.0:
            raise Inadmissible("magnitude")
        if name in E.FUNCS1:
            v = E.FUNCS1[name][0](a)
        elif name in E.FUNCS2:
            v = E.FUNCS2[name](*args)
        else:
            v = E.USER[name][0](*args)
    else:
        a, b = check_value(tr[1], get, t), check_value(tr[2], get, t)
        if k == "+":
            v = a + b
        elif k == "-":
            v = a - b
        elif k == "*":
            v = a * b
        elif k == "/":
            if abs(b) < DOM_MARGIN:
                raise Inadmissible("/")
            v = a / b
        elif k == "^":
            if _is_int_const(tr[2]):
                if b < 0 and abs(a) < DOM_MARGIN:
                    raise Inadmissible("^")
            elif a < DOM_MARGIN:
                raise Inadmissible("^")
            if abs(b) * math.log(max(abs(a), 1e-300)) > 5.0:
                raise Inadmissible("magnitude")
            v = a ** b
        else:
            raise KeyError(k)
    if not (abs(v) <= MAG):
        raise Inadmissible("magnitude")
    return v


def evd_mag(tr, get, wrt, t=0):
    """(value, derivative, magnitude) — the same textbook forward rules as ref.expr.evd written a second time,
    carrying an upper bound `magnitude` of the sum of absolute values of the terms that make up the derivative
    (the scale against which a floating-point comparison of the derivative is meaningful)."""
    k = tr[0]
    if k == "num":
        return float(tr[1]), 0.0, 0.0
    if k == "par":
        return get(tr[1], None), 0.0, 0.0
    if k == "var":
        d = 1.0 if wrt == (tr[1], tr[2]) else 0.0
        return get(tr[1], t + tr[2]), d, d
    if k == "neg":
        v, d, m = evd_mag(tr[1], get, wrt, t)
        return -v, -d, m
    if k == "fn":
        name = tr[1]
        vdm = [evd_mag(a, get, wrt, t) for a in tr[2:]]
        if name in E.FUNCS1:
            f, df = E.FUNCS1[name]
            v, d, m = vdm[0]
            s = df(v)
            return f(v), s * d, abs(s) * m
        if name == "maximum":
            return vdm[0] if vdm[0][0] >= vdm[1][0] else vdm[1]
        if name == "minimum":
            return vdm[0] if vdm[0][0] <= vdm[1][0] else vdm[1]
        f, partials = E.USER[name]
        vals = [v for v, _, _ in vdm]
        ps = [p(*vals) for p in partials]
        return f(*vals), sum(p * d for p, (_, d, _) in zip(ps, vdm)), sum(abs(p) * m for p, (_, _, m) in zip(ps, vdm))
    (a, da, ma), (b, db, mb) = evd_mag(tr[1], get, wrt, t), evd_mag(tr[2], get, wrt, t)
    if k == "+":
        return a + b, da + db, ma + mb
    if k == "-":
        return a - b, da - db, ma + mb
    if k == "*":
        return a * b, da * b + a * db, ma * abs(b) + abs(a) * mb
    if k == "/":
        return a / b, da / b - a * db / (b * b), ma / abs(b) + abs(a) * mb / (b * b)
    if k == "^":
        v = a ** b
        d = m = 0.0
        if ma != 0.0:
            s = b * a ** (b - 1.0)
            d += s * da
            m += abs(s) * ma
        if mb != 0.0:
            s = v * math.log(a)
            d += s * db
            m += abs(s) * mb
        return v, d, m
    raise KeyError(k)


# ---------------------------------------------------------------------------
# evaluation points
# ---------------------------------------------------------------------------
# A candidate point pins, for every variable n that occurs in the trees at shift s_n, its value `a` at time
# s_n and its value `b` at time s_n + 1, plus the value of the parameter p.  The steady path through the point is
#   a + (b - a)*(t - s_n)   for a non-log variable         a*(b/a)**(t - s_n)   for a log-variable
# so the values seen by a tree evaluated at time 0 (all `a`) and at time 1 (all `b`) do not depend on the
# log-status assignment; only the assigned (level, change) pairs do.  Values sit in different regimes: above /
# below the thresholds 2 and 0.5 used by maximum/minimum, on both sides of 1 (sign of log), rising and falling,
# negative for variables that are not log-variables (points 4 and 5).
_POINTS = (
    dict(x=(1.3, 1.51), y=(0.8, 0.67), z=(2.6, 2.77), w=(0.62, 0.66), p=0.7),
    dict(x=(0.35, 0.41), y=(2.9, 3.3), z=(0.27, 0.24), w=(1.7, 1.4), p=1.6),
    dict(x=(2.4, 2.1), y=(1.25, 1.45), z=(0.9, 1.02), w=(3.1, 3.43), p=0.3),
    dict(x=(0.75, 0.7), y=(0.3, 0.36), z=(1.45, 1.25), w=(1.1, 1.25), p=2.3),
    dict(x=(-0.8, -0.65), y=(1.6, 1.35), z=(-1.3, -1.5), w=(2.2, 2.65), p=1.2),
    dict(x=(1.9, 1.73), y=(-0.45, -0.55), z=(3.3, 3.6), w=(-0.9, -0.7), p=0.45),
    dict(x=(3.2, 3.45), y=(0.55, 0.62), z=(0.65, 0.74), w=(0.8, 0.74), p=1.05),
    dict(x=(0.63, 0.65), y=(2.35, 2.15), z=(1.15, 1.45), w=(0.32, 0.33), p=0.85),
)
NPTS = len(_POINTS)


def point(ci, seed=0):
    """candidate point number ci; the seed rotates which variable gets which column of the table and scales p"""
    pt = _POINTS[ci % NPTS]
    r = seed % 4
    names = VARNAMES[r:] + VARNAMES[:r]
    out = {n: pt[m] for n, m in zip(VARNAMES, names)}
    out["p"] = pt["p"] * (1.0 + 0.05 * (seed % 3))
    return out


def path_value(pt, logs, name, t):
    a, b = pt[name]
    k = t - SHIFT[name]
    return a * (b / a) ** k if logs.get(name) else a + (b - a) * k


def level_change(pt, logs):
    """what is assigned to the model: name -> (level, change)"""
    out = {}
    for n in VARNAMES:
        a, b = pt[n]
        out[n] = (path_value(pt, logs, n, 0), b / a if logs.get(n) else b - a)
    return out


def positive_ok(pt, logs):
    return all(pt[n][0] > 0 and pt[n][1] > 0 for n in VARNAMES if logs.get(n))


def occ_getter(pt, tau):
    """get(name, t) that serves the tree occurrences only: the value of n at its own shift (+tau, tau in 0/1)"""
    def get(name, t):
        if t is None:
            return pt[name]
        return pt[name][tau]
    return get


def admissible(tr, pt, taus=(0, 1)):
    """True when the candidate point is inside the domain of the tree, away from its kinks and of moderate
    magnitude, at time 0 and time 1 of the steady path (log-status independent by construction)."""
    try:
        for tau in taus:
            check_value(tr, occ_getter(pt, tau), 0)
    except Inadmissible:
        return False
    except (ValueError, OverflowError, ZeroDivisionError):
        return False
    return True


# ---------------------------------------------------------------------------
# oracle (d): evaluation sequences on one stacked-time evaluator, and the space of simulation plans
# ---------------------------------------------------------------------------
SEQ_T = 3               # periods of the simulated frame
FAR = 3.0               # the "far" point multiplies the unknowns of x, y, z, w by this
# The points at which one and the same evaluator is asked for its Jacobian, as modifications of the data G:
#   Z  every unknown of a non-log variable among x, y, z, w exactly 0.0 (products, quotients, powers and the user
#      function g then have derivatives that are exactly zero, also w.r.t. the terminal values);
#   G  the data (generic);
#   F  FAR x G (other branches of maximum/minimum, also for the terminal values, which scale with the last periods).
# Orders: exact zeros at the first evaluation, then generic points; and generic first, zeros in the middle, generic again.
SEQUENCES = (("Z", "G", "F"), ("G", "Z", "F"))
PLAN_KINDS = ("anticipated", "unanticipated")


def seq_point_value(label, base_value, is_log):
    """value of an unknown of x, y, z, w at the point `label`, given its value in the data"""
    if label == "G":
        return base_value
    if label == "Z":
        return base_value if is_log else 0.0
    if label == "F":
        return FAR * base_value
    raise KeyError(label)


def plan_cases(T=SEQ_T):
    """the complete space of plans of oracle (d): kind x exogenized variable x exogenized date; the shock of the
    variable's own closing equation is endogenized at the same date.  An unanticipated point other than in the first
    period starts a new frame (a different simulation problem), so that kind is enumerated for date 1 only."""
    return [(kind, n, d) for kind in PLAN_KINDS for n in VARNAMES for d in range(1, T + 1)
            if kind == "anticipated" or d == 1]
