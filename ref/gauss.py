"""Joint-Gaussian conditioning oracle for linear state-space models.

    x_t = T x_{t-1} + K + P u_t,   y_t = Z x_t + D + H w_t,   t = 1..N
    u_t ~ N(0, diag(su_t^2)),  w_t ~ N(0, diag(sw_t^2)),  x_0 ~ stationary law under the
    *model's* constant stds (mean (I-T)^-1 K, covariance by a Kronecker Lyapunov solve).

Everything is expressed in the primitives e = (x_0 - mu_0, u_1..u_N, w_1..w_N): each
x_t, y_t, u_t, w_t is an affine function  mean + A e.  Conditioning on any set of observed
(period, observable) cells is one linear solve.  No recursion, no gain, no smoother.
"""
import numpy as np

LOG2PI = float(np.log(2.0 * np.pi))


class Joint:
    def __init__(self, T, P, K, Z, H, D, su_init, su_by_t, sw_by_t, deviation=False):
        T, P, K, Z, H, D = (np.asarray(a, dtype=float) for a in (T, P, K, Z, H, D))
        self.nx, self.nu = P.shape
        self.ny, self.nw = H.shape if H.ndim == 2 else (Z.shape[0], 0)
        N = len(su_by_t)
        self.N = N
        nx, nu, ny, nw = self.nx, self.nu, self.ny, self.nw
        if deviation:
            K = np.zeros_like(K)
            D = np.zeros_like(D)
        A = np.eye(nx) - T
        if np.linalg.cond(A) > 1e10:
            raise ValueError("non-stationary transition matrix")
        mu0 = np.linalg.solve(A, K)
        Su0 = np.diag(np.asarray(su_init, dtype=float) ** 2)
        L = np.eye(nx * nx) - np.kron(T, T)
        if np.linalg.cond(L) > 1e10:
            raise ValueError("ill-conditioned Lyapunov system")
        Om0 = np.linalg.solve(L, (P @ Su0 @ P.T).reshape(-1)).reshape(nx, nx)
        Om0 = 0.5 * (Om0 + Om0.T)
        ne = nx + N * nu + N * nw
        self.ne = ne
        S = np.zeros((ne, ne))
        S[:nx, :nx] = Om0
        for t in range(N):
            o = nx + t * nu
            S[o:o + nu, o:o + nu] = np.diag(np.asarray(su_by_t[t], dtype=float) ** 2)
            o = nx + N * nu + t * nw
            S[o:o + nw, o:o + nw] = np.diag(np.asarray(sw_by_t[t], dtype=float) ** 2)
        self.S = S
        self.Ax, self.mx, self.Ay, self.my, self.Au, self.Aw = [], [], [], [], [], []
        self.Bx = [None] * N
        self.By = [None] * N
        Acur = np.zeros((nx, ne))
        Acur[:, :nx] = np.eye(nx)
        mcur = mu0.copy()
        for t in range(N):
            Acur = T @ Acur
            Acur[:, nx + t * nu: nx + (t + 1) * nu] += P
            mcur = T @ mcur + K
            self.Ax.append(Acur.copy())
            self.mx.append(mcur.copy())
            B = Z @ Acur
            o = nx + N * nu + t * nw
            if nw:
                B = B.copy()
                B[:, o:o + nw] += H
            self.Ay.append(B)
            self.my.append(Z @ mcur + D)
            E = np.zeros((nu, ne))
            E[:, nx + t * nu: nx + (t + 1) * nu] = np.eye(nu)
            self.Au.append(E)
            E = np.zeros((nw, ne))
            if nw:
                E[:, o:o + nw] = np.eye(nw)
            self.Aw.append(E)

    # cells: list of (t, i) observed entries, data[(t, i)] -> value
    def _obs(self, cells, data):
        Ao = np.vstack([self.Ay[t][i] for t, i in cells])
        mo = np.array([self.my[t][i] for t, i in cells])
        yo = np.array([data[(t, i)] for t, i in cells])
        return Ao, mo, yo

    nunit = 0

    def estimate_delta(self, cells, data):
        return 1.0

    def condition(self, cells, data, A, m, B=None):
        """mean and covariance of (m + A e) given the observed cells"""
        prior = A @ self.S @ A.T
        if not cells:
            return m.copy(), prior
        Ao, mo, yo = self._obs(cells, data)
        Soo = Ao @ self.S @ Ao.T
        C = A @ self.S @ Ao.T
        G = np.linalg.solve(Soo, C.T).T
        return m + G @ (yo - mo), prior - G @ C.T

    def cond_number(self, cells):
        if not cells:
            return 1.0
        Ao = np.vstack([self.Ay[t][i] for t, i in cells])
        return float(np.linalg.cond(Ao @ self.S @ Ao.T))

    def nll(self, cells, data, var_scale=1.0):
        """negative log density of the observed cells (all variances multiplied by var_scale)"""
        if not cells:
            return 0.0
        Ao, mo, yo = self._obs(cells, data)
        Soo = Ao @ self.S @ Ao.T * var_scale
        r = yo - mo
        return 0.5 * (len(cells) * LOG2PI + np.linalg.slogdet(Soo)[1] + r @ np.linalg.solve(Soo, r))

    def mahalanobis(self, cells, data):
        if not cells:
            return 0.0
        Ao, mo, yo = self._obs(cells, data)
        r = yo - mo
        return float(r @ np.linalg.solve(Ao @ self.S @ Ao.T, r))


class JointFixedUnknown:
    """Same stacking for models with unit roots under "fixed unknown" initial conditions, in the coordinates of
    the reported block-triangular solution  alpha_t = Ta alpha_{t-1} + Ka + Pa u_t,  x_t = Ua alpha_t,
    y_t = Za alpha_t + D + H w_t:  the first `nunit` elements of alpha_0 are a fixed unknown vector delta, the
    remaining (stable) elements follow the stationary law of the stable block.  Every quantity is
    mean + A e + B delta with e = (s_0 - mu_s, u_1..u_N, w_1..w_N).  delta is estimated by GLS from the observed
    cells (concentrated likelihood); conditional moments are taken at delta = delta_hat."""

    def __init__(self, Ta, Pa, Ka, Ua, Za, H, D, nunit, su_init, su_by_t, sw_by_t, deviation=False):
        Ta, Pa, Ka, Ua, Za, H, D = (np.asarray(a, dtype=float) for a in (Ta, Pa, Ka, Ua, Za, H, D))
        na, nu = Pa.shape
        ny = Za.shape[0]
        nw = H.shape[1] if H.ndim == 2 else 0
        N = len(su_by_t)
        self.N, self.nunit = N, nunit
        ns = na - nunit
        if deviation:
            Ka = np.zeros_like(Ka)
            D = np.zeros_like(D)
        Tss = Ta[nunit:, nunit:]
        mu_s = np.linalg.solve(np.eye(ns) - Tss, Ka[nunit:]) if ns else np.zeros(0)
        Su0 = np.diag(np.asarray(su_init, dtype=float) ** 2)
        Ps = Pa[nunit:, :]
        if ns:
            Om_s = np.linalg.solve(np.eye(ns * ns) - np.kron(Tss, Tss), (Ps @ Su0 @ Ps.T).reshape(-1)).reshape(ns, ns)
            Om_s = 0.5 * (Om_s + Om_s.T)
        else:
            Om_s = np.zeros((0, 0))
        ne = ns + N * nu + N * nw
        S = np.zeros((ne, ne))
        S[:ns, :ns] = Om_s
        for t in range(N):
            o = ns + t * nu
            S[o:o + nu, o:o + nu] = np.diag(np.asarray(su_by_t[t], dtype=float) ** 2)
            o = ns + N * nu + t * nw
            S[o:o + nw, o:o + nw] = np.diag(np.asarray(sw_by_t[t], dtype=float) ** 2)
        self.S = S
        A = np.zeros((na, ne))
        A[nunit:, :ns] = np.eye(ns)
        B = np.zeros((na, nunit))
        B[:nunit, :] = np.eye(nunit)
        m = np.concatenate([np.zeros(nunit), mu_s])
        self.Ax, self.Bx, self.mx, self.Ay, self.By, self.my, self.Au, self.Aw = [], [], [], [], [], [], [], []
        for t in range(N):
            A = Ta @ A
            A[:, ns + t * nu: ns + (t + 1) * nu] += Pa
            B = Ta @ B
            m = Ta @ m + Ka
            self.Ax.append(Ua @ A)
            self.Bx.append(Ua @ B)
            self.mx.append(Ua @ m)
            Ay = Za @ A
            o = ns + N * nu + t * nw
            if nw:
                Ay = Ay.copy()
                Ay[:, o:o + nw] += H
            self.Ay.append(Ay)
            self.By.append(Za @ B)
            self.my.append(Za @ m + D)
            E = np.zeros((nu, ne))
            E[:, ns + t * nu: ns + (t + 1) * nu] = np.eye(nu)
            self.Au.append(E)
            E = np.zeros((nw, ne))
            if nw:
                E[:, o:o + nw] = np.eye(nw)
            self.Aw.append(E)
        self.delta = np.zeros(nunit)

    def _obs(self, cells, data):
        Ao = np.vstack([self.Ay[t][i] for t, i in cells])
        Bo = np.vstack([self.By[t][i] for t, i in cells])
        mo = np.array([self.my[t][i] for t, i in cells])
        yo = np.array([data[(t, i)] for t, i in cells])
        return Ao, Bo, mo, yo

    def estimate_delta(self, cells, data):
        """GLS estimate of delta from ALL observed cells (minimum-norm when not identified); returns the
        conditioning of the GLS normal matrix"""
        if not cells or not self.nunit:
            self.delta = np.zeros(self.nunit)
            return 1.0
        Ao, Bo, mo, yo = self._obs(cells, data)
        Soo = Ao @ self.S @ Ao.T
        W = np.linalg.solve(Soo, Bo)
        G = Bo.T @ W
        self.delta = np.linalg.lstsq(G, W.T @ (yo - mo), rcond=None)[0]
        sv = np.linalg.svd(G, compute_uv=False)
        # identified only if the information about every direction of delta is well above rounding level
        return float(sv[0] / sv[-1]) if sv[-1] > 1e-9 else np.inf

    def cond_number(self, cells):
        if not cells:
            return 1.0
        Ao = np.vstack([self.Ay[t][i] for t, i in cells])
        return float(np.linalg.cond(Ao @ self.S @ Ao.T))

    def condition(self, cells, data, A, m, B=None):
        shift = (B @ self.delta) if B is not None else 0.0
        prior = A @ self.S @ A.T
        if not cells:
            return m + shift, prior
        Ao, Bo, mo, yo = self._obs(cells, data)
        Soo = Ao @ self.S @ Ao.T
        C = A @ self.S @ Ao.T
        G = np.linalg.solve(Soo, C.T).T
        return m + shift + G @ (yo - mo - Bo @ self.delta), prior - G @ C.T

    def nll(self, cells, data, var_scale=1.0):
        if not cells:
            return 0.0
        Ao, Bo, mo, yo = self._obs(cells, data)
        Soo = Ao @ self.S @ Ao.T * var_scale
        r = yo - mo - Bo @ self.delta
        return 0.5 * (len(cells) * LOG2PI + np.linalg.slogdet(Soo)[1] + r @ np.linalg.solve(Soo, r))

    def mahalanobis(self, cells, data):
        if not cells:
            return 0.0
        Ao, Bo, mo, yo = self._obs(cells, data)
        r = yo - mo - Bo @ self.delta
        return float(r @ np.linalg.solve(Ao @ self.S @ Ao.T, r))
