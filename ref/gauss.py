"""Joint-Gaussian conditioning oracle for linear state-space models.

    x_t = T x_{t-1} + K + P u_t,   y_t = Z x_t + D + H w_t,   t = 1..N
    u_t ~ N(0, diag(su_t^2)),  w_t ~ N(0, diag(sw_t^2)),  x_0 ~ stationary law under the
    *model's* constant stds (mean (I-T)^-1 K, covariance by a Kronecker Lyapunov solve).

Everything is expressed in the primitives e = (x_0 - mu_0, u_1..u_N, w_1..w_N): each
x_t, y_t, u_t, w_t is an affine function  mean + A e.  Conditioning on any set of observed
(period, observable) cells is one linear solve.  No recursion, no gain, no smoother.
"""
import numpy as np

LOG2PI = float(np.log(2.0 * np.pi))


class Joint:
    def __init__(self, T, P, K, Z, H, D, su_init, su_by_t, sw_by_t, deviation=False):
        T, P, K, Z, H, D = (np.asarray(a, dtype=float) for a in (T, P, K, Z, H, D))
        self.nx, self.nu = P.shape
        self.ny, self.nw = H.shape if H.ndim == 2 else (Z.shape[0], 0)
        N = len(su_by_t)
        self.N = N
        nx, nu, ny, nw = self.nx, self.nu, self.ny, self.nw
        if deviation:
            K = np.zeros_like(K)
            D = np.zeros_like(D)
        A = np.eye(nx) - T
        if np.linalg.cond(A) > 1e10:
            raise ValueError("non-stationary transition matrix")
        mu0 = np.linalg.solve(A, K)
        Su0 = np.diag(np.asarray(su_init, dtype=float) ** 2)
        L = np.eye(nx * nx) - np.kron(T, T)
        if np.linalg.cond(L) > 1e10:
            raise ValueError("ill-conditioned Lyapunov system")
        Om0 = np.linalg.solve(L, (P @ Su0 @ P.T).reshape(-1)).reshape(nx, nx)
        Om0 = 0.5 * (Om0 + Om0.T)
        ne = nx + N * nu + N * nw
        self.ne = ne
        S = np.zeros((ne, ne))
        S[:nx, :nx] = Om0
        for t in range(N):
            o = nx + t * nu
            S[o:o + nu, o:o + nu] = np.diag(np.asarray(su_by_t[t], dtype=float) ** 2)
            o = nx + N * nu + t * nw
            S[o:o + nw, o:o + nw] = np.diag(np.asarray(sw_by_t[t], dtype=float) ** 2)
        self.S = S
        self.Ax, self.mx, self.Ay, self.my, self.Au, self.Aw = [], [], [], [], [], []
        Acur = np.zeros((nx, ne))
        Acur[:, :nx] = np.eye(nx)
        mcur = mu0.copy()
        for t in range(N):
            Acur = T @ Acur
            Acur[:, nx + t * nu: nx + (t + 1) * nu] += P
            mcur = T @ mcur + K
            self.Ax.append(Acur.copy())
            self.mx.append(mcur.copy())
            B = Z @ Acur
            o = nx + N * nu + t * nw
            if nw:
                B = B.copy()
                B[:, o:o + nw] += H
            self.Ay.append(B)
            self.my.append(Z @ mcur + D)
            E = np.zeros((nu, ne))
            E[:, nx + t * nu: nx + (t + 1) * nu] = np.eye(nu)
            self.Au.append(E)
            E = np.zeros((nw, ne))
            if nw:
                E[:, o:o + nw] = np.eye(nw)
            self.Aw.append(E)

    # cells: list of (t, i) observed entries, data[(t, i)] -> value
    def _obs(self, cells, data):
        Ao = np.vstack([self.Ay[t][i] for t, i in cells])
        mo = np.array([self.my[t][i] for t, i in cells])
        yo = np.array([data[(t, i)] for t, i in cells])
        return Ao, mo, yo

    def condition(self, cells, data, A, m):
        """mean and covariance of (m + A e) given the observed cells"""
        prior = A @ self.S @ A.T
        if not cells:
            return m.copy(), prior
        Ao, mo, yo = self._obs(cells, data)
        Soo = Ao @ self.S @ Ao.T
        C = A @ self.S @ Ao.T
        G = np.linalg.solve(Soo, C.T).T
        return m + G @ (yo - mo), prior - G @ C.T

    def cond_number(self, cells):
        if not cells:
            return 1.0
        Ao = np.vstack([self.Ay[t][i] for t, i in cells])
        return float(np.linalg.cond(Ao @ self.S @ Ao.T))

    def nll(self, cells, data, var_scale=1.0):
        """negative log density of the observed cells (all variances multiplied by var_scale)"""
        if not cells:
            return 0.0
        Ao, mo, yo = self._obs(cells, data)
        Soo = Ao @ self.S @ Ao.T * var_scale
        r = yo - mo
        return 0.5 * (len(cells) * LOG2PI + np.linalg.slogdet(Soo)[1] + r @ np.linalg.solve(Soo, r))

    def mahalanobis(self, cells, data):
        if not cells:
            return 0.0
        Ao, mo, yo = self._obs(cells, data)
        r = yo - mo
        return float(r @ np.linalg.solve(Ao @ self.S @ Ao.T, r))
