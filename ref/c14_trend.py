"""Independent oracles for C14 (trend filters), numpy only, nothing imported from irispie.

Hodrick-Prescott with observation pattern and linear equality constraints
-----------------------------------------------------------------------
    min_tau  sum_{t in obs} (y_t - tau_t)^2  +  lam * sum_{t=2}^{T-1} (tau_{t+1} - 2 tau_t + tau_{t-1})^2
    s.t.     tau_p = L_p          (p in level positions)
             tau_q - tau_{q-1} = C_q   (q in change positions, q >= 1)

solved by the null-space method with least squares (never the bordered normal-equation
matrix the implementation uses):  tau = tau_p + Z w,  A tau_p = c (minimum norm), Z an
orthonormal basis of null(A) from the SVD of A,  w = argmin || M Z w - (b - M tau_p) ||,
M = [S_obs ; sqrt(lam) K],  b = [y_obs ; 0].  The result is returned as the affine map
(G_y, G_c) with  tau = G_y @ y_obs + G_c @ c,  so that many data vectors share one
factorisation.  `certificate` is the second, independent method used to self-check the
oracle: a feasible point of a convex QP is optimal iff the gradient is orthogonal to the
feasible directions.

l1 trend filter (Kim, Koh, Boyd, Gorinevsky 2009)
-------------------------------------------------
    min_tau  1/2 ||y - tau||^2 + lam ||D tau||_1 ,   D = difference matrix of the given order

KKT (necessary and sufficient, the problem is strictly convex in tau): there is nu with
y - tau = D' nu,  |nu_i| <= lam,  nu_i = lam * sign((D tau)_i) wherever (D tau)_i != 0.
Because the primal is 1-strongly convex, the duality gap of (tau, clip(nu)) bounds
1/2 ||tau - tau*||^2 from above.
"""
import numpy as np


def second_difference(T):
    K = np.zeros((max(T - 2, 0), T))
    for i in range(T - 2):
        K[i, i], K[i, i + 1], K[i, i + 2] = 1.0, -2.0, 1.0
    return K


def constraint_matrix(T, lpos, cpos):
    rows = []
    for p in lpos:
        r = np.zeros(T)
        r[p] = 1.0
        rows.append(r)
    for q in cpos:
        if q < 1:
            raise ValueError("a change constraint needs a predecessor inside the filter span")
        r = np.zeros(T)
        r[q], r[q - 1] = 1.0, -1.0
        rows.append(r)
    return np.array(rows).reshape(len(rows), T)


class HPOracle:
    """tau*(y_obs, c) for one structure (T, observation pattern, constraint positions, lambda)."""

    def __init__(self, T, obs, lpos, cpos, lam):
        self.T = T
        self.obs = np.asarray(obs, dtype=bool)
        self.lam = float(lam)
        self.lpos, self.cpos = tuple(lpos), tuple(cpos)
        self.oidx = np.flatnonzero(self.obs)
        self.K = second_difference(T)
        self.A = constraint_matrix(T, lpos, cpos)
        m = self.A.shape[0]
        S = np.zeros((len(self.oidx), T))
        S[np.arange(len(self.oidx)), self.oidx] = 1.0
        self.S = S
        M = np.vstack([S, np.sqrt(self.lam) * self.K])
        if m:
            U, s, Vt = np.linalg.svd(self.A, full_matrices=True)
            r = int(np.sum(s > 1e-12 * s[0]))
            Z = Vt[r:].T
            Apinv = Vt[:r].T @ np.diag(1.0 / s[:r]) @ U[:, :r].T
            self.rank = r
        else:
            Z = np.eye(T)
            Apinv = np.zeros((T, 0))
            self.rank = 0
        self.Z = Z
        MZ = M @ Z
        sv = np.linalg.svd(MZ, compute_uv=False)
        self.unique = bool(MZ.shape[1] == 0 or (sv.size >= MZ.shape[1] and sv[-1] > 1e-10 * sv[0]))
        if MZ.shape[1] == 0:
            self.cond = 1.0                                      # the constraints alone determine the trend
        else:
            self.cond = float(sv[0] / sv[-1]) if (sv.size and sv[-1] > 0) else float("inf")   # cond of the reduced LS matrix
        if MZ.shape[1]:
            P = np.linalg.lstsq(MZ, np.eye(MZ.shape[0]), rcond=None)[0]      # pseudo-inverse by least squares
        else:
            P = np.zeros((0, MZ.shape[0]))
        ZP = Z @ P
        nobs = len(self.oidx)
        self.Gy = ZP[:, :nobs]                                   # T x nobs
        self.Gc = (np.eye(T) - ZP @ M) @ Apinv                    # T x m

    def solve(self, Y, c):
        """Y: T x V with NaN where unobserved; c: constraint values (levels then changes).  -> T x V"""
        Y = np.asarray(Y, dtype=float).reshape(self.T, -1)
        yo = Y[self.oidx, :]
        c = np.asarray(c, dtype=float).reshape(-1)
        return self.Gy @ yo + (self.Gc @ c).reshape(-1, 1)

    def certificate(self, Y, c, tau):
        """(max |A tau - c|, max |Z' grad|) for the T x V candidate tau: both ~0 iff optimal"""
        Y = np.asarray(Y, dtype=float).reshape(self.T, -1)
        tau = np.asarray(tau, dtype=float).reshape(self.T, -1)
        c = np.asarray(c, dtype=float).reshape(-1, 1)
        feas = float(np.max(np.abs(self.A @ tau - c))) if self.A.shape[0] else 0.0
        g = self.lam * (self.K.T @ (self.K @ tau))
        d = tau[self.oidx, :] - Y[self.oidx, :]
        g[self.oidx, :] += d
        red = self.Z.T @ g
        return feas, (float(np.max(np.abs(red))) if red.size else 0.0)

    def objective(self, y, tau):
        y, tau = np.asarray(y, float).ravel(), np.asarray(tau, float).ravel()
        return float(np.sum((y[self.oidx] - tau[self.oidx]) ** 2) + self.lam * np.sum((self.K @ tau) ** 2))


def difference_matrix(n, order):
    D = np.eye(n)
    for _ in range(order):
        D = D[1:, :] - D[:-1, :]
    return D


def lonf_kkt(y, trend, gap, order, lam):
    """Residuals of the optimality conditions of  min 1/2||y-tau||^2 + lam ||D tau||_1  at the returned
    (trend, gap).  Returns dict(nu, range_resid, box_excess, slack_resid, dgap, Dt, pattern)."""
    y, trend, gap = (np.asarray(a, float).ravel() for a in (y, trend, gap))
    n = y.size
    D = difference_matrix(n, order)
    nu = np.linalg.lstsq(D.T, gap, rcond=None)[0]
    range_resid = float(np.max(np.abs(D.T @ nu - gap)))
    box_excess = float(np.max(np.abs(nu)) - lam)
    Dt = D @ trend
    scale = max(1.0, float(np.max(np.abs(y))))
    act = np.abs(Dt) > 1e-6 * scale
    slack = float(np.max(np.abs(nu[act] - lam * np.sign(Dt[act])))) if act.any() else 0.0
    nuc = np.clip(nu, -lam, lam)
    primal = 0.5 * float(np.sum((y - trend) ** 2)) + lam * float(np.sum(np.abs(Dt)))
    dual = -0.5 * float(np.sum((D.T @ nuc) ** 2)) + float(nuc @ (D @ y))
    # active-set pattern of the dual solution: -1 / +1 at a bound, 0 strictly inside
    at = np.where(np.abs(np.abs(nu) - lam) <= 1e-6 * max(1.0, lam), np.sign(nu), 0).astype(int)
    return dict(nu=nu, range_resid=range_resid, box_excess=box_excess, slack_resid=slack,
                dgap=primal - dual, Dt=Dt, pattern=tuple(int(v) for v in at), kinks=int(act.sum()))
