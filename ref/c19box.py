"""Reference Databox for C19: a databox is ``dict[name] -> item`` with item one of

  RS      reference series = (freq, nvar, {(ordinal, variant): float}, stored span, description)
  float / str / list (a list may contain any item, it is what merge(..., "stack") builds)

Every Databox / Series operation the property talks about is restated on these plain
values from the documentation (docstrings of Databox.overlay / underlay / clip / prepend /
copy / shallow / rename / keep / remove / merge, Series.overlay / underlay / clip).  Nothing
in the first half of this file imports irispie; the second half (``build_*`` / ``observe_*``)
converts between reference values and real objects through public constructors and
attributes only.

Frequencies are the codes of ref/calendar (Y=1 H=2 Q=4 M=12 D=365 I=0); ``freq is None``
means "series without a start period" (the empty series, Frequency.UNKNOWN).

Stored span.  A Series keeps a start period and a block of rows.  ``clip`` cuts the block
without trimming missing rows at its edges, and ``overlay`` / ``underlay`` superimpose the
*stored* span of the upper series ("on the entire span of the other time series ... regardless
of missing in-sample values").  The reference therefore carries the stored span (lo, hi)
next to the map; ``span is None`` with ``freq`` set is a series clipped to nothing (it keeps
its frequency), ``freq is None`` is the empty series.
"""
import datetime as _dt

from ref import calendar as C

NAN = float("nan")
ANY = None          # description wildcard: "not asserted"


class RS:
    __slots__ = ("freq", "nvar", "d", "span", "desc")

    def __init__(self, freq, nvar, d=None, span="trim", desc=""):
        self.freq = freq
        self.nvar = nvar
        self.d = {k: float(v) for k, v in (d or {}).items() if v == v}
        self.desc = desc
        if span == "trim":
            self.span = self.tight()
            if self.span is None:
                self.freq = None
        else:
            self.span = span

    @classmethod
    def from_rows(cls, freq, lo, rows, desc=""):
        """rows: one tuple per period, one entry per variant"""
        nvar = len(rows[0]) if rows else 1
        d = {(lo + i, v): x for i, r in enumerate(rows) for v, x in enumerate(r) if x == x}
        return cls(freq, nvar, d, "trim", desc)

    def tight(self):
        ks = [i for (i, _v) in self.d]
        return (min(ks), max(ks)) if ks else None

    def copy(self):
        return RS(self.freq, self.nvar, self.d, self.span, self.desc)

    def get(self, i, v):
        return self.d.get((i, v), NAN)

    def broadcast(self, nvar):
        """1 variant -> nvar identical variants"""
        if self.nvar == nvar:
            return self.copy()
        assert self.nvar == 1
        return RS(self.freq, nvar, {(i, v): x for (i, _), x in self.d.items() for v in range(nvar)},
                  self.span, self.desc)

    def rows(self, lo, hi, variant=None):
        if variant is None:
            return [[self.get(i, v) for v in range(self.nvar)] for i in range(lo, hi + 1)]
        return [self.get(i, variant) for i in range(lo, hi + 1)]

    def canon(self):
        return ("S", self.freq, self.nvar, self.span, tuple(sorted(self.d.items())), self.desc)

    def __repr__(self):
        return "RS%r" % (self.canon()[1:],)


def is_series(x):
    return isinstance(x, RS)


def copy_item(x):
    if isinstance(x, RS):
        return x.copy()
    if isinstance(x, list):
        return [copy_item(e) for e in x]
    return x


def copy_box(box):
    return {k: copy_item(v) for k, v in box.items()}


def canon_item(x):
    if isinstance(x, RS):
        return x.canon()
    if isinstance(x, list):
        return ("L", tuple(canon_item(e) for e in x))
    return ("V", type(x).__name__, repr(x))


def canon_box(box):
    return tuple(sorted((k, canon_item(v)) for k, v in box.items()))


def same_item(a, b):
    """canonical equality with the description wildcard"""
    if a[0] != b[0]:
        return False
    if a[0] == "S":
        return a[1:5] == b[1:5] and (a[5] is ANY or b[5] is ANY or a[5] == b[5])
    if a[0] == "L":
        return len(a[1]) == len(b[1]) and all(same_item(x, y) for x, y in zip(a[1], b[1]))
    return a == b


# ---------------------------------------------------------------------------
# Series level (docstrings of Series.clip / overlay / underlay, `|` = hstack)
# ---------------------------------------------------------------------------

class Undefined(Exception):
    """the documentation does not define this call (counted, not asserted)"""


class MustRaise(Exception):
    """the call is documented / bound to be rejected"""


def s_clip(x, lo, hi):
    """keep the part of the stored block between lo and hi (None = keep that end)"""
    if x.freq is None:
        raise Undefined("clip of a series without frequency")
    if x.span is None:
        return x.copy()
    a = x.span[0] if lo is None or lo < x.span[0] else lo
    b = x.span[1] if hi is None or hi > x.span[1] else hi
    if a > b:
        return RS(x.freq, x.nvar, {}, None, x.desc)
    return RS(x.freq, x.nvar, {(i, v): val for (i, v), val in x.d.items() if a <= i <= b}, (a, b), x.desc)


def _variants(a, b):
    if a.nvar == b.nvar:
        return a.nvar
    if min(a.nvar, b.nvar) != 1:
        raise MustRaise("cannot broadcast %d and %d variants" % (a.nvar, b.nvar))
    return max(a.nvar, b.nvar)


def s_lay(bottom, top, keep):
    """values of `bottom`, superimposed on the stored span of `top` by `top` (missing values included);
    description / identity of `keep`; the result is trimmed."""
    nv = _variants(bottom, top)
    bb, tt = bottom.broadcast(nv), top.broadcast(nv)
    d = dict(bb.d)
    if tt.span is not None:
        for i in range(tt.span[0], tt.span[1] + 1):
            for v in range(nv):
                val = tt.get(i, v)
                if val == val:
                    d[(i, v)] = val
                else:
                    d.pop((i, v), None)
    freq = bottom.freq if bottom.freq is not None else top.freq
    out = RS(freq, nv, d, "trim", keep.desc)
    if out.freq is None:
        out.desc = ANY      # a series that became empty is re-initialised; its description is not asserted here
    return out


def s_overlay(x, other):
    return s_lay(x, other, x)


def s_underlay(x, other):
    return s_lay(other, x, x)


def s_hstack(a, b):
    if a.freq is not None and b.freq is not None and a.freq != b.freq:
        raise MustRaise("hstack of different frequencies")
    d = dict(a.d)
    d.update({(i, v + a.nvar): x for (i, v), x in b.d.items()})
    freq = a.freq if a.freq is not None else b.freq
    return RS(freq, a.nvar + b.nvar, d, "trim", ANY)


# ---------------------------------------------------------------------------
# name selections
# ---------------------------------------------------------------------------

PREDICATES = {
    "is_a_or_b": lambda n: n in ("a", "b"),
    "not_b": lambda n: n != "b",
    "short": lambda n: len(n) == 1,
    "has_x": lambda n: "x" in n,
    "none": lambda n: False,
}
RENAMERS = {
    "suffix_x": lambda n: n + "_x",
    "upper": lambda n: n.upper(),
    "same": lambda n: n,
    "to_next": lambda n: {"a": "b", "b": "c", "c": "a"}.get(n, n + "1"),
}


def resolve(box, source, target):
    """documented name resolution (non-strict): -> list of (source, target) pairs.
    source / target are None | ("str", s) | ("list", [..]) | ("pred", key) | ("func", key)"""
    names = list(box.keys())
    if source is None:
        src = names
    elif source[0] == "str":
        src = [source[1]]
    elif source[0] == "list":
        src = list(source[1])
    elif source[0] == "pred":
        src = [n for n in names if PREDICATES[source[1]](n)]
    else:
        raise KeyError(source)
    if target is None:
        tgt = list(src)
    elif target[0] == "str":
        tgt = [target[1]]
    elif target[0] == "list":
        tgt = list(target[1])
    elif target[0] == "func":
        tgt = [RENAMERS[target[1]](n) for n in src]
    else:
        raise KeyError(target)
    if len(src) != len(tgt):
        raise Undefined("source and target names do not align")
    return [(s, t) for s, t in zip(src, tgt) if s in box]


# ---------------------------------------------------------------------------
# Databox level.  Every function returns (new_box, touched_names) and never modifies
# its arguments; raises Undefined / MustRaise.
# ---------------------------------------------------------------------------

def b_lay(box, other, which, names=None):
    if names is None:
        sel = [n for n in box if is_series(box[n]) and n in other and is_series(other[n])]
    else:
        sel = [n for n in names if n in box and n in other]
        if len(set(sel)) != len(sel):
            raise Undefined("duplicate names")
        for n in sel:
            if not (is_series(box[n]) and is_series(other[n])):
                raise Undefined("name of a non-series item selected for overlay/underlay")
    new = copy_box(box)
    touched = set()
    for n in sel:
        x, o = box[n], other[n]
        if x.freq is None or x.freq != o.freq:
            continue          # series of different (or no) frequency cannot be combined: left alone
        new[n] = (s_overlay if which == "overlay" else s_underlay)(x, o)
        touched.add(n)
    return new, touched


def b_clip(box, freq, lo, hi):
    new = copy_box(box)
    touched = set()
    if lo is None and hi is None:
        return new, touched
    for n, x in box.items():
        if is_series(x) and x.freq == freq:
            new[n] = s_clip(x, lo, hi)
            touched.add(n)
    return new, touched


def b_prepend(box, other, freq, end):
    clipped, _ = b_clip(other, freq, None, end)
    return b_lay(box, clipped, "underlay")


def _check_targets(pairs):
    t = [p[1] for p in pairs]
    if len(set(t)) != len(t):
        raise Undefined("target names collide with each other")
    s = [p[0] for p in pairs]
    if len(set(s)) != len(s):
        raise Undefined("duplicate source names")


def b_copy(box, source, target):
    if source is None and target is None:
        return copy_box(box), set()
    pairs = resolve(box, source, target)
    _check_targets(pairs)
    return {t: copy_item(box[s]) for s, t in pairs}, set()


def b_rename(box, source, target):
    pairs = resolve(box, source, target)
    _check_targets(pairs)
    src = [s for s, _ in pairs]
    tgt = [t for _, t in pairs]
    rest = [n for n in box if n not in src]
    if any(t in rest for t in tgt):
        raise Undefined("target collides with an unselected existing name")
    moved = [(s, t) for s, t in pairs if s != t]
    overlap = {t for _, t in moved} & {s for s, _ in moved}
    if overlap and not (len(moved) == 2 and moved[0] == moved[1][::-1]):
        raise Undefined("overlapping source and target names other than the pure swap")
    new = {n: copy_item(box[n]) for n in rest}
    for s, t in pairs:
        new[t] = copy_item(box[s])
    return new, {n for p in moved for n in p}


def b_keep(box, sel):
    if sel is None:
        return copy_box(box), set()
    keep = {s for s, _ in resolve(box, sel, None)}
    return {n: copy_item(v) for n, v in box.items() if n in keep}, {n for n in box if n not in keep}


def b_remove(box, sel):
    if sel is None:
        return copy_box(box), set()
    pairs = resolve(box, sel, None)
    _check_targets(pairs)
    drop = {s for s, _ in pairs}
    return {n: copy_item(v) for n, v in box.items() if n not in drop}, drop


def b_merge(box, other, strategy):
    new = copy_box(box)
    touched = set()
    for k, v in other.items():
        if k not in new:
            new[k] = copy_item(v)
            touched.add(k)
            continue
        if strategy == "discard":
            continue
        touched.add(k)
        if strategy == "replace":
            new[k] = copy_item(v)
        elif strategy == "stack":
            cur = new[k]
            if is_series(v):
                if not is_series(cur):
                    raise Undefined("stacking a series onto a non-series item")
                new[k] = s_hstack(cur, v)
            else:
                cur = cur if isinstance(cur, list) else [cur]
                add = v if isinstance(v, list) else [v]
                new[k] = [copy_item(e) for e in cur] + [copy_item(e) for e in add]
        else:
            raise KeyError(strategy)
    return new, touched


def b_or(box, other):
    new = copy_box(box)
    for k, v in other.items():
        new[k] = copy_item(v)
    return new, set()


# ---------------------------------------------------------------------------
# real objects <-> reference values (public constructors / attributes only)
# ---------------------------------------------------------------------------

def mk_period(freq, o):
    import irispie as ir
    if freq == C.I:
        return ir.ii(o)
    if freq == C.D:
        d = _dt.date.fromordinal(o)
        return ir.dd(d.year, d.month, d.day)
    y, s = C.year_segment(freq, o)
    return {C.Y: lambda y, s: ir.yy(y), C.H: ir.hh, C.Q: ir.qq, C.M: ir.mm}[freq](y, s)


def ord_of(freq, p):
    if freq == C.I:
        return int(str(p.to_sdmx_string()).strip("()"))
    if freq == C.D:
        return _dt.date(*p.to_ymd()).toordinal()
    y, s = p.to_year_segment()
    return y * freq + s - 1


FREQ_BY_NAME = {"YEARLY": C.Y, "HALFYEARLY": C.H, "QUARTERLY": C.Q, "MONTHLY": C.M, "DAILY": C.D, "INTEGER": C.I}


def ir_frequency(freq):
    import irispie as ir
    return {v: getattr(ir.Frequency, k) for k, v in FREQ_BY_NAME.items()}[freq]


def build_series(x):
    import numpy as np
    import irispie as ir
    if x.span is None:
        assert x.freq is None, "only trimmed or empty reference series can be built"
        return ir.Series(num_variants=x.nvar, description=x.desc or "")
    assert x.span == x.tight()
    lo, hi = x.span
    arr = np.array(x.rows(lo, hi), dtype=float).reshape(hi - lo + 1, x.nvar)
    return ir.Series(start=mk_period(x.freq, lo), values=arr, description=x.desc or "")


def build_item(x):
    if isinstance(x, RS):
        return build_series(x)
    if isinstance(x, list):
        return [build_item(e) for e in x]
    return x


def build_box(box):
    import irispie as ir
    db = ir.Databox()
    for k, v in box.items():
        db[k] = build_item(v)
    return db


def observe_series(x):
    """canonical form of a real Series (same layout as RS.canon())"""
    nv = int(x.num_variants)
    desc = x.get_description()
    if x.start is None:
        return ("S", None, nv, None, (), desc)
    freq = FREQ_BY_NAME[x.frequency.name]
    data = x.data
    n = data.shape[0]
    if n == 0:
        return ("S", freq, nv, None, (), desc)
    lo = ord_of(freq, x.start)
    d = []
    rows = data.tolist()
    for r, row in enumerate(rows):
        for v, val in enumerate(row):
            if val == val:
                d.append(((lo + r, v), float(val)))
    return ("S", freq, nv, (lo, lo + n - 1), tuple(sorted(d)), desc)


def observe_item(x):
    import irispie as ir
    if isinstance(x, ir.Series):
        return observe_series(x)
    if isinstance(x, list):
        return ("L", tuple(observe_item(e) for e in x))
    return ("V", type(x).__name__, repr(x))


def observe_box(db):
    return {k: observe_item(v) for k, v in db.items()}


def bits_item(x):
    """bitwise fingerprint of a real item (for 'left untouched' checks)"""
    import irispie as ir
    if isinstance(x, ir.Series):
        return ("S", None if x.start is None else str(x.start), x.data.shape, x.data.tobytes(),
                str(x.data.dtype), x.get_description())
    if isinstance(x, list):
        return ("L", tuple(bits_item(e) for e in x))
    return ("V", type(x).__name__, repr(x))


def bits_box(db):
    return {k: bits_item(v) for k, v in db.items()}
