"""C20 helper — structural alias scan.

``containers(obj)`` walks everything reachable from an object through *instance* state only
(``__dict__`` values, ``__slots__`` of every class in the MRO, items of dict / list / tuple /
set / frozenset) and returns ``{id: path}`` of every mutable container met on the way:
dict, list, set, bytearray, numpy.ndarray and the ``__dict__`` of an instance (an object whose
attributes can be rebound is a mutable container of its attributes).

Never entered, hence never reported: classes, modules, functions / methods / builtins (the
standard library's deepcopy treats them as atoms too; the code objects irispie compiles from
equation strings are pure), Enum members, numbers, strings, bytes, None.  Class attributes are
not instance state and are never visited — "objects owned by a class or module" are therefore
outside the scan by construction.

``shared(a, b)`` = the mutable containers reachable from both a and b.
"""
import enum
import types

import numpy as np

_ATOMS = (type(None), bool, int, float, complex, str, bytes, range, slice, type, types.ModuleType,
          types.FunctionType, types.BuiltinFunctionType, types.MethodType, types.MethodWrapperType,
          types.WrapperDescriptorType, types.MethodDescriptorType, types.GetSetDescriptorType,
          types.MemberDescriptorType, types.CodeType, types.CellType, enum.Enum, np.generic, np.dtype,
          type(Ellipsis), type(NotImplemented), property, staticmethod, classmethod)
_MUTABLE = (dict, list, set, bytearray, np.ndarray)


def register_atoms(*types_):
    """declare immutable value types of the library under test (never entered, never reported)"""
    global _ATOMS
    _ATOMS = _ATOMS + tuple(t for t in types_ if t not in _ATOMS)


def _slot_names(tp):
    out = []
    for klass in tp.__mro__:
        s = klass.__dict__.get("__slots__", ())
        if isinstance(s, str):
            s = (s,)
        for n in s:
            if n not in ("__dict__", "__weakref__"):
                out.append(n)
    return out


def containers(root, root_path="", max_depth=40):
    found = {}
    seen = set()
    keep = []           # keep temporaries alive so that ids stay unique during the walk
    stack = [(root, root_path, 0)]
    while stack:
        o, path, depth = stack.pop()
        if isinstance(o, _ATOMS) or id(o) in seen or depth > max_depth:
            continue
        seen.add(id(o))
        keep.append(o)
        if isinstance(o, _MUTABLE):
            found[id(o)] = path
        if isinstance(o, np.ndarray):
            if o.base is not None and isinstance(o.base, np.ndarray):
                stack.append((o.base, path + ".base", depth + 1))
            if o.dtype == object:
                for i, v in enumerate(o.flat):
                    stack.append((v, "%s[%d]" % (path, i), depth + 1))
            continue
        if isinstance(o, dict):
            for k, v in o.items():
                stack.append((v, "%s[%r]" % (path, k), depth + 1))
                if not isinstance(k, _ATOMS):
                    stack.append((k, "%s{key}" % path, depth + 1))
            continue
        if isinstance(o, (list, tuple)):
            for i, v in enumerate(o):
                stack.append((v, "%s[%d]" % (path, i), depth + 1))
            continue
        if isinstance(o, (set, frozenset)):
            for v in o:
                stack.append((v, "%s{}" % path, depth + 1))
            continue
        # generic instance
        d = getattr(o, "__dict__", None)
        if isinstance(d, dict):
            found[id(d)] = path + ".__dict__"
            keep.append(d)
            for k, v in d.items():
                stack.append((v, "%s.%s" % (path, k), depth + 1))
        for n in _slot_names(type(o)):
            try:
                v = object.__getattribute__(o, n)
            except AttributeError:
                continue
            stack.append((v, "%s.%s" % (path, n), depth + 1))
    return found, keep


def shared(a, b):
    """[(path in a, path in b, type name)] of mutable containers reachable from both"""
    fa, ka = containers(a)
    fb, kb = containers(b)
    out = []
    for i in sorted(set(fa) & set(fb), key=lambda i: fa[i]):
        out.append((fa[i], fb[i]))
    return out


def generalise(path):
    """path with indices / keys removed: '_variants[0].levels' -> '_variants.levels'"""
    out = []
    depth = 0
    for ch in path:
        if ch in "[{":
            depth += 1
        elif ch in "]}":
            depth -= 1
        elif depth == 0:
            out.append(ch)
    return "".join(out).strip(".")
