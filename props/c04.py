"""C04 — model source text is translated to equations without changing their meaning.

Translation validation by exhaustive enumeration.  The harness *generates* every model from a
structure (ref/modelgen_c04.py: declarations with kinds, descriptions, log flags; equations as
expression trees), so it knows the meaning without trusting the parser.

Part A (renderings): each structured base model x ALL 2^k vectors of its k enumerated syntactic
    switches (plus all vectors within Hamming distance 2 of all-off / all-on over every relevant
    switch) -> Simultaneous.from_string -> (1) names per kind in declared order, descriptions, log
    status, equation descriptions equal the structure; (2) every dynamic and steady equation,
    evaluated by the model's own plain equators on a deterministic data table at 3 scalar dates and
    at the vector of those dates, equals ev(rhs)-ev(lhs) of the structure computed by ref.expr
    (anticipated twins ant_<shock> carry non-zero data); (3) every observation equals that of the
    all-off rendering.  No rendering of a base model may be rejected.
Part B (pseudofunction table): every pseudofunction x every argument tree up to depth 2 over a
    stated leaf/operator set x shift in {default,-1,-2,-4,+2} x 3 surrounding contexts.  Rejection
    (at construction or first evaluation) is allowed only when the rendered argument has two levels
    of parentheses, a comma inside (comma function) or a nested pseudofunction; whatever is accepted
    must evaluate to the reference value.
"""
import itertools
import math

import numpy as np

import irispie as ir
from irispie.equators import plain as _plain

from mc import engine
from ref import expr as X
from ref import modelgen_c04 as G

PROPERTY = "C04"
LEVEL = "exploration"
RULE = ("A: base model x switch vector -> source text; one case = one textually distinct source, non-trivial = "
        "accepted and every oracle evaluated; all 2^k vectors of the enumerated switches of each model plus all "
        "vectors within Hamming distance 2 of all-off/all-on over all relevant switches.  B: (pseudofunction, "
        "argument tree of depth<=2, shift, context), batched 16 equations per model, non-trivial = accepted and "
        "compared with the reference expansion")
MANIFEST_ENTRY = dict(
    level="exploration", design="DESIGN.md section 4 / C04",
    technique="translation validation by exhaustive enumeration of source renderings of structured models against an independent expression-tree evaluator",
    text=("15 structured base models x all 2^k vectors of their meaning-preserving syntactic switches (quick: k=8 per "
          "model, once with the other switches all off and once all on, plus every vector within Hamming distance 2 "
          "of all-off / all-on over up to 21 relevant switches; thorough: k=13..15) and a pseudofunction table (8 "
          "pseudofunctions x argument trees to depth 2 x 5 shifts x 3 contexts) are parsed by the real model "
          "parser; names per kind in declared order, descriptions, log status and the value of every dynamic and "
          "steady equation at scalar and vector dates are compared with the generating structure evaluated by "
          "ref/expr.py; all renderings of one structure must agree; rejection is allowed only for three listed "
          "regex limits of pseudofunction arguments."),
    note=("Trusted: ref/expr.py evaluator and the renderer in ref/modelgen_c04.py (its all-off rendering is plain "
          "text that can be read).  Not covered: Jinja templates, block attributes, steady autovalues, autoswaps, "
          "pre/post-processor blocks, equations without '=', models larger than 12 equations, numeric values "
          "outside the data table."))
ASSUMPTIONS = [
    "anticipated twin semantics: in dynamic transition equations a transition shock e[k] stands for e[k]+ant_e[k]; steady equations and measurement equations carry no twin",
    "parameters carry the same value at every column of the evaluation array (a pseudofunction shifts parameter names too)",
    "a control variable spelled ?(c) is never followed directly by a curly time shift (that spelling is rejected loudly and is not generated)",
    "substitution references are not generated inside pseudofunction arguments",
    "whitespace is not generated between the sign and the digits of a pseudofunction shift argument",
    "#! / %! comments (kept until the model parser) are generated only between statements and declared names, never inside an expression",
    "the expected-rejection list is decided from the rendered argument text alone; an argument on the list that is nevertheless accepted must still evaluate correctly",
    "quick tier: depth-2 pseudofunction arguments use the leaf set {x, y[+1]}, operators {+,*,/,neg,log}, shifts {default,-2,+2} and one of the 3 contexts in rotation; thorough uses {x, y[+1], a}, all operators, all 5 shifts and all 3 contexts",
]

NCOL = 28
T_SCALAR = (12, 13, 15)
KINDS = ["TRANSITION_VARIABLE", "MEASUREMENT_VARIABLE", "TRANSITION_SHOCK", "ANTICIPATED_SHOCK_VALUE",
         "MEASUREMENT_SHOCK", "PARAMETER", "EXOGENOUS_VARIABLE", "TRANSITION_STD", "MEASUREMENT_STD"]
ORDERED_KINDS = set(G.KIND_NAME.values())
RTOL = 1e-9


# ---------------------------------------------------------------------------
# reference side
# ---------------------------------------------------------------------------

def table_value(i, col, seed):
    """deterministic positive data: name index i, column col"""
    return 0.7 + 0.9 * ((((i * 7 + col * 11 + seed * 5) * 37) % 101) / 101.0)


def make_table(names, constant, seed):
    """name -> np.array(NCOL); names in `constant` (parameters, std) do not vary over columns"""
    out = {}
    for i, n in enumerate(sorted(names)):
        if n in constant:
            out[n] = np.full(NCOL, table_value(i, 3, seed))
        else:
            out[n] = np.array([table_value(i, c, seed) for c in range(NCOL)])
    return out


def add_twins(tr, shocks):
    k = tr[0]
    if k == "var":
        if tr[1] in shocks:
            return ("+", tr, ("var", "ant_" + tr[1], tr[2]))
        return tr
    if k in ("num", "par"):
        return tr
    if k == "fn":
        return ("fn", tr[1]) + tuple(add_twins(a, shocks) for a in tr[2:])
    if k == "pf":
        return ("pf", tr[1], add_twins(tr[2], shocks), tr[3])
    return (k,) + tuple(add_twins(a, shocks) for a in tr[1:])


def ref_value(tr, table, t):
    """float value of a tree, or None when the reference itself is undefined there (domain error,
    overflow, complex power): an oracle-side exclusion"""
    def get(name, tt):
        return float(table[name][0 if tt is None else tt])
    try:
        v = X.ev(tr, get, t)
    except (ValueError, ZeroDivisionError, OverflowError, TypeError):
        return None          # TypeError: a negative base raised to a fractional power went complex
    if isinstance(v, complex) or not math.isfinite(v):
        return None
    return float(v)


class Expected:
    """everything the structure says about one base model, for one seed"""

    def __init__(self, spec, seed):
        st = G.structure(spec)
        self.st = st
        d = st["decl"]
        shocks = [n for n, _, _ in d["ts"]]
        mshocks = [n for n, _, _ in d["ms"]]
        self.names = {G.KIND_NAME[k]: [n for n, _, _ in d[k]] for k in G.DECL_KINDS}
        self.names["ANTICIPATED_SHOCK_VALUE"] = ["ant_" + n for n in shocks]
        self.names["TRANSITION_STD"] = ["std_" + n for n in shocks]
        self.names["MEASUREMENT_STD"] = ["std_" + n for n in mshocks]
        self.log = {n: lg for k in ("tv", "mv", "exo") for n, _, lg in d[k]}
        self.desc = {n: ds for k in G.DECL_KINDS for n, ds, _ in d[k]}
        self.eqs = [("teq", i) + e for i, e in enumerate(st["teq"])] + [("meq", i) + e for i, e in enumerate(st["meq"])]
        self.eq_desc = [e[5] for e in self.eqs]
        all_names = [n for k in KINDS for n in self.names[k]]
        constant = set(self.names["PARAMETER"]) | set(self.names["TRANSITION_STD"]) | set(self.names["MEASUREMENT_STD"])
        self.table = make_table(all_names, constant, seed)
        sh = set(shocks)
        self.shifted_shock = []
        self.ref = {"dynamic": [], "steady": []}
        for kind, i, lhs, rhs, steady, _ in self.eqs:
            dl, dr = (add_twins(lhs, sh), add_twins(rhs, sh)) if kind == "teq" else (lhs, rhs)
            sl, sr = steady if steady is not None else (lhs, rhs)
            occ = X.occurrences(lhs) | X.occurrences(rhs)
            self.shifted_shock.append(kind == "teq" and any(n in sh and k != 0 for n, k in occ))
            for ver, (a, b) in (("dynamic", (dl, dr)), ("steady", (sl, sr))):
                vals = []
                for t in T_SCALAR:
                    ra, rb = ref_value(a, self.table, t), ref_value(b, self.table, t)
                    if ra is None or rb is None:
                        raise RuntimeError("base model %s: reference undefined in %s[%d]" % (spec["name"], kind, i))
                    vals.append(rb - ra)
                self.ref[ver].append(vals)


_EXPECTED = {}


def expected(name, seed):
    key = (name, seed)
    if key not in _EXPECTED:
        _EXPECTED[key] = (G.BASE_MODELS[name](), None)
        _EXPECTED[key] = (_EXPECTED[key][0], Expected(_EXPECTED[key][0], seed))
    return _EXPECTED[key]


# ---------------------------------------------------------------------------
# implementation side
# ---------------------------------------------------------------------------

def _eval_equator(equator, equations, context, arr, t, n):
    """-> list of n entries, each np.ndarray (values at t) or ('exc', class name, message).  The whole
    equator is evaluated first (the observation point of the property); only when that raises are the
    equations evaluated one by one to localise the failure."""
    shape = np.shape(t)
    try:
        vals = equator.eval(arr, t)
        return [np.broadcast_to(np.asarray(v, dtype=float), shape).copy() for v in vals]
    except Exception:
        out = []
        for eq in equations:
            try:
                v = _plain.PlainEquator([eq], context=context).eval(arr, t)[0]
                out.append(np.broadcast_to(np.asarray(v, dtype=float), shape).copy())
            except Exception as e:
                out.append(("exc", type(e).__name__, str(e)[:120]))
        return out


def observe(src, context, table):
    """build the model from text and read every observation the oracle uses"""
    m = ir.Simultaneous.from_string(src, context=context)
    obs = {}
    obs["names"] = {k: list(m.get_names(kind=getattr(ir, k))) for k in KINDS}
    obs["all_names"] = list(m.get_names())
    obs["log"] = {k: bool(v) for k, v in dict(m.get_log_status()).items()}
    obs["desc"] = dict(m.create_name_to_description())
    inv = m._invariant
    plain_kinds = ir.TRANSITION_EQUATION | ir.MEASUREMENT_EQUATION
    deqs = [e for e in m.get_dynamic_equation_objects() if e.kind in plain_kinds]
    seqs = [e for e in m.get_steady_equation_objects() if e.kind in plain_kinds]
    obs["eq_desc"] = [e.description for e in deqs]
    obs["eq_kinds"] = [e.kind.name for e in deqs]
    obs["human"] = [e.human for e in deqs]
    n2q = m.create_name_to_qid()
    arr = np.full((len(n2q), NCOL), 1.0)
    for n, q in n2q.items():
        if n in table:
            arr[q, :] = table[n]
    obs["qids_ok"] = sorted(n2q.values()) == list(range(len(n2q)))
    tv = np.array(T_SCALAR)
    obs["eval"] = {}
    for ver, equator, eqs in (("dynamic", inv._plain_dynamic_equator, deqs), ("steady", inv._plain_steady_equator, seqs)):
        per_t = [_eval_equator(equator, eqs, inv._context, arr, t, len(eqs)) for t in T_SCALAR]
        obs["eval"][(ver, "scalar")] = [[pt[i] for pt in per_t] for i in range(len(eqs))]
        vec = _eval_equator(equator, eqs, inv._context, arr, tv, len(eqs))
        obs["eval"][(ver, "vector")] = [[(v if isinstance(v, tuple) else v[j]) for j in range(len(T_SCALAR))] for v in vec]
    return obs


def _close(a, b):
    return abs(a - b) <= RTOL * max(1.0, abs(a), abs(b))


def _flat(x):
    return x if isinstance(x, tuple) else float(x)


def check_program(name, sw, seed, res, baseline=None, rendered=None):
    """render one program, run it, compare.  Returns the observation (for the metamorphic check)."""
    spec, exp = expected(name, seed)
    src, context, facts = rendered if rendered is not None else G.render_facts(spec, sw)
    case = {"part": "model", "model": name, "switches": {k: v for k, v in sw.items() if v}, "seed": seed}

    def bad(check, detail="", **extra):
        sig = {"part": "model", "model": name}
        sig.update(extra)
        res.violation(check, sig, dict(case, source=src), detail)

    try:
        obs = observe(src, context, exp.table)
    except Exception as e:
        res.count("rejected_base_model_rendering")
        bad("rejected_at_build", "%s: %s" % (type(e).__name__, str(e)[:300]), error=type(e).__name__,
            elseless_if_before_if_else=facts["elseless_if_before_if_else"])
        return None
    res.count("accepted_renderings")
    # (1) names, kinds, order, log status, descriptions
    for k in KINDS:
        got, want = obs["names"][k], exp.names[k]
        if sorted(got) != sorted(want):
            bad("names", "%s: got %r expected %r" % (k, got, want), kind=k)
        elif k in ORDERED_KINDS and got != want:
            bad("declared_order", "%s: got %r expected %r" % (k, got, want), kind=k)
    if sorted(obs["all_names"]) != sorted(n for k in KINDS for n in exp.names[k]) or not obs["qids_ok"]:
        bad("names", "all names: %r" % (obs["all_names"],), kind="ALL")
    if obs["log"] != exp.log:
        bad("log_status", "got %r expected %r" % (obs["log"], exp.log))
    want_desc = {n: ("" if sw.get("desc_off") else d) for n, d in exp.desc.items()}
    got_desc = {n: (obs["desc"].get(n) or "") for n in want_desc}
    if got_desc != want_desc:
        diff = {n: (got_desc[n], want_desc[n]) for n in want_desc if got_desc[n] != want_desc[n]}
        bad("descriptions", "name: (got, expected) %r" % (diff,))
    want_ed = ["" if sw.get("desc_off") else d for d in exp.eq_desc]
    if [d or "" for d in obs["eq_desc"]] != want_ed:
        bad("equation_descriptions", "got %r expected %r" % (obs["eq_desc"], want_ed))
    # (2) residuals
    want_kinds = ["TRANSITION_EQUATION" if e[0] == "teq" else "MEASUREMENT_EQUATION" for e in exp.eqs]
    if obs["eq_kinds"] != want_kinds:
        bad("equation_count", "got kinds %r expected %r" % (obs["eq_kinds"], want_kinds))
        return obs
    for (ver, mode), per_eq in obs["eval"].items():
        for i, vals in enumerate(per_eq):
            eqid = "%s[%d]" % (exp.eqs[i][0], exp.eqs[i][1])
            ss = bool(exp.shifted_shock[i]) and ver == "dynamic"
            for j, v in enumerate(vals):
                want = exp.ref[ver][i][j]
                if isinstance(v, tuple):
                    bad("eval_exception", "%s %s %s at t=%d: %s: %s | %s" % (ver, mode, eqid, T_SCALAR[j], v[1], v[2], obs["human"][i]),
                        version=ver, mode=mode, equation=eqid, shifted_shock=ss, error=v[1])
                    break
                if not _close(float(v), want):
                    bad("residual", "%s %s %s at t=%d: got %.12g expected %.12g | %s" % (ver, mode, eqid, T_SCALAR[j], float(v), want, obs["human"][i]),
                        version=ver, mode=mode, equation=eqid, shifted_shock=ss)
                    break
    # (3) metamorphic: same observations as the all-off rendering
    if baseline is not None:
        for key in ("names", "log", "eq_kinds"):
            if obs[key] != baseline[key]:
                bad("renderings_disagree", "%s differs from the all-off rendering" % key, what=key)
        for (ver, mode), per_eq in obs["eval"].items():
            base = baseline["eval"][(ver, mode)]
            for i, vals in enumerate(per_eq):
                for v, b in zip(vals, base[i] if i < len(base) else []):
                    same = (v[:2] == b[:2]) if (isinstance(v, tuple) and isinstance(b, tuple)) else \
                        (not isinstance(v, tuple) and not isinstance(b, tuple) and _close(float(v), float(b)))
                    if not same:
                        bad("renderings_disagree", "%s %s equation %d: %r vs all-off %r" % (ver, mode, i, _flat(v), _flat(b)),
                            what="evaluation", version=ver, mode=mode)
                        break
    return obs


# ---------------------------------------------------------------------------
# Part A shards
# ---------------------------------------------------------------------------

def vectors_of_item(item):
    """item = (model, mode, switch names, lo, hi, base vector dict)
    mode 'product': index bits over the switch names; mode 'list': explicit list of on-sets"""
    name, mode, names, lo, hi, base = item
    if mode == "product":
        for idx in range(lo, hi):
            sw = dict(base)
            for b, s in enumerate(names):
                sw[s] = (idx >> b) & 1
            yield sw
    else:
        for on in names[lo:hi]:
            sw = dict(base)
            for s in on:
                sw[s] = 1 - sw.get(s, 0)
            yield sw


def shard_models(item, res, ctx):
    name = item[0]
    spec, exp = expected(name, ctx.seed)
    zero = {s: 0 for s in G.SWITCHES}
    base_obs = check_program(name, zero, ctx.seed, engine.Result())   # all-off rendering (reported by its own shard)
    seen = set()
    for sw in vectors_of_item(item):
        full = dict(zero, **sw)
        rendered = G.render_facts(spec, full)
        h = engine.short_hash(rendered[0])
        res.count("vectors_enumerated")
        if h in seen:
            res.count("vectors_with_text_already_seen_in_shard")
            continue
        seen.add(h)
        res.ev()
        nv = res.violation_total
        obs = check_program(name, full, ctx.seed, res, baseline=base_obs, rendered=rendered)
        if obs is not None:
            res.nt(("A", name, h))
            res.cls("texts:" + name, h)
            for s, v in full.items():
                if v:
                    res.count("on:" + s)
            if res.violation_total == nv:
                res.count("renderings_fully_agreeing")
    if item[3] == 0:
        res.sample({"part": "model", "model": name, "all_off_source": G.render(spec, zero)[0][:1500]})


# ---------------------------------------------------------------------------
# Part B — pseudofunction table
# ---------------------------------------------------------------------------

PFS = ["diff", "diff_log", "pct", "roc", "mov_sum", "mov_avg", "mov_prod", "shift"]
SHIFTS = [None, -1, -2, -4, 2]
QUICK_DEPTH2_SHIFTS = [None, -2, 2]
CONTEXTS = ["{}", "x[-1]-{}", "2*{}^2"]
BATCH = 16

_x, _x1, _y1, _a, _two = G.V("x"), G.V("x", -1), G.V("y", 1), G.P("a"), G.N(2)


def _level1(leaves, unary, binary, extra=()):
    out = []
    for u in unary:
        for a in leaves:
            out.append(("neg", a) if u == "neg" else ("pf", u[3:], a, None) if u.startswith("pf:") else ("fn", u, a))
    for b in binary:
        for a in leaves:
            for c in leaves:
                out.append((b, a, c))
    out.extend(extra)
    return out


def _unary(u, a):
    return ("neg", a) if u == "neg" else ("fn", u, a)


def arg_trees(tier):
    """-> list of (depth, tree); the space is the same for every seed"""
    leaves = [_x, _x1, _y1, _a, _two]
    d1 = _level1(leaves, ["neg", "log", "exp", "pf:diff", "pf:mov_avg"], ["+", "-", "*", "/", "^"],
                 extra=[("fn", "maximum", _x, _y1), ("fn", "minimum", _x1, _two)])
    out = [(0, t) for t in leaves] + [(1, t) for t in d1]
    if tier == "quick":
        l2, u2, b2 = [_x, _y1], ["neg", "log"], ["+", "*", "/"]
    else:
        l2, u2, b2 = [_x, _y1, _a], ["neg", "log", "exp"], ["+", "-", "*", "/", "^"]
    pool1 = _level1(l2, u2, b2)
    for u in u2:
        for a in pool1:
            out.append((2, _unary(u, a)))
    both = [(0, t) for t in l2] + [(1, t) for t in pool1]
    for b in b2:
        for da, a in both:
            for dc, c in both:
                if da or dc:
                    out.append((2, (b, a, c)))
    return out


def _paren_depth(text):
    d = m = 0
    for ch in text:
        if ch == "(":
            d += 1
            m = max(m, d)
        elif ch == ")":
            d -= 1
    return m


def _has_pf(tr):
    if tr[0] == "pf":
        return True
    if tr[0] in ("var", "par", "num"):
        return False
    return any(_has_pf(a) for a in tr[1:] if isinstance(a, tuple))


def allowed_to_reject(arg_tree, arg_text):
    """the explicit list of known regex limits, decided from the source text alone"""
    if _has_pf(arg_tree):
        return "nested_pseudofunction"
    if _paren_depth(arg_text) >= 2:
        return "two_levels_of_parentheses"
    if "," in arg_text:
        return "comma_inside_argument"
    return None


def pf_case_text(case, style):
    pf, arg, k, c = case
    tr = ("pf", pf, arg, k)
    return CONTEXTS[c].format(X.render(tr, style, 9 if c else 0))


def pf_case_tree(case):
    pf, arg, k, c = case
    tr = ("pf", pf, arg, k)
    if c == 1:
        return ("-", _x1, tr)
    if c == 2:
        return ("*", _two, ("^", tr, _two))
    return tr


PF_NAMES = ["x", "y", "a"]
PF_STYLES = {"plain": {"brackets": "[]", "plus_lead": True},
             "alt": {"brackets": "{}", "plus_lead": False, "pf_alias": G.PF_ALIAS, "space": " "}}


def _pf_table(seed, n):
    names = PF_NAMES + ["v%d" % i for i in range(n)]
    return make_table(names, {"a"}, seed)


def _pf_source(texts):
    n = len(texts)
    return ("!variables\n    " + ", ".join("v%d" % i for i in range(n)) + ", x, y\n!parameters\n    a\n!equations\n"
            + "".join("    v%d = %s;\n" % (i, t) for i, t in enumerate(texts)) + "    x = 0.5*x[-1];\n    y = 0.5*y[+1];\n")


def run_pf_batch(cases, style_name, seed, res):
    """cases: list of (pf, arg tree, shift, context id).  All in one model; on a construction failure each
    case is re-run in a model of its own."""
    style = PF_STYLES[style_name]
    table = _pf_table(seed, BATCH)
    todo = []
    for case in cases:
        pf, arg, k, c = case
        res.count("pf_cases_enumerated")
        tr = pf_case_tree(case)
        want = [ref_value(tr, table, t) for t in T_SCALAR]
        if any(w is None for w in want):
            res.exclude("pf_reference_undefined_on_data_table")
            continue
        text = pf_case_text(case, style)
        arg_text = X.render(arg, style, 0)
        todo.append((case, text, want, allowed_to_reject(arg, arg_text)))
    if not todo:
        return
    _run_pf_models(todo, style_name, seed, res, table)


def _run_pf_models(todo, style_name, seed, res, table):
    src = _pf_source([t[1] for t in todo])
    try:
        m = ir.Simultaneous.from_string(src)
    except Exception as e:
        if len(todo) > 1:
            for one in todo:
                _run_pf_models([one], style_name, seed, res, table)
            return
        _pf_outcome(todo[0], style_name, seed, res, ("exc", type(e).__name__, str(e)[:160]), None, "build")
        return
    n2q = m.create_name_to_qid()
    arr = np.full((len(n2q), NCOL), 1.0)
    for n, q in n2q.items():
        if n in table:
            arr[q, :] = table[n]
    inv = m._invariant
    deqs = list(m.get_dynamic_equation_objects())
    tv = np.array(T_SCALAR)
    per_t = [_eval_equator(inv._plain_dynamic_equator, deqs, inv._context, arr, t, len(deqs)) for t in T_SCALAR]
    vec = _eval_equator(inv._plain_dynamic_equator, deqs, inv._context, arr, tv, len(deqs))
    for i, one in enumerate(todo):
        sc = [pt[i] for pt in per_t]
        vc = vec[i]
        lhs = [float(table["v%d" % i][t]) for t in T_SCALAR]
        _pf_outcome(one, style_name, seed, res, sc, vc, "eval", lhs, deqs[i].human)


def _arg_root(arg):
    return arg[0] if arg[0] not in ("fn", "pf") else arg[0] + ":" + arg[1]


def _pf_outcome(one, style_name, seed, res, sc, vc, stage, lhs=None, human=""):
    case, text, want, allowed = one
    pf, arg, k, c = case
    res.ev()
    sig = {"part": "pf", "pf": pf, "arg_root": _arg_root(arg), "context": CONTEXTS[c], "shift": "default" if k is None else k,
           "style": style_name}
    jcase = {"part": "pf", "pf": pf, "arg": arg, "shift": k, "context": c, "style": style_name, "seed": seed, "text": text}
    exc = None
    if stage == "build":
        exc = sc
    else:
        for v in list(sc) + ([vc] if isinstance(vc, tuple) else []):
            if isinstance(v, tuple):
                exc = v
                break
    if exc is not None:
        if allowed:
            res.count("pf_rejected_allowed:" + allowed)
            res.count("pf_rejected_at_" + stage)
        else:
            res.violation("pf_rejected", dict(sig, error=exc[1], stage=stage), jcase, "%s -> %s: %s | %s" % (text, exc[1], exc[2], human))
        return
    if allowed:
        res.count("pf_accepted_beyond_documented_limit:" + allowed)
    ok = True
    for mode, vals in (("scalar", [float(v) for v in sc]), ("vector", [float(v) for v in vc])):
        for j, v in enumerate(vals):
            got = v + lhs[j]          # the equation is v_i = expr, evaluated as -(v_i)+expr
            if not _close(got, want[j]):
                res.violation("pf_value", dict(sig, mode=mode), jcase,
                              "%s at t=%d (%s): got %.12g expected %.12g | %s" % (text, T_SCALAR[j], mode, got, want[j], human))
                ok = False
                break
        if not ok:
            break
    if ok:
        res.nt(("B", pf, repr(arg), k, c, style_name))
        res.cls("pf_arg_roots", sig["arg_root"])
        res.count("pf_cases_exact")


def shard_pf(item, res, ctx):
    style_name, cases = item
    for i in range(0, len(cases), BATCH):
        run_pf_batch(cases[i:i + BATCH], style_name, ctx.seed, res)
    if cases:
        res.sample({"part": "pf", "style": style_name, "first_case_text": pf_case_text(cases[0], PF_STYLES[style_name]), "cases": len(cases)})


# ---------------------------------------------------------------------------
# driver
# ---------------------------------------------------------------------------

# switches enumerated as a full product, in priority order: quick takes the first QUICK_K that are
# relevant to the model, thorough the first THOROUGH_K.
PRIORITY = {
    "core": ["curly", "cont", "lcom", "bcom", "walrus", "noplus", "ws", "kw_short", "if", "desc_off", "sep", "order", "kw_under", "sep2"],
    "logs": ["allbut", "list", "kw_under", "sep", "lcom", "order", "curly", "desc_off", "if", "bcom", "kw_short", "walrus", "cont", "sep2", "ws", "noplus"],
    "pf_basic": ["pfx", "pfa", "pfd", "curly", "ws", "cont", "lcom", "bcom", "noplus", "walrus", "if", "order", "kw_short", "sep", "kw_under", "sep2"],
    "pf_expr": ["pfx", "pfd", "curly", "noplus", "cont", "bcom", "pfa", "lcom", "ws", "walrus", "if", "list", "allbut", "desc_off", "order", "kw_short"],
    "names": ["pfx", "curly", "walrus", "ws", "if", "lcom", "pfa", "kw_short", "order", "pfd", "bcom", "cont", "noplus", "sep", "desc_off", "kw_under"],
    "shklag": ["curly", "walrus", "ws", "if", "order", "kw_short", "lcom", "noplus", "bcom", "cont", "sep", "kw_under", "sep2"],
    "forfam": ["for", "forc", "ctx", "if", "curly", "desc_off", "list", "lcom", "sep", "allbut", "bcom", "cont", "order", "ws", "walrus", "kw_short"],
    "fornest": ["for", "forc", "curly", "if", "cont", "lcom", "bcom", "ws", "order", "sep", "walrus", "noplus", "kw_short", "kw_under", "sep2"],
    "forsum": ["for", "forc", "ctx", "curly", "pfx", "cont", "lcom", "if", "bcom", "ws", "walrus", "pfd", "order", "desc_off", "sep", "kw_short"],
    "subs": ["sub", "walrus", "pfx", "curly", "if", "ws", "cont", "bcom", "lcom", "order", "pfd", "noplus", "kw_under", "kw_short", "sep", "sep2"],
    "ctx": ["ctx", "if", "curly", "ws", "lcom", "cont", "sep", "order", "bcom", "walrus", "noplus", "kw_short", "kw_under", "sep2"],
    "meas": ["kw_under", "order", "list", "allbut", "desc_off", "sep", "sep2", "if", "lcom", "walrus", "bcom", "curly", "kw_short", "cont", "ws", "noplus"],
    "mixed": ["pfx", "sub", "ctx", "list", "if", "curly", "lcom", "cont", "bcom", "walrus", "allbut", "pfa", "order", "desc_off", "kw_short", "ws"],
    "ifseq": ["if", "curly", "lcom", "bcom", "cont", "ws", "walrus", "order", "kw_short", "noplus", "sep", "kw_under", "sep2"],
    "funcs": ["ws", "curly", "cont", "bcom", "lcom", "walrus", "if", "order", "noplus", "kw_short", "sep", "kw_under", "sep2"],
}
QUICK_K = 8
THOROUGH_K = 14
THOROUGH_K_MODEL = {"names": 13, "pf_basic": 13, "mixed": 15, "forfam": 15}


def _pair_sets(rel):
    """all subsets of size <= 2 of the relevant switches"""
    out = [()]
    out += [(s,) for s in rel]
    out += list(itertools.combinations(rel, 2))
    return out


def build_model_shards(ctx):
    shards = []
    plan = {}
    for name, f in G.BASE_MODELS.items():
        spec = f()
        rel = G.relevant_switches(spec)
        prio = [s for s in PRIORITY[name] if s in rel]
        k = QUICK_K if ctx.quick else THOROUGH_K_MODEL.get(name, THOROUGH_K)
        enum = prio[:k]
        rest = [s for s in rel if s not in enum]
        n = 1 << len(enum)
        per = 128 if ctx.quick else 1024
        zero = {s: 0 for s in G.SWITCHES}
        ones_rest = dict(zero, **{s: 1 for s in rest})
        for lo in range(0, n, per):
            shards.append((name, "product", enum, lo, min(n, lo + per), zero))
        # the same product with every non-enumerated relevant switch turned on
        if rest:
            for lo in range(0, n, per):
                shards.append((name, "product", enum, lo, min(n, lo + per), ones_rest))
        # Hamming distance <= 2 from all-off and from all-on over all relevant switches
        pairs = _pair_sets(rel)
        ones = dict(zero, **{s: 1 for s in rel})
        for base in (zero, ones):
            for lo in range(0, len(pairs), per):
                shards.append((name, "list", pairs, lo, min(len(pairs), lo + per), base))
        plan[name] = {"relevant": rel, "full_product_over": enum, "others_pinned_all_off_and_all_on": rest,
                      "vectors": n * (2 if rest else 1) + 2 * len(pairs)}
    return shards, plan


def build_pf_shards(ctx):
    args = arg_trees(ctx.tier)
    cases = []
    for depth, arg in args:
        for pf in PFS:
            shifts = list(SHIFTS if (depth <= 1 or not ctx.quick) else QUICK_DEPTH2_SHIFTS)
            if depth <= 1 and not pf.startswith("mov_"):
                shifts.append(0)      # an explicit zero shift is a shift by zero, not "no shift given" (a window of 0 terms is undefined)
            for k in shifts:
                ctxs = range(len(CONTEXTS)) if (depth <= 1 or not ctx.quick) else (len(cases) % 3,)
                for c in ctxs:
                    cases.append((pf, arg, k, c))
    per = BATCH * (12 if ctx.quick else 40)
    shards = [("plain", cases[i:i + per]) for i in range(0, len(cases), per)]
    if not ctx.quick:
        d1 = [cs for cs in cases if _depth(cs[1]) <= 1]
        shards += [("alt", d1[i:i + per]) for i in range(0, len(d1), per)]
    else:
        d0 = [cs for cs in cases if _depth(cs[1]) == 0]
        shards += [("alt", d0[i:i + per]) for i in range(0, len(d0), per)]
    return shards, {"argument_trees": len(args), "cases": sum(len(s[1]) for s in shards)}


def _depth(tr):
    if tr[0] in ("var", "par", "num"):
        return 0
    return 1 + max(_depth(a) for a in tr[1:] if isinstance(a, tuple))


# ---------------------------------------------------------------------------
# Part C — one source text, several preparser contexts, every order of use in one process
# ---------------------------------------------------------------------------

CTXSEQ_SRC = """
!transition-variables x, y
!transition-shocks e
!parameters a, b
!transition-equations
!if regime == "fixed" !then
    x = a*x[-1] + 1 + e;
!else
    x = b*x[-1] + y[+1]^2 + e;
!end
!if deep !then
    y = <k>*y[-1] + 0.5;
!else
    y = <k>*y[-1] + !for ?w = <terms> !do + ?w*x !end;
!end
"""
CTXSEQ_CONTEXTS = {
    "F": ({"regime": "fixed", "deep": True, "k": 0.5, "terms": [2]}, ["x=a*x[-1]+1+e", "y=0.5*y[-1]+0.5"]),
    "G": ({"regime": "float", "deep": False, "k": 0.25, "terms": [2, 3]}, ["x=b*x[-1]+y[+1]^2+e", "y=0.25*y[-1]++2*x+3*x"]),
    "H": ({"regime": "float", "deep": True, "k": 0.75, "terms": [3]}, ["x=b*x[-1]+y[+1]^2+e", "y=0.75*y[-1]+0.5"]),
    "I": ({"regime": "fixed", "deep": False, "k": 0.125, "terms": [5]}, ["x=a*x[-1]+1+e", "y=0.125*y[-1]++5*x"]),
}


def _norm_eq(t):
    return "".join(str(t).split()).replace("(e+ant_e)", "e")


def shard_context_sequences(item, res, ctx):
    """every sequence of up to 3 contexts: the same text is parsed under each in turn, in this process; the model
    built last must contain the equations of ITS context (state kept from an earlier parse of the same text would not)"""
    for n in (1, 2, 3):
        for seq in itertools.product(sorted(CTXSEQ_CONTEXTS), repeat=n):
            res.ev()
            case = {"part": "context_sequence", "sequence": list(seq)}
            try:
                m = None
                for k in seq:
                    m = ir.Simultaneous.from_string(CTXSEQ_SRC, context=dict(CTXSEQ_CONTEXTS[k][0]), linear=False)
                got = [_norm_eq(t) for t in m.get_dynamic_equations()]
            except Exception as e:
                res.violation("context_sequence", {"part": "context_sequence", "error": type(e).__name__}, case, "%s: %s" % (type(e).__name__, str(e)[:300]))
                continue
            exp = CTXSEQ_CONTEXTS[seq[-1]][1]
            res.nt(("context_sequence",) + tuple(seq))
            res.count("context_sequences_checked")
            if got != exp:
                res.violation("context_sequence", {"part": "context_sequence", "last": seq[-1], "length": n}, case,
                              "parsed under contexts %s in turn: the last model holds %r, its context says %r" % ("->".join(seq), got, exp))
    res.sample({"part": "context_sequence", "source": CTXSEQ_SRC, "contexts": {k: v[0] for k, v in CTXSEQ_CONTEXTS.items()}})
    # a model in which EVERY variable is a log-variable: the list written out, and "!all-but" followed by nothing
    # (in two keyword spellings, at the end of the file and before another block), must declare the same log status
    base = ("!transition-variables a, b\n!transition-shocks e\n!transition-equations\n"
            "    log(a) = 0.5*log(a[-1]) + e;\n    b = a^0.5 * b[-1]^0.3;\n")
    for label, tail in (("list", "!log-variables a, b\n"), ("all_but_empty", "!log-variables !all-but\n"),
                        ("all_but_empty_underscores", "!log_variables !all_but\n"),
                        ("all_but_empty_then_block", "!log-variables !all-but\n\n!parameters p\n")):
        res.ev()
        case = {"part": "context_sequence", "all_log_form": label}
        try:
            m = ir.Simultaneous.from_string(base + tail)
            names, lg = m.create_qid_to_name(), m.create_qid_to_logly()
            got = {names[q]: lg.get(q) for q in names if names[q] in ("a", "b")}
        except Exception as e:
            res.violation("all_log_forms", {"part": "all_log_forms", "form": label, "error": type(e).__name__}, case, "%s: %s" % (type(e).__name__, str(e)[:200]))
            continue
        res.count("all_log_forms_checked")
        if got != {"a": True, "b": True}:
            res.violation("all_log_forms", {"part": "all_log_forms", "form": label}, case, "log status %r, every variable is declared a log-variable" % (got,))


def run(ctx, total, info):
    mshards, plan = build_model_shards(ctx)
    pshards, pplan = build_pf_shards(ctx)
    deadline = (ctx.t0 + ctx.cap_s) if getattr(ctx, "cap_s", None) else None
    # heavy shards first
    mshards.sort(key=lambda it: -(it[4] - it[3]))
    d1, n1 = engine.run_shards(__name__, "shard_models", mshards, ctx, total, deadline=deadline)
    d2, n2 = engine.run_shards(__name__, "shard_pf", pshards, ctx, total, deadline=deadline)
    engine.run_shards(__name__, "shard_context_sequences", [0], ctx, total)
    c = total.counters
    info["exhaustive"] = (d1 == n1 and d2 == n2)
    if not info["exhaustive"]:
        info["capped"] = {"model_shards_done": [d1, n1], "pf_shards_done": [d2, n2]}
    info["bound_completed"] = {"switches_full_product_per_model": {k: len(v["full_product_over"]) for k, v in plan.items()},
                               "pairwise_over_all_relevant_switches": True, "pf_argument_depth": 2}
    info["space"] = {"base_models": len(plan), "plan": plan, "pseudofunction_table": pplan,
                     "switches": G.SWITCHES, "pf_contexts": CONTEXTS, "pf_shifts": ["default", -1, -2, -4, 2, "0 (not for moving windows)"],
                     "pf_shifts_quick_depth2": ["default", -2, 2] if ctx.quick else None}
    info["rejected_by_implementation"] = {k: v for k, v in c.items() if k.startswith("pf_rejected") or k.startswith("rejected")}
    texts = sum(len(v) for k, v in total.classes.items() if k.startswith("texts:"))
    on_min = min([c.get("on:" + s, 0) for s in G.SWITCHES])
    q = ctx.quick
    info["measured"] = {"textually_distinct_accepted_sources": texts, "least_used_switch_on_count": on_min}
    info["floors"] = {
        "accepted_renderings": (c.get("accepted_renderings", 0), 5000 if q else 170000),
        "textually_distinct_accepted_sources": (texts, 4600 if q else 148000),
        "renderings_fully_agreeing": (c.get("renderings_fully_agreeing", 0), 4800 if q else 165000),
        "models_with_200_distinct_texts": (sum(1 for k, v in total.classes.items() if k.startswith("texts:") and len(v) >= 200), len(plan)),
        "least_used_switch_on_count": (on_min, 400 if q else 15000),
        "pf_cases_exact": (c.get("pf_cases_exact", 0), 19000 if q else 850000),
        "context_sequences_checked": (c.get("context_sequences_checked", 0), 84),
        "all_log_forms_checked": (c.get("all_log_forms_checked", 0), 4),
        "pf_rejections_of_known_limits_seen": (sum(v for k, v in c.items() if k.startswith("pf_rejected_allowed:")), 600),
    }


def replay(case):
    res = engine.Result()
    if case.get("part") == "model":
        zero = {s: 0 for s in G.SWITCHES}
        seed = case.get("seed", 0)
        base = check_program(case["model"], zero, seed, engine.Result())
        check_program(case["model"], dict(zero, **case.get("switches", {})), seed, res, baseline=base)
    elif case.get("part") == "context_sequence":
        shard_context_sequences(0, res, engine.Ctx("quick", 0))
    elif case.get("part") == "pf":
        def tup(x):
            return tuple(tup(y) for y in x) if isinstance(x, list) else x
        one = (case["pf"], tup(case["arg"]), case["shift"], case["context"])
        run_pf_batch([one], case.get("style", "plain"), case.get("seed", 0), res)
    return ["%s %s %s" % (v["check"], engine.sigkey(v["signature"]), v["detail"]) for v in res.violations]
