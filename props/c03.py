"""C03 — Kalman filter, smoother and likelihood equal exact Gaussian conditioning.

Enumeration: solved stationary models x span length N in 1..4 x ALL 2^(n_y N) missing-data
masks x std settings (model stds, one std scaled, time-varying stds through the data) x
deviation x rescale_variance x dense data vectors.  Oracle: ref/gauss.py (joint normal law
of the whole sample built by explicit stacking from the reported solution matrices;
conditioning by one linear solve).
"""
import contextlib
import io
import itertools

import numpy as np
import irispie as ir

from mc import engine
from ref import linre, gauss

PROPERTY = "C03"
LEVEL = "exploration"
RULE = ("models x N in 1..4 x every missing-data mask of the n_y x N panel x std setting x deviation x rescale_variance "
        "x data vector; distinct non-trivial = (model, N, mask, std setting, deviation, rescale, data)")
MANIFEST_ENTRY = dict(level="exploration", design="DESIGN.md section 4 / C03",
    technique="bounded-exhaustive enumeration of all missing-data masks x configurations on generated state-space models; explicit joint-Gaussian stacking oracle (one linear solve per conditioning set)",
    text="For 13 (quick) / 18 (thorough) solved stationary models (1-4 states, 1-2 observables, with/without measurement shocks, lagged state in the measurement equation, AR(2), coupled oscillating AR(2) pair with complex roots, forward-looking, log observable), every span length N<=3 (quick, N<=4 with one observable; thorough N<=5, N<=6 with one observable) and EVERY missing-data mask of the n_y x N panel, under 3 std settings (incl. time-varying stds from data), deviation on/off, rescale_variance on/off and 2 dense data vectors, the filter's neg_log_likelihood (two entry points), per-period contributions (sum and each one, zero for empty periods), var_scale, predict/update/smooth means and variances of every variable and shock, prediction errors and prediction MSE matrices are compared with exact conditioning of the stacked joint normal law; a two-variant model on two-variant data must reproduce the two single-variant runs (rescale_variance on/off); each output group requested alone (return_predict / return_update / return_smooth) and likelihood_contributions=False must give what the all-outputs run gives.",
    note="Trusted: numpy linear algebra and ref/gauss.py; the solution matrices are taken from get_solution() (decided by C01). Standard deviations are compared as variances; shock stds that the implementation does not report (NaN) are pinned to the set measured on the unchanged tree. Unit-root models are covered under the default diffuse_method='fixed_unknown' only (oracle: GLS-concentrated likelihood in the coordinates of the reported triangular solution); approx_diffuse is not covered.")
ASSUMPTIONS = ["the first-order solution matrices are correct (C01)", "initial condition = stationary law under the model's assigned stds; for unit roots: fixed unknown initial condition of the unit-root block of the reported triangular solution"]

START = ir.qq(2021, 1)


def models(tier):
    mk = linre.make_spec
    L = [
        mk(1, (1,), (0,), 0, "backward", meas="one"),
        mk(1, (1,), (0,), 0, "backward", meas="two"),
        mk(1, (2,), (0,), 0, "backward", meas="one"),
        mk(1, (1,), (1,), 0, "saddle", meas="one"),
        mk(2, (1, 1), (0, 0), -1, "backward", meas="one"),
        mk(2, (1, 1), (0, 1), -1, "saddle", meas="two"),
        mk(2, (1, 0), (0, 1), 0, "saddle", meas="two"),
        mk(1, (1,), (0,), 0, "backward", meas="one", log=True),
        mk(2, (1, 1), (0, 0), -1, "backward", meas="one", log=True),
        mk(1, (1,), (0,), 0, "backward", meas="one", const=False),
    ]
    # two observables without any measurement shock (two transition shocks keep F non-singular)
    s = mk(2, (1, 1), (0, 0), 0, "backward", meas="none")
    s.meas = [dict(terms=[(0, 0, 1.0)], const=0.2, shock=False), dict(terms=[(1, 0, 1.0), (0, -1, 0.3)], const=0.0, shock=False)]
    s.name += "_twoobs_noshock"
    L.append(s)
    # complex-conjugate root pairs, four stable states (exercises the Lyapunov solution of the initial covariance)
    L.append(linre.oscillating_spec("two"))
    # correlated measurement errors: one measurement shock enters both measurement equations
    L.append(linre.shared_measurement_shock_spec())
    # an observable reading a lag that the transition block itself never needs
    L.append(deep_measurement_lag_model())
    if tier != "quick":
        L += [
            mk(3, (1, 1, 1), (0, 1, 0), -1, "saddle", meas="one"),
            mk(2, (2, 1), (1, 0), 1, "saddle", meas="two"),
            mk(2, (1, 1), (1, 1), 0, "saddle", meas="two"),
            mk(1, (2,), (1,), 0, "saddle", meas="two"),
            mk(2, (1, 1), (0, 1), -1, "saddle", meas="two", log=True),
        ]
    return L


def deep_measurement_lag_model():
    """c is a static function of the state x (no lag of c in the transition block); the observable reads c[-1]"""
    S = linre.LinSpec
    x = dict(terms=[(0, -1, 0.7)], const=0.3, shock=True)
    c = dict(terms=[(0, 0, 0.5)], const=0.1, shock=True)
    return S(2, [x, c], [dict(terms=[(1, -1, 1.0)], const=0.2, shock=True), dict(terms=[(0, 0, 1.0)], const=0.0, shock=True)], False, "meas_reads_deeper_lag")


def unit_root_models(tier="quick"):
    """trend + cycle models under the default diffuse_method="fixed_unknown" (no constant: flat steady state)"""
    S = linre.LinSpec
    rw = dict(terms=[(0, -1, 1.0)], const=0.0, shock=True)
    cyc = dict(terms=[(1, -1, 0.6)], const=0.0, shock=True)
    cyc2 = dict(terms=[(1, -1, 0.5), (1, -2, 0.2), (0, 0, 0.1), (0, -1, -0.1)], const=0.0, shock=True)
    # a unit root WITH drift, the drift coming through a stable variable with a non-zero mean (non-flat steady
    # state): the constant vector of the solution then has no fixed point, only its stable block has
    lev = dict(terms=[(0, -1, 1.0), (1, -1, 1.0)], const=0.1, shock=True)
    gr = dict(terms=[(1, -1, 0.6)], const=0.2, shock=True)
    return [
        S(1, [rw], [dict(terms=[(0, 0, 1.0)], const=0.0, shock=True)], False, "ur_local_level"),
        S(2, [lev, gr], [dict(terms=[(0, 0, 1.0)], const=0.0, shock=True), dict(terms=[(1, 0, 1.0)], const=0.5, shock=True)], False,
          "ur_drift_through_stable", flat=False),
        S(2, [rw, cyc], [dict(terms=[(0, 0, 1.0), (1, 0, 1.0)], const=0.0, shock=True)], False, "ur_trend_cycle_one"),
        S(2, [rw, cyc2], [dict(terms=[(0, 0, 1.0), (1, 0, 1.0)], const=0.0, shock=True), dict(terms=[(1, 0, 1.0), (1, -1, 0.5)], const=0.0, shock=False)], False, "ur_trend_cycle_two"),
    ]


def build(spec):
    with contextlib.redirect_stdout(io.StringIO()):
        m = ir.Simultaneous.from_string(spec.source(), linear=not spec.log, flat=spec.flat)
        m.assign(**spec.param_values())
        m.steady()
        m.solve()
    return m


def std_names(spec):
    return (["std_" + spec.shk(i) for i in range(spec.n)], ["std_" + spec.mshk(k) for k, e in enumerate(spec.meas) if e.get("shock")])


def std_settings(spec, N, seed):
    """-> list of (label, model std assignment, per-period overrides or None)"""
    un, wn = std_names(spec)
    r = 1.0 + 0.1 * (seed % 3)
    base = {n: round((0.8 + 0.3 * i) * r, 6) for i, n in enumerate(un)}
    base.update({n: round((0.4 + 0.2 * i) * r, 6) for i, n in enumerate(wn)})
    scaled = dict(base)
    scaled[un[-1]] = base[un[-1]] * 3.0
    tv = {n: [round(base[n] * (1.0 + 0.5 * ((t + i) % 3)), 6) for t in range(N)] for i, n in enumerate(un + wn)}
    return [("model", base, None), ("scaled", scaled, None), ("timevarying", base, tv)]


def data_patterns(ny, N, seed):
    out = []
    for k in (0, 1):
        a = np.array([[0.37 * ((3 * t + 5 * i + 2 * k + seed) % 7) - 1.1 + 0.21 * k * (i + 1) for t in range(N)] for i in range(ny)])
        out.append(a)
    return out


def all_masks(ny, N):
    for bits in itertools.product((0, 1), repeat=ny * N):
        yield np.array(bits, dtype=bool).reshape(ny, N)


class Filtered:
    """one call of the real filter and array views of its output"""

    def __init__(self, spec, m, data_level, mask, N, dev, rescale, tv, via="kalman_filter", extra=None, **kw):
        span = START >> (START + N - 1)
        self.span = span
        db = ir.Databox()
        for i in range(len(spec.meas)):
            vals = np.where(mask[i], data_level[i], np.nan)
            db[spec.obs(i)] = ir.Series(start=START, values=vals.reshape(-1, 1))
        if tv is not None:
            for n, v in tv.items():
                db[n] = ir.Series(start=START, values=np.array(v, dtype=float).reshape(-1, 1))
        for n, v in (extra or {}).items():
            db[n] = ir.Series(start=START, values=np.array(v, dtype=float).reshape(-1, 1))
        self.db = db
        with contextlib.redirect_stdout(io.StringIO()):
            self.out, self.info = m.kalman_filter(db, span, return_info=True, deviation=dev, rescale_variance=rescale,
                                                  stds_from_data=tv is not None, **kw)

    def get(self, key, name, N):
        box = self.out[key]
        if name not in box:
            return None
        return box[name].get_data_from_until((START, START + N - 1))[:, 0].astype(float)


def check_config(spec, m, N, setting, dev, res, ctx, only_mask=None):
    label, base, tv = setting
    name = spec.name
    ny = len(spec.meas)
    sol = m.get_solution()
    vec = m.solution_vectors
    q2n = m.create_qid_to_name()
    unames = [q2n[t.qid] for t in vec.transition_shocks]
    wnames = [q2n[t.qid] for t in vec.measurement_shocks]
    ynames = [q2n[t.qid] for t in vec.measurement_variables]
    xzero = [(i, q2n[t.qid]) for i, t in enumerate(vec.transition_variables) if t.shift == 0]
    su0 = [base["std_" + n] for n in unames]
    su_t = [[(tv["std_" + n][t] if tv else base["std_" + n]) for n in unames] for t in range(N)]
    sw_t = [[(tv["std_" + n][t] if tv else base["std_" + n]) for n in wnames] for t in range(N)]
    H = sol.H if len(wnames) else np.zeros((len(ynames), 0))
    nunit = int(sol.num_unit_roots)
    if nunit:
        # unit roots: fixed unknown initial condition, concentrated likelihood (default diffuse_method)
        J = gauss.JointFixedUnknown(sol.Ta, sol.Pa, sol.Ka, sol.Ua, sol.Za, H, sol.D, nunit, su0, su_t, sw_t, deviation=dev)
    else:
        J = gauss.Joint(sol.T, sol.P, sol.K, sol.Z, H, sol.D, su0, su_t, sw_t, deviation=dev)
    yperm = [ynames.index(spec.obs(i)) for i in range(ny)]      # spec order -> solution order
    is_log = spec.log

    for mask in (all_masks(ny, N) if only_mask is None else [np.array(only_mask, dtype=bool)]):
        cells = [(t, yperm[i]) for t in range(N) for i in range(ny) if mask[i, t]]
        if cells and J.cond_number(cells) > 1e9:
            res.exclude("ill_conditioned_observation_covariance")
            continue
        for ip, pat in enumerate(data_patterns(ny, N, ctx.seed)):
            if is_log:
                pat = pat * 0.1
            # data in the space of the oracle (logs for log models), and in levels for the implementation
            ydata = {(t, yperm[i]): J.my[t][yperm[i]] + pat[i, t] for t in range(N) for i in range(ny)}
            if nunit:
                if J.estimate_delta(cells, ydata) > 1e8:
                    res.exclude("unknown_initial_condition_not_identified")
                    continue
                res.count("unit_root_cases")
            lev = np.array([[ydata[(t, yperm[i])] for t in range(N)] for i in range(ny)])
            lev = np.exp(lev) if is_log else lev
            for rescale in (False, True):
                case = {"spec": spec.to_json(), "N": N, "setting": label, "deviation": dev, "rescale": rescale,
                        "mask": mask.astype(int).tolist(), "pattern": ip}
                sig0 = {"setting": label, "deviation": dev, "rescale": rescale, "log": is_log, "ny": ny,
                        "n_missing": int((~mask).sum()) if (~mask).sum() < 2 else 2}

                def bad(check, detail, **extra):
                    sig = dict(sig0)
                    sig.update(extra)
                    res.violation(check, sig, case, "%s N=%d mask=%s: %s" % (name, N, mask.astype(int).tolist(), detail))
                res.ev()
                try:
                    f = Filtered(spec, m, lev, mask, N, dev, rescale, tv)
                except Exception as e:
                    bad("exception", "%s: %s" % (type(e).__name__, str(e)[:300]), error=type(e).__name__)
                    continue
                res.nt((name, N, label, dev, rescale, mask.tobytes(), ip))
                res.cls("mask_shape", (ny, N, int(mask.sum())))
                if is_log:
                    # log-variables are returned twice in the boxes of means and prediction errors, under their own
                    # name (levels) and under log(name): the two must be the same numbers
                    for key in ("predict_med", "update_med", "smooth_med", "predict_err"):
                        box = f.out[key]
                        for ln in [k_ for k_ in box.keys() if k_.startswith("log(") and k_.endswith(")")]:
                            base = ln[4:-1]
                            if base not in box:
                                continue
                            a_ = box[ln].get_data_from_until((START, START + N - 1))[:, 0].astype(float)
                            b_ = box[base].get_data_from_until((START, START + N - 1))[:, 0].astype(float)
                            with np.errstate(all="ignore"):
                                lb = np.log(b_)
                            res.count("log_named_items_compared")
                            if not np.allclose(a_, lb, rtol=1e-9, atol=1e-10, equal_nan=True):
                                bad("log_named_item", "%s %s = %s, log of %s = %s" % (key, ln, np.round(a_, 8).tolist(), base, np.round(lb, 8).tolist()), what=key)
                nobs = len(cells)
                maha = J.mahalanobis(cells, ydata)
                vs = (maha / nobs) if (rescale and nobs) else 1.0
                scale_ok = vs > 1e-12
                # ---- likelihood -----------------------------------------------------------------
                exp_nll = J.nll(cells, ydata, var_scale=vs) if scale_ok else None
                got_nll = f.info["neg_log_likelihood"]
                if exp_nll is not None and not np.isclose(got_nll, exp_nll, rtol=1e-8, atol=1e-8):
                    bad("neg_log_likelihood", "filter %.12g, exact %.12g" % (got_nll, exp_nll), what="total")
                if rescale and nobs and not np.isclose(f.info["var_scale"], vs, rtol=1e-8, atol=1e-12):
                    bad("var_scale", "filter %.12g, exact %.12g" % (f.info["var_scale"], vs))
                if not rescale and f.info["var_scale"] != 1:
                    bad("var_scale", "var_scale %r without rescale_variance" % (f.info["var_scale"],))
                contrib = f.info["neg_log_likelihood_contributions"].get_data_from_until((START, START + N - 1))[:, 0]
                exp_c = []
                for t in range(N):
                    now = [c for c in cells if c[0] <= t]
                    past = [c for c in cells if c[0] < t]
                    exp_c.append((J.nll(now, ydata, var_scale=vs) - J.nll(past, ydata, var_scale=vs)) if scale_ok else np.nan)
                exp_c = np.array(exp_c)
                if scale_ok:
                    if not np.allclose(contrib, exp_c, rtol=1e-8, atol=1e-8):
                        bad("contributions", "filter %s, exact %s" % (np.round(contrib, 8).tolist(), np.round(exp_c, 8).tolist()), what="each")
                    if not np.isclose(contrib.sum(), got_nll, rtol=1e-9, atol=1e-9):
                        bad("contributions_sum", "sum of contributions %.12g, total %.12g" % (contrib.sum(), got_nll), what="sum")
                for t in range(N):
                    if not any(c[0] == t for c in cells) and contrib[t] != 0:
                        bad("empty_period_contribution", "period %d has no observation but contributes %r" % (t, contrib[t]))
                # second entry point
                if ip == 0 and not rescale:
                    try:
                        with contextlib.redirect_stdout(io.StringIO()):
                            n2 = m.neg_log_likelihood(f.db, f.span, deviation=dev, stds_from_data=tv is not None)
                        if exp_nll is not None and not np.isclose(n2, exp_nll, rtol=1e-8, atol=1e-8):
                            bad("neg_log_likelihood", "neg_log_likelihood() %.12g, exact %.12g" % (n2, exp_nll), what="entry2")
                    except Exception as e:
                        bad("exception", "neg_log_likelihood(): %s: %s" % (type(e).__name__, str(e)[:200]), error=type(e).__name__)
                # ---- moments ----------------------------------------------------------------------
                targets = []
                for t in range(N):
                    for i, n_ in xzero:
                        targets.append((n_, t, J.Ax[t][i:i + 1], J.mx[t][i:i + 1], is_log, J.Bx[t][i:i + 1] if nunit else None))
                    for i, n_ in enumerate(ynames):
                        targets.append((n_, t, J.Ay[t][i:i + 1], J.my[t][i:i + 1], is_log, J.By[t][i:i + 1] if nunit else None))
                    for i, n_ in enumerate(unames):
                        targets.append((n_, t, J.Au[t][i:i + 1], np.zeros(1), False, None))
                    for i, n_ in enumerate(wnames):
                        targets.append((n_, t, J.Aw[t][i:i + 1], np.zeros(1), False, None))
                cellset = set(cells)
                for kind, sel in (("predict", lambda t: [c for c in cells if c[0] < t]),
                                  ("update", lambda t: [c for c in cells if c[0] <= t]),
                                  ("smooth", lambda t: cells)):
                    cache = {}
                    for (n_, t, A, mvec, logged, Bt) in targets:
                        med = f.get(kind + "_med", n_, N)
                        std = f.get(kind + "_std", ("log(%s)" % n_) if logged else n_, N)
                        em, ev = J.condition(sel(t), ydata, A, mvec, Bt)
                        em, ev = float(em[0]), float(max(ev[0, 0], 0.0)) * vs
                        observed_cell = n_[0] == "o" and (t, ynames.index(n_)) in cellset
                        must_report = n_[0] == "v" or observed_cell      # what the implementation stores (pinned)
                        if med is not None and np.isfinite(med[t]):
                            res.count("reported_%s_med_%s" % (kind, n_[0]))
                            g = np.log(med[t]) if logged else med[t]
                            if not np.isclose(g, em, rtol=1e-8, atol=1e-8):
                                bad(kind + "_med", "%s[%d]: filter %.12g, exact %.12g" % (n_, t, g, em), name_kind=n_[0])
                        elif must_report:
                            bad(kind + "_med_missing", "%s[%d] is not reported" % (n_, t), name_kind=n_[0])
                        if std is not None and np.isfinite(std[t]):
                            res.count("reported_%s_std_%s" % (kind, n_[0]))
                            if scale_ok and not np.isclose(std[t] ** 2, ev, rtol=1e-7, atol=1e-9):
                                bad(kind + "_std", "%s[%d]: filter variance %.12g, exact %.12g" % (n_, t, std[t] ** 2, ev), name_kind=n_[0])
                        elif n_[0] == "v":
                            bad(kind + "_std_missing", "%s[%d] is not reported" % (n_, t), name_kind=n_[0])
                # ---- prediction errors and their MSE ---------------------------------------------------------
                for i in range(ny):
                    pe = f.get("predict_err", spec.obs(i), N)
                    if pe is None:
                        bad("predict_err_missing", spec.obs(i))
                        continue
                    for t in range(N):
                        if mask[i, t]:
                            em, _ = J.condition([c for c in cells if c[0] < t], ydata, J.Ay[t][yperm[i]:yperm[i] + 1], J.my[t][yperm[i]:yperm[i] + 1],
                                                J.By[t][yperm[i]:yperm[i] + 1] if nunit else None)
                            got_pe = np.log(pe[t]) if is_log else pe[t]       # for log-variables the level entry is the ratio
                            if not np.isclose(got_pe, ydata[(t, yperm[i])] - em[0], rtol=1e-8, atol=1e-8):
                                bad("predict_err", "%s[%d]: filter %.12g, exact %.12g" % (spec.obs(i), t, pe[t], ydata[(t, yperm[i])] - em[0]))
                        elif np.isfinite(pe[t]):
                            bad("predict_err", "%s[%d] is missing in the data but has a prediction error" % (spec.obs(i), t))
                try:
                    mse = f.out["predict_mse_obs"][0]
                    for t in range(N):
                        now = sorted(c[1] for c in cells if c[0] == t)
                        Ft = np.asarray(mse[t], dtype=float) if (t < len(mse) and mse[t] is not None) else np.zeros((0, 0))
                        if not now:
                            if Ft.size:
                                bad("predict_mse_obs", "period %d has no observations but a %r MSE matrix" % (t, Ft.shape))
                            continue
                        A = np.vstack([J.Ay[t][i] for i in now])
                        _, ev = J.condition([c for c in cells if c[0] < t], ydata, A, np.zeros(len(now)))
                        if Ft.shape != ev.shape or not np.allclose(Ft, ev * (vs if False else 1.0), rtol=1e-7, atol=1e-9):
                            bad("predict_mse_obs", "period %d: filter %s exact %s" % (t, np.round(Ft, 8).tolist(), np.round(ev, 8).tolist()))
                except Exception as e:
                    bad("exception", "predict_mse_obs: %s: %s" % (type(e).__name__, str(e)[:200]), error=type(e).__name__)
    res.sample({"model": name, "N": N, "setting": label, "deviation": dev, "masks": 2 ** (ny * N)})


def scaled(spec, factor):
    d = spec.to_json()
    for e in d["eqs"]:
        e["terms"] = [(j, s_, c * (factor if abs(c) != 1.0 else 1.0)) for (j, s_, c) in e["terms"]]
    sp = linre.LinSpec.from_json(d)
    sp.name = spec.name + "_scaled"
    return sp


def check_variants(spec, m, N, setting, dev, res, ctx):
    """a two-variant model (different coefficients and stds) filtered on two-variant data must give, variant by
    variant, what the two single-variant models give on their own data"""
    label, base, tv = setting
    if tv is not None:
        return
    ny = len(spec.meas)
    spec_b = scaled(spec, 0.9)
    if spec_b.classify()["kind"] != "determinate":
        res.exclude("variant_parameters_not_determinate")
        return
    base_b = {k: v * 1.5 for k, v in base.items()}
    m_b = build(spec_b)
    m_b.assign(**base_b)
    with contextlib.redirect_stdout(io.StringIO()):
        m2 = m.copy()
        m2.alter_num_variants(2)
        pa, pb = spec.param_values(), spec_b.param_values()
        m2.assign(**{k: [pa[k], pb[k]] for k in pa})
        m2.assign(**{k: [base[k], base_b[k]] for k in base})
        m2.steady()
        m2.solve()
    masks = list(all_masks(ny, N))
    pick = [masks[-1], masks[len(masks) // 2], masks[1] if len(masks) > 1 else masks[0]]
    pats = data_patterns(ny, N, ctx.seed)
    keys = ("predict_med", "predict_std", "update_med", "update_std", "smooth_med", "smooth_std", "predict_err")
    for mask in pick:
        lev = []
        for k, (sp_, mod) in enumerate(((spec, m), (spec_b, m_b))):
            pat = pats[k] * (0.1 if spec.log else 1.0)
            ss = np.zeros(ny) if dev or sp_.steady() is None else np.array([sum(c * sp_.steady()[j] for (j, s_, c) in e["terms"]) + e.get("const", 0.0) for e in sp_.meas])
            a = ss[:, None] + pat
            lev.append(np.exp(a) if spec.log else a)
        case = {"spec": spec.to_json(), "N": N, "setting": label, "deviation": dev, "rescale": False, "mask": mask.astype(int).tolist(), "pattern": "variants"}

        def bad(check, detail, **extra):
            sig = {"setting": label, "deviation": dev, "log": spec.log, "ny": ny, "what": "variants"}
            sig.update(extra)
            res.violation(check, sig, case, "%s N=%d mask=%s: %s" % (spec.name, N, mask.astype(int).tolist(), detail))
        for rescale in (False, True):
            case = dict(case, rescale=rescale)
            try:
                singles = [Filtered(spec, m, lev[0], mask, N, dev, rescale, None), Filtered(spec_b, m_b, lev[1], mask, N, dev, rescale, None)]
                span = START >> (START + N - 1)
                db = ir.Databox()
                for i in range(ny):
                    cols = np.column_stack([np.where(mask[i], lev[k][i], np.nan) for k in range(2)])
                    db[spec.obs(i)] = ir.Series(start=START, values=cols)
                with contextlib.redirect_stdout(io.StringIO()):
                    out2, info2 = m2.kalman_filter(db, span, return_info=True, deviation=dev, rescale_variance=rescale)
                res.ev(3)
                res.nt((spec.name, N, label, dev, mask.tobytes(), "variants", rescale))
                res.count("variant_runs")
                for k in range(2):
                    i2 = info2[k] if isinstance(info2, (list, tuple)) else info2
                    if not np.isclose(i2["neg_log_likelihood"], singles[k].info["neg_log_likelihood"], rtol=1e-9, atol=1e-9, equal_nan=True):
                        # (both NaN: variance rescaling with no effective observation left, e.g. a single observation
                        # absorbed by the unknown initial condition of a unit root - 0/0 in either run)
                        bad("variant_mismatch", "variant %d: neg_log_likelihood %.12g, single-variant model %.12g" % (k, i2["neg_log_likelihood"], singles[k].info["neg_log_likelihood"]), rescale=rescale)
                    for key in keys:
                        for n_ in singles[k].out[key].keys():
                            a1 = singles[k].out[key][n_].get_data_from_until((START, START + N - 1))[:, 0]
                            if n_ not in out2[key]:
                                bad("variant_mismatch", "variant run lacks %s %s" % (key, n_), rescale=rescale)
                                continue
                            a2 = out2[key][n_].get_data_from_until((START, START + N - 1))
                            col = a2[:, k] if a2.shape[1] > 1 else a2[:, 0]
                            if not np.allclose(col, a1, rtol=1e-8, atol=1e-9, equal_nan=True):
                                bad("variant_mismatch", "variant %d %s %s (rescale_variance=%s): two-variant run %s, single-variant model %s"
                                    % (k, key, n_, rescale, np.round(col, 8).tolist(), np.round(a1, 8).tolist()), rescale=rescale)
                                break
            except Exception as e:
                bad("exception", "variants: %s: %s" % (type(e).__name__, str(e)[:300]), error=type(e).__name__, rescale=rescale)


def check_requested_outputs(spec, m, N, setting, dev, res, ctx):
    """what one asks the filter to return must not change what it returns: each output requested alone (and the
    likelihood without per-period contributions) equals the same output of the run that returns everything"""
    label, base, tv = setting
    if tv is not None:
        return
    ny = len(spec.meas)
    masks = list(all_masks(ny, N))
    pick = [masks[-1], masks[len(masks) // 2], masks[(2 * len(masks)) // 3]]
    pat = data_patterns(ny, N, ctx.seed)[1] * (0.1 if spec.log else 1.0)
    st = spec.steady()
    ss = np.zeros(ny) if dev or st is None else np.array([sum(c * st[j] for (j, s_, c) in e["terms"]) + e.get("const", 0.0) for e in spec.meas])
    lev = ss[:, None] + pat
    lev = np.exp(lev) if spec.log else lev
    # (prediction errors are filled in by the updating step only: without return_update the predict_err box is
    # all-missing - outside the statement, recorded in DESIGN.md, not gated)
    groups = {"predict": ("predict_med", "predict_std"), "update": ("update_med", "update_std", "predict_err"),
              "smooth": ("smooth_med", "smooth_std")}
    for mask in pick:
        case = {"spec": spec.to_json(), "N": N, "setting": label, "deviation": dev, "rescale": False, "mask": mask.astype(int).tolist(), "pattern": "requested_outputs"}

        def bad(check, detail, **extra):
            sig = {"setting": label, "deviation": dev, "log": spec.log, "ny": ny, "what": "requested_outputs"}
            sig.update(extra)
            res.violation(check, sig, case, "%s N=%d mask=%s: %s" % (spec.name, N, mask.astype(int).tolist(), detail))
        try:
            full = Filtered(spec, m, lev, mask, N, dev, False, None)
            for only, keys in groups.items():
                kw = {"return_" + g: (g == only) for g in ("predict", "update", "smooth")}
                part = Filtered(spec, m, lev, mask, N, dev, False, None, **kw)
                res.ev()
                res.count("requested_output_runs")
                res.nt((spec.name, N, label, dev, mask.tobytes(), "requested", only))
                if not np.isclose(part.info["neg_log_likelihood"], full.info["neg_log_likelihood"], rtol=1e-10, atol=1e-10, equal_nan=True):
                    bad("requested_outputs", "only %s requested: neg_log_likelihood %.12g, all outputs requested %.12g"
                        % (only, part.info["neg_log_likelihood"], full.info["neg_log_likelihood"]), only=only)
                for key in keys:
                    if key not in part.out:
                        bad("requested_outputs", "only %s requested: %s is not returned" % (only, key), only=only)
                        continue
                    for n_ in full.out[key].keys():
                        a = full.out[key][n_].get_data_from_until((START, START + N - 1))[:, 0]
                        if n_ not in part.out[key]:
                            bad("requested_outputs", "only %s requested: %s %s is not returned" % (only, key, n_), only=only)
                            break
                        b = part.out[key][n_].get_data_from_until((START, START + N - 1))[:, 0]
                        if not np.allclose(a, b, rtol=1e-10, atol=1e-12, equal_nan=True):
                            bad("requested_outputs", "only %s requested: %s %s = %s, all outputs requested %s"
                                % (only, key, n_, np.round(b, 9).tolist(), np.round(a, 9).tolist()), only=only)
                            break
            nc = Filtered(spec, m, lev, mask, N, dev, False, None, likelihood_contributions=False)
            res.ev()
            if not np.isclose(nc.info["neg_log_likelihood"], full.info["neg_log_likelihood"], rtol=1e-10, atol=1e-10, equal_nan=True):
                bad("requested_outputs", "likelihood_contributions=False: neg_log_likelihood %.12g vs %.12g"
                    % (nc.info["neg_log_likelihood"], full.info["neg_log_likelihood"]), only="no_contributions")
        except Exception as e:
            bad("exception", "requested outputs: %s: %s" % (type(e).__name__, str(e)[:300]), error=type(e).__name__)


def shard(item, res, ctx):
    spec = linre.LinSpec.from_json(item["spec"])
    m = build(spec)
    N = item["N"]
    setting = std_settings(spec, N, ctx.seed)[item["setting"]]
    m.assign(**setting[1])
    check_config(spec, m, N, setting, item["dev"], res, ctx)
    check_variants(spec, m, N, setting, item["dev"], res, ctx)
    check_requested_outputs(spec, m, N, setting, item["dev"], res, ctx)
    if item["setting"] == 0 and N == 3:
        # a HISTORY on the solved object: other stds are assigned WITHOUT solving again (the usual likelihood loop over
        # stds), then the object is filtered again: everything belongs to the stds in force now
        nxt = std_settings(spec, N, ctx.seed)[1]
        m.assign(**nxt[1])
        res.count("std_reassigned_on_solved_object")
        ny = len(spec.meas)
        full = np.ones((ny, N), dtype=bool)
        gap = full.copy()
        gap[0, 1] = False
        for mask in (full, gap):
            check_config(spec, m, N, nxt, item["dev"], res, ctx, only_mask=mask)


def run(ctx, total, info):
    shards = []
    for spec in models(ctx.tier) + unit_root_models(ctx.tier)[: (3 if ctx.quick else 4)]:
        ny = len(spec.meas)
        maxN = (3 if ny == 2 else 4) if ctx.quick else (5 if ny == 2 else 6)
        for N in range(1, maxN + 1):
            for s in range(3):
                for dev in (False, True):
                    shards.append({"spec": spec.to_json(), "N": N, "setting": s, "dev": dev, "w": 2 ** (ny * N)})
    shards.sort(key=lambda s: -s["w"])
    engine.run_shards(__name__, "shard", shards, ctx, total)
    info["exhaustive"] = True
    info["models"] = len(models(ctx.tier))
    info["floors"] = {"filter_calls": (total.evaluations, 8000), "mask_shapes": (len(total.classes.get("mask_shape", ())), 20),
                      "unit_root_cases": (total.counters.get("unit_root_cases", 0), 500),
                      "variant_runs": (total.counters.get("variant_runs", 0), 400),
                      "requested_output_runs": (total.counters.get("requested_output_runs", 0), 1000),
                      "log_named_items_compared": (total.counters.get("log_named_items_compared", 0), 5000),
                      "std_reassigned_on_solved_object": (total.counters.get("std_reassigned_on_solved_object", 0), 20)}
    # the moments the implementation reports (finite cells) are pinned: none of these classes may disappear
    c = total.counters
    for key in ("predict_med_v", "predict_med_o", "predict_med_e", "predict_med_w", "update_med_v", "update_med_o", "update_med_e",
                "update_med_w", "smooth_med_v", "smooth_med_o", "smooth_med_e", "smooth_med_w", "predict_std_v", "update_std_v",
                "smooth_std_v", "predict_std_e", "predict_std_w"):
        info["floors"]["reported_" + key] = (c.get("reported_" + key, 0), 2000)


def replay(case):
    res = engine.Result()
    spec = linre.LinSpec.from_json(case["spec"])
    m = build(spec)
    idx = {"model": 0, "scaled": 1, "timevarying": 2}[case["setting"]]
    setting = std_settings(spec, case["N"], 0)[idx]
    m.assign(**setting[1])
    check_config(spec, m, case["N"], setting, case["deviation"], res, engine.Ctx("quick", 0), only_mask=case["mask"])
    return ["%s %s %s" % (v["check"], engine.sigkey(v["signature"]), v["detail"]) for v in res.violations]
