"""C15 — model-implied autocovariances solve the solved model's Lyapunov equation.

Enumeration: every determinate model of the C01 family (plus hand-built unit-root mixtures)
x std vectors x orders 0..3 x variants {1, 3}.  Oracle: stationary covariance of the
first-order solution (T, P, Z, H from get_solution()) by summing its moving-average
representation (1500 terms), cross-checked by a direct Kronecker Lyapunov solve.
"""
import contextlib
import io
import itertools

import numpy as np
import irispie as ir

from mc import engine
from ref import linre

PROPERTY = "C15"
LEVEL = "exploration"
RULE = ("every determinate model of the generated linear RE family (C01) and 7 unit-root mixtures x 4 std vectors x "
        "orders 0..3 x {single variant, 3 variants with different stds}; distinct non-trivial = (model, std vector, variant mode)")
MANIFEST_ENTRY = dict(level="exploration", design="DESIGN.md section 4 / C15",
    technique="bounded-exhaustive enumeration of solved generated models x std vectors x orders; independent moving-average-sum oracle cross-checked by a Kronecker Lyapunov solve",
    text="For every determinate model of the generated family (quick ~370, thorough ~1700 models incl. log-variable and unit-root ones) x 4 std vectors x orders 0..3, get_acov must equal the harness's own stationary autocovariances T^j*Omega of the reported first-order solution (1500-term moving-average sums of the reported solution, self-checked against a direct Kronecker Lyapunov solve on fully stationary models), measurement block Z*Omega*Z'+H*Sw*H' and cross blocks in the order of get_acov_dimension_names(); variables loading on a unit eigenvector must be NaN and all others finite; get_acorr must be the acov scaled by order-0 stds; rescale_stds(s) must scale everything by s^2; variant k of a 3-variant model must equal the single-variant result.",
    note="Trusted: numpy eig / solve; the first-order solution itself is taken as given (validated by C01). Models whose slowest stationary root leaves the MA tail undecided after 1500 terms are excluded by the oracle and counted.")
ASSUMPTIONS = ["the first-order solution matrices (T, P, Z, H) are correct (decided by C01)"]


def extra_unit_root_specs():
    S = linre.LinSpec
    out = []
    rw = dict(terms=[(0, -1, 1.0)], const=0.0, shock=True)
    ar = dict(terms=[(1, -1, 0.6), (1, +1, 0.2)], const=0.1, shock=True)
    out.append(S(2, [rw, ar], [dict(terms=[(0, 0, 1.0)], const=0.0, shock=True), dict(terms=[(1, 0, 1.0)], const=0.5, shock=False)], False, "ur_independent"))
    coint = dict(terms=[(1, -1, 0.5), (0, 0, 0.4), (0, -1, -0.4)], const=0.0, shock=True)
    out.append(S(2, [rw, coint], [dict(terms=[(1, 0, 1.0), (0, 0, 0.0)], const=0.0, shock=True)], False, "ur_difference"))
    mix = dict(terms=[(2, -1, 0.5), (0, 0, 0.5)], const=0.0, shock=True)
    out.append(S(3, [rw, coint, mix], [dict(terms=[(1, 0, 1.0)], const=0.0, shock=True), dict(terms=[(2, 0, 1.0)], const=0.0, shock=False)], False, "ur_mixture"))
    out.append(S(1, [rw], [dict(terms=[(0, 0, 1.0), (0, -1, -1.0)], const=0.0, shock=True)], False, "ur_pure_diffobs"))
    ar2 = dict(terms=[(1, -1, 1.1), (1, -2, -0.3)], const=0.2, shock=True)
    out.append(S(2, [rw, ar2], [dict(terms=[(1, 0, 2.0)], const=0.0, shock=False)], False, "ur_ar2"))
    fwd = dict(terms=[(1, +1, 0.5), (0, 0, 0.3), (0, -1, -0.3)], const=0.0, shock=True)
    out.append(S(2, [rw, fwd], [dict(terms=[(1, 0, 1.0)], const=0.0, shock=True)], False, "ur_forward"))
    # two unit roots: symmetric random walks a, b, a stationary c, and variables that load on the two with
    # equal and with opposite signs (tot = a + b + c, spr = a - b + c): the loadings of spr on the unit-root part cancel
    # when summed but not entry by entry; observed: a - b + noise, c
    rwa = dict(terms=[(0, -1, 1.0)], const=0.0, shock=True)
    rwb = dict(terms=[(1, -1, 1.0)], const=0.0, shock=True)
    cc = dict(terms=[(2, -1, 0.5)], const=0.0, shock=True)
    tot = dict(terms=[(0, 0, 1.0), (1, 0, 1.0), (2, 0, 1.0)], const=0.0, shock=False)
    spr = dict(terms=[(0, 0, 1.0), (1, 0, -1.0), (2, 0, 1.0)], const=0.0, shock=False)
    out.append(S(5, [rwa, rwb, cc, tot, spr], [dict(terms=[(0, 0, 1.0), (1, 0, -1.0)], const=0.0, shock=True),
                                              dict(terms=[(2, 0, 1.0)], const=0.0, shock=False)], False, "ur_two_symmetric"))
    # a loading on the unit root that is tiny but far above the eigenvalue tolerance (1e-7 vs 1e-12): z = x + 1e-7*rw is
    # non-stationary all the same, and so is the observable that reads the random walk with weight 1e-7 (round-7 seed C15_k)
    tiny = dict(terms=[(1, 0, 1.0), (0, 0, 1e-7)], const=0.0, shock=False)
    out.append(S(3, [rw, dict(terms=[(1, -1, 0.5)], const=0.0, shock=True), tiny],
                 [dict(terms=[(2, 0, 1.0)], const=0.0, shock=True), dict(terms=[(1, 0, 1.0), (0, 0, 1e-7)], const=0.0, shock=False),
                  dict(terms=[(1, 0, 1.0)], const=0.0, shock=False)], False, "ur_tiny_loading"))
    out.append(linre.oscillating_spec("two"))
    out.append(linre.oscillating_spec("one"))
    out.append(linre.shared_measurement_shock_spec())
    out += linre.unit_root_declared_last_specs()
    return out


def std_vectors(spec, seed):
    names = ["std_" + spec.shk(i) for i in range(spec.n) if spec.eqs[i].get("shock", True)] + ["std_" + spec.mshk(k) for k, e in enumerate(spec.meas) if e.get("shock")]
    r = 1.0 + 0.1 * (seed % 3)
    return names, [
        [1.0 * r] * len(names),
        [round(0.5 * r + 0.4 * i, 6) for i in range(len(names))],
        [0.0 if i == 0 else 1.3 * r for i in range(len(names))],
        # very small stds (variances around 1e-13): correlations do not depend on the common scale
        [3e-7 * round(0.5 * r + 0.4 * i, 6) for i in range(len(names))],
    ]


def oracle(sol, vec, su, sw, order, n_terms=1500):
    """Stationary autocovariances from the moving-average representation of the reported solution:
    Theta_k = [Phi_k (zero-shift states); Z Phi_k] with Phi_k = T^k P, cov_j = sum_k Theta_{k+j} Su Theta_k'
    (+ H Sw H' on the measurement block at order 0).  A row whose MA coefficients do not die out is
    non-stationary (loads on a unit root).  Returns (list of matrices, non-stationarity mask) or None."""
    T, P, Z, H = (np.asarray(x, dtype=float) for x in (sol.T, sol.P, sol.Z, sol.H))
    zero = [i for i, t in enumerate(vec.transition_variables) if t.shift == 0]
    Su = np.diag(np.asarray(su, dtype=float) ** 2)
    Sw = np.diag(np.asarray(sw, dtype=float) ** 2) if len(sw) else np.zeros((0, 0))
    nz, ny = len(zero), Z.shape[0]
    nr = nz + ny
    thetas = []
    Phi = P.copy()
    for _ in range(n_terms + order + 1):
        thetas.append(np.vstack([Phi[zero, :], Z @ Phi]))
        Phi = T @ Phi
    tail = np.abs(thetas[-1]).max(axis=1)
    mid = np.abs(thetas[len(thetas) // 2]).max(axis=1)
    top = max(1.0, max(np.abs(t).max() for t in thetas[:50]))
    mask = tail > 1e-9 * top
    # slowly decaying but stationary rows (tail not yet negligible although shrinking) cannot be decided: give up
    if np.any(mask & (tail < 0.5 * mid)):
        return None
    if not np.all(np.isfinite(tail)):
        return None
    covs = []
    for j in range(order + 1):
        C = np.zeros((nr, nr))
        for k in range(n_terms):
            C += thetas[k + j] @ Su @ thetas[k].T
        if j == 0 and Sw.size:
            C[nz:, nz:] += H @ Sw @ H.T
        covs.append(C)
    # self-check against a direct Kronecker Lyapunov solve when the whole state is stationary
    if not mask.any():
        nx = T.shape[0]
        A = np.eye(nx * nx) - np.kron(T, T)
        if np.linalg.cond(A) < 1e8:
            Om = np.linalg.solve(A, (P @ Su @ P.T).reshape(-1)).reshape(nx, nx)
            if not np.allclose(Om[np.ix_(zero, zero)], covs[0][:nz, :nz], rtol=1e-7, atol=1e-10):
                raise RuntimeError("oracle self-check failed: MA sum vs Kronecker Lyapunov")
    return covs, mask


def build(spec):
    with contextlib.redirect_stdout(io.StringIO()):
        m = ir.Simultaneous.from_string(spec.source(), linear=not spec.log, flat=spec.flat)
        m.assign(**spec.param_values())
        m.steady()
        m.solve()
    return m


def close(a, b, scale):
    return np.allclose(a, b, rtol=1e-7, atol=1e-9 * max(1.0, scale))


def check_model(spec, res, ctx):
    cls = spec.classify()
    if cls["kind"] != "determinate":
        res.exclude("not_determinate")
        return
    name = spec.name
    case0 = {"spec": spec.to_json()}

    def bad(check, detail, **extra):
        sig = {"unit_roots": bool(cls.get("num_unit")), "log": spec.log}
        sig.update({k: v for k, v in extra.items() if k in ("order", "error", "what")})
        res.violation(check, sig, dict(case0, **extra), "%s: %s" % (name, detail))
    m = build(spec)
    K = 3
    names, vectors = std_vectors(spec, ctx.seed)
    rows_expected = [spec.var(j) for j in range(spec.n)] + [spec.obs(k) for k in range(len(spec.meas))]
    results = []
    for iv, stds in enumerate(vectors):
        res.ev()
        try:
            m.assign(**dict(zip(names, stds)))
            dn = m.get_acov_dimension_names()
            rows = list(dn.rows)
            ac = m.get_acov(up_to_order=K)
            co = m.get_acorr(up_to_order=K)
        except Exception as e:
            bad("exception", "%s: %s" % (type(e).__name__, str(e)[:200]), error=type(e).__name__, stds=stds)
            continue
        rows = [r[4:-1] if r.startswith("log(") and r.endswith(")") else r for r in rows]
        if spec.log and list(dn.rows) != ["log(%s)" % r for r in rows]:
            bad("dimension_names", "log-variables are expected to be labelled log(name): %r" % (list(dn.rows),))
        if sorted(rows) != sorted(rows_expected) or list(dn.columns) != list(dn.rows):
            bad("dimension_names", "rows %r columns %r expected the current-dated %r" % (rows, list(dn.columns), rows_expected))
            continue
        sol = m.get_solution()
        vec = m.solution_vectors
        q2n = m.create_qid_to_name()
        su = [stds[names.index("std_" + q2n[t.qid])] for t in vec.transition_shocks]
        sw = [stds[names.index("std_" + q2n[t.qid])] for t in vec.measurement_shocks]
        o = oracle(sol, vec, su, sw, K)
        if o is None:
            res.exclude("oracle_ill_conditioned")
            continue
        covs, mask = o
        oracle_rows = [q2n[t.qid] for t in vec.transition_variables if t.shift == 0] + [q2n[t.qid] for t in vec.measurement_variables]
        perm = [oracle_rows.index(r) for r in rows]
        res.nt((name, iv, "single"))
        res.cls("nan_pattern", tuple(mask.tolist()))
        if len(ac) != K + 1 or len(co) != K + 1:
            bad("orders", "requested up_to_order=%d, got %d matrices" % (K, len(ac)))
            continue
        scale = float(np.nanmax(np.abs(covs[0]))) if covs[0].size else 1.0
        for j in range(K + 1):
            exp = covs[j][np.ix_(perm, perm)]
            nanmask = mask[perm]
            expn = exp.copy()
            expn[nanmask, :] = np.nan
            expn[:, nanmask] = np.nan
            got = np.asarray(ac[j], dtype=float)
            if got.shape != expn.shape:
                bad("shape", "order %d: %r vs %r" % (j, got.shape, expn.shape), order=j)
                continue
            if not np.array_equal(np.isnan(got), np.isnan(expn)):
                bad("nan_pattern", "order %d: NaN pattern %s, oracle says non-stationary variables are %s" %
                    (j, np.isnan(got).astype(int).tolist(), [r for r, f in zip(rows, nanmask) if f]), order=j, what="nan", stds=stds)
                continue
            fin = ~np.isnan(expn)
            if not close(got[fin], expn[fin], scale):
                bad("acov_value", "order %d stds %r: max abs error %.3e (scale %.3g)" % (j, stds, np.max(np.abs(got[fin] - expn[fin])), scale),
                    order=min(j, 1), what="acov", stds=stds)
            # acorr = acov scaled by order-0 stds
            sd = np.sqrt(np.maximum(np.diag(covs[0][np.ix_(perm, perm)]), 0.0))
            with np.errstate(all="ignore"):
                expc = exp / np.outer(sd, sd)
            expc[nanmask, :] = np.nan
            expc[:, nanmask] = np.nan
            gotc = np.asarray(co[j], dtype=float)
            tiny = sd <= 1e-6 * np.sqrt(scale)      # correlation with a (relative to the others) constant variable is not defined
            expc[tiny, :] = np.nan
            expc[:, tiny] = np.nan
            ok_cells = np.isfinite(expc)
            if not np.allclose(gotc[ok_cells], expc[ok_cells], rtol=1e-7, atol=1e-9):
                bad("acorr_value", "order %d stds %r: max abs error %.3e" % (j, stds, np.nanmax(np.abs(gotc[ok_cells] - expc[ok_cells]))),
                    order=min(j, 1), what="acorr", stds=stds)
        results.append((stds, [np.asarray(a, dtype=float) for a in ac]))
        # the same matrices whichever way they are asked for: a smaller up_to_order is a prefix, get_acorr from
        # supplied autocovariances equals get_acorr computed by the model, the default call is order 0
        try:
            res.ev()
            res.count("call_form_runs")
            for kk in (0, 1):
                part = m.get_acov(up_to_order=kk)
                partc = m.get_acorr(up_to_order=kk)
                if len(part) != kk + 1 or any(not np.array_equal(np.asarray(part[j], dtype=float), np.asarray(ac[j], dtype=float), equal_nan=True) for j in range(min(kk + 1, len(part)))):
                    bad("call_form", "get_acov(up_to_order=%d) is not the prefix of get_acov(up_to_order=%d)" % (kk, K), what="call_form", stds=stds)
                if len(partc) != kk + 1 or any(not np.array_equal(np.asarray(partc[j], dtype=float), np.asarray(co[j], dtype=float), equal_nan=True) for j in range(min(kk + 1, len(partc)))):
                    bad("call_form", "get_acorr(up_to_order=%d) is not the prefix of get_acorr(up_to_order=%d)" % (kk, K), what="call_form", stds=stds)
            d0 = m.get_acov()
            if len(d0) != 1 or not np.array_equal(np.asarray(d0[0], dtype=float), np.asarray(ac[0], dtype=float), equal_nan=True):
                bad("call_form", "get_acov() is not order 0 of get_acov(up_to_order=%d)" % K, what="call_form", stds=stds)
            co2 = m.get_acorr(acov=ac)
            if len(co2) != len(co) or any(not np.allclose(np.asarray(co2[j], dtype=float), np.asarray(co[j], dtype=float), rtol=1e-12, atol=1e-14, equal_nan=True) for j in range(len(co))):
                bad("call_form", "get_acorr(acov=get_acov(...)) differs from get_acorr(up_to_order=%d)" % K, what="call_form", stds=stds)
        except Exception as e:
            bad("exception", "call forms: %s: %s" % (type(e).__name__, str(e)[:200]), error=type(e).__name__, stds=stds)
    # rescaling
    for s in (0.5, 3.0):
        res.ev()
        try:
            m.assign(**dict(zip(names, vectors[1])))
            before = [np.asarray(a, dtype=float) for a in m.get_acov(up_to_order=1)]
            m.rescale_stds(s)
            after = [np.asarray(a, dtype=float) for a in m.get_acov(up_to_order=1)]
            for a, b in zip(before, after):
                if not np.allclose(b, a * s * s, rtol=1e-9, atol=1e-12, equal_nan=True):
                    bad("rescale", "rescale_stds(%g) does not scale autocovariances by %g" % (s, s * s), what="rescale")
                    break
        except Exception as e:
            bad("exception", "rescale: %s: %s" % (type(e).__name__, str(e)[:200]), error=type(e).__name__)
    # variants: variant k of a 3-variant model == single-variant result
    if results and len(results) == len(vectors):
        res.ev()
        res.count("variant_runs")
        try:
            m3 = m.copy()
            m3.alter_num_variants(3)
            m3.assign(**{n: [vectors[k][i] for k in range(3)] for i, n in enumerate(names)})
            ac3 = m3.get_acov(up_to_order=K)
            res.nt((name, "variants"))
            for k in range(3):
                for j in range(K + 1):
                    if not np.allclose(np.asarray(ac3[k][j], dtype=float), results[k][1][j], rtol=1e-9, atol=1e-12, equal_nan=True):
                        bad("variant_mismatch", "variant %d order %d differs from the single-variant model with the same stds" % (k, j), what="variant")
                        break
            # scaling all stds of a multi-variant model scales every variant's autocovariances
            m3.rescale_stds(3.0)
            ac3s = m3.get_acov(up_to_order=1)
            res.ev()
            for k in range(3):
                for j in range(2):
                    if not np.allclose(np.asarray(ac3s[k][j], dtype=float), 9.0 * np.asarray(ac3[k][j], dtype=float), rtol=1e-9, atol=1e-12, equal_nan=True):
                        bad("rescale", "3-variant model: rescale_stds(3) does not scale variant %d order %d by 9" % (k, j), what="rescale_variants")
                        break
        except Exception as e:
            bad("exception", "variants: %s: %s" % (type(e).__name__, str(e)[:200]), error=type(e).__name__)
    res.sample({"model": name, "rows": rows_expected, "nonstationary": bool(cls.get("num_unit"))})


def shard(item, res, ctx):
    spec = linre.LinSpec.from_json(item)
    try:
        check_model(spec, res, ctx)
    except RuntimeError:
        raise
    except Exception as e:
        import traceback
        res.violation("harness_or_api_exception", {"error": type(e).__name__}, {"spec": item}, traceback.format_exc()[-900:])


def run(ctx, total, info):
    fam = linre.family(ctx.tier, ctx.seed) + extra_unit_root_specs()
    engine.run_shards(__name__, "shard", [s.to_json() for s in fam], ctx, total)
    info["models"] = len(fam)
    info["exhaustive"] = True
    info["floors"] = {"cases": (len(total.nontrivial), 600), "nan_patterns": (len(total.classes.get("nan_pattern", ())), 4),
                      "variant_runs": (total.counters.get("variant_runs", 0), 200),
                      "call_form_runs": (total.counters.get("call_form_runs", 0), 1000)}


def replay(case):
    res = engine.Result()
    check_model(linre.LinSpec.from_json(case["spec"]), res, engine.Ctx("quick", 0))
    return ["%s %s %s" % (v["check"], engine.sigkey(v["signature"]), v["detail"]) for v in res.violations]
