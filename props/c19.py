"""C19 — databox, dataslate and CSV conversions are lossless on selected names and span.

Part (i)   enumeration: CSV round trip of every sub-databox of <= 3 items of a fixed pool
           x description_row x round x names / span / frequency_span selections.
Part (ii)  enumeration: Databox -> Dataslate -> Databox for every name selection x span position
           x num_variants x fallbacks x overwrites (plain route and the Slatable route with
           initial / terminal extension, base-span clipping, output names).
Part (iii) explicit-state BFS over Databox operation histories, every transition compared with the
           plain-dict reference in ref/c19box.py, untouched names bitwise unchanged, copy isolation.
"""
import functools
import itertools
import os
import shutil
import tempfile

import numpy as np

import irispie as ir
from irispie.dataslates.main import Dataslate
from irispie.dataslates._slatables import Slatable

from mc import engine
from ref import calendar as C
from ref import c19box as R
from ref.c19box import RS, NAN

PROPERTY = "C19"
LEVEL = "model_checking"
RULE = ("(i) every sub-databox of <= 3 items of a pool of 17 series (all six frequencies, 1 and 3 variants, "
        "interior / leading-in-one-variant / trailing missing values, descriptions with commas, quotes, spaces, "
        "empty; one empty series) + scalar + list, x description_row x round in {12,3} x names / span / "
        "frequency_span selections; non-trivial = distinct (items, options) that export at least one observation. "
        "(ii) every name selection of <= 3 of 7 names (series 1/2/3 variants, scalar, list, empty series, missing) "
        "x 8 span positions x num_variants 1..3 x 3 fallbacks x 2 overwrites per frequency, plus the Slatable route "
        "(lag x lead x prepend x append x clip x base span x output names x full/base). "
        "(iii) BFS over operation histories from 3 initial databoxes, alphabet of overlay / underlay / clip / "
        "prepend / copy / shallow / rename / keep / remove / merge / `|` with list, str, predicate and renaming-"
        "function selections; a state is the canonical (name -> item) map incl. stored spans; every transition is "
        "compared with the dict reference; non-trivial = distinct (operation kind, resulting state) of transitions "
        "that select at least one name or build a new databox")
MANIFEST_ENTRY = dict(
    level="model_checking", design="DESIGN.md section 4 / C19",
    technique="explicit-state BFS over Databox operation histories vs plain-dict reference + exhaustive enumeration "
              "of CSV and Dataslate round trips",
    text="CSV: every sub-databox of <= 3 (quick, 1159 boxes, 26.8k files) / <= 4 (thorough, 5035 boxes, 160k files) of "
         "19 pool items (17 series over all six frequencies, 1 and 3 variants, all missing-value patterns, awkward "
         "descriptions, one empty series; a scalar; a list) x description_row x round in {12,3} x names / span / "
         "frequency_span selections is written with to_csv_file, read back with from_csv_file and compared: names, "
         "descriptions, frequencies, spans, variant counts, missing pattern, values to the declared rounding. "
         "Dataslate: every selection of <= 3 of 7 names x 8 span positions x num_variants 1..3 x 3 fallbacks x 2 "
         "overwrites (plain route) and lag x lead x prepend x append x clip x base span x output names x full/base "
         "(Slatable route), for 3 (quick, 30k conversions) / 6 (thorough, 111k) frequencies, compared cell by cell "
         "with 'input on the span, NaN elsewhere, filled only by fallbacks/overwrites, exhaust-then-last variants' "
         "both on the slate array and after to_databox. Databox operations: BFS from 3 initial boxes over 42 (quick, "
         "depth 3: 12k states, 50k transitions) / 75 operations (thorough, depth 4 with the 42 core operations as "
         "fourth step: 222k states, 1.05M transitions); every transition is compared item by item with the dict "
         "reference (values, stored spans, variants, descriptions), untouched names must be the same objects with "
         "the same bits, operands unchanged, copies share nothing with the original.",
    note="Trusted: ref/c19box.py (plain-dict reference of Series overlay/underlay/clip/hstack and the Databox methods, "
         "written from the docstrings), ref/calendar.py. The oracle never parses the CSV file itself. Not covered: "
         "date_formatter / delimiter / numeric_format / start_period_only / name_row_transform options, hand-written "
         "CSV files, renames whose targets collide (only the pure swap is asserted), strict_names rejection, "
         "databoxes of more than 3 (4) items in the CSV part, histories longer than 3 (4) operations. The two defects "
         "found here (IndexError when reading a file written from only-empty series; description dropped for a series "
         "without observation on the exported span) were repaired in /repo (1d5a4cc, bec6a4c; DESIGN.md 9.3).")
ASSUMPTIONS = [
    "values are compared to the declared rounding: |read - written| <= 0.5*10**-round + 4 ulp",
    "descriptions are only asserted when description_row=True on both sides",
    "a series with no observation on the exported span must come back with no observation (its frequency is not asserted)",
    "renames with overlapping source/target names other than the pure swap, and selections that name a non-series "
    "for overlay/underlay, are outside the asserted alphabet (counted as undefined)",
    "shallow() must return the receiver's own item objects (documented); merge(..., 'replace') and `|` store the other "
    "box's objects by reference (dict semantics, not asserted either way)",
    "the description of a series produced by merge(..., 'stack') is not asserted",
]

EPS = 2.220446049250313e-16
WORK = "/verif/.work"


def val(k, seed):
    """value table: 97 distinct values with 10 decimals, rotated by the seed (never on a rounding tie)"""
    return (((k * 7 + seed * 3) % 97) + 1) * 1.0123456789


def ival(k, seed):
    """distinct short values for the operation part"""
    return float(((k * 7 + seed * 3) % 97) + 1) + 0.25 * (k % 4)


# ===========================================================================
# Part (i) — CSV round trip
# ===========================================================================

@functools.lru_cache(maxsize=None)
def csv_pool(seed):
    """list of (name, item); item RS | float | list"""
    v = lambda k: val(k, seed)
    Y0, H0, Q0, M0 = 2001, C.ordinal(C.H, 2020, 2), C.ordinal(C.Q, 2020, 1), C.ordinal(C.M, 2020, 11)
    D0, D1 = C.ordinal(C.D, 2020, 58), C.ordinal(C.D, 2019, 364)      # 2020-02-27, 2019-12-30
    pool = [
        ("y1", RS.from_rows(C.Y, Y0, [(v(0),), (v(1),), (v(2),), (v(3),)], "Yearly series")),
        ("y3", RS.from_rows(C.Y, 1999, [(NAN, v(4), v(5)), (v(6), v(7), v(8)), (v(9), NAN, v(10))], "")),
        ("h1", RS.from_rows(C.H, H0, [(v(11),), (NAN,), (v(12),)], "Half, with comma")),
        ("q1", RS.from_rows(C.Q, Q0, [(v(13),), (v(14),), (NAN,), (v(15),)], 'Quote "inside" text')),
        ("q3", RS.from_rows(C.Q, Q0 + 2, [(v(16), v(17), v(18)), (NAN, v(19), v(20)), (v(21), v(22), NAN)],
                            "three variants, and a comma")),
        ("q1b", RS.from_rows(C.Q, Q0 - 1, [(v(23 + i),) for i in range(8)], "  padded  ")),
        ("qs", RS.from_rows(C.Q, Q0 + 5, [(v(31),)], "x")),
        ("m1", RS.from_rows(C.M, M0, [(v(32),), (v(33),), (v(34),), (v(35),)], "monthly")),
        ("m3", RS.from_rows(C.M, M0 + 1, [(v(36), v(37), v(38)), (NAN, NAN, NAN), (v(39), NAN, v(40))], "it's")),
        ("d1", RS.from_rows(C.D, D0, [(v(41 + i),) for i in range(5)], "daily over the leap day")),
        ("d3", RS.from_rows(C.D, D1, [(v(46), v(47), v(48)), (v(49), v(50), NAN), (v(51), NAN, NAN), (v(52), v(53), NAN)],
                            "a,b,\"c\"")),
        ("i1", RS.from_rows(C.I, -2, [(v(54 + i),) for i in range(6)], "(neg)")),
        ("i3", RS.from_rows(C.I, 5, [(v(60), v(61), v(62)), (v(63), v(64), v(65))], "int three")),
        ("h3", RS.from_rows(C.H, H0 + 3, [(v(66), v(67), v(68))], "single period")),
        ("y1b", RS.from_rows(C.Y, 2003, [(1e10 + v(69),), (-1.5e-7 * v(70),), (-0.0004,), (-v(71),)], '"')),
        ("m1b", RS.from_rows(C.M, C.ordinal(C.M, 1995, 1), [(v(72 + i) if i not in (3, 4) else NAN,) for i in range(14)], ",")),
        ("e2", RS(None, 2, {}, None, "empty")),
        ("sc", 3.5),
        ("li", [1.0, 2.0]),
    ]
    return pool


def csv_specs(box):
    """all export option sets for one reference sub-databox (dict name -> item), deterministic order"""
    names = list(box)
    series = [n for n in names if R.is_series(box[n])]
    specs = []
    for dr in (False, True):
        for rd in (12, 3):
            specs.append({"kind": "full", "description_row": dr, "round": rd})
    # names selections: every non-empty proper subset (reversed order) and one with a missing name
    k = 0
    for r in range(1, len(names)):
        for sub in itertools.combinations(names, r):
            if not any(n in series for n in sub):
                continue
            specs.append({"kind": "names", "description_row": bool(k % 2), "round": 12, "names": list(sub)[::-1]})
            k += 1
    specs.append({"kind": "names", "description_row": True, "round": 12, "names": [names[0], "zz_missing"]})
    # span / frequency_span selections per frequency present
    freqs = []
    for n in series:
        f = box[n].freq
        if f is not None and f not in freqs:
            freqs.append(f)
    win = {}
    for f in freqs:
        lo = min(box[n].span[0] for n in series if box[n].freq == f)
        hi = max(box[n].span[1] for n in series if box[n].freq == f)
        w = [("cover", lo - 1, hi + 1), ("head", lo - 2, lo), ("tail", hi, hi + 2)]
        if hi - lo >= 2:
            w.append(("inside", lo + 1, hi - 1))
        if f == freqs[0]:
            w.append(("after", hi + 2, hi + 3))
        win[f] = w
        for i, (tag, a, b) in enumerate(w):
            specs.append({"kind": "span", "description_row": bool(i % 2), "round": 12, "freq": f, "win": [a, b], "tag": tag})
        # the covering window again as a backward span (newest period first in the file) and as a stepped span
        # (every second period): each value must come back at the period written in its own row
        specs.append({"kind": "span", "description_row": False, "round": 12, "freq": f, "win": [lo - 1, hi + 1], "tag": "backward", "step": -1})
        specs.append({"kind": "span", "description_row": True, "round": 12, "freq": f, "win": [lo - 1, hi + 1], "tag": "stepped", "step": 2})
    if freqs:
        specs.append({"kind": "fspan", "description_row": False, "round": 3,
                      "fspan": [[f, win[f][0][1], win[f][0][2]] for f in freqs], "keys": "freq"})
        specs.append({"kind": "fspan", "description_row": True, "round": 12,
                      "fspan": [[freqs[0], win[freqs[0]][1][1], win[freqs[0]][1][2]]] + [[f, "...", "..."] for f in freqs[1:]],
                      "keys": "freq"})
        specs.append({"kind": "fspan", "description_row": False, "round": 12,
                      "fspan": [[freqs[-1], win[freqs[-1]][2][1], win[freqs[-1]][2][2]]], "keys": "int"})
        if len(series) >= 2:
            specs.append({"kind": "fspan", "description_row": True, "round": 12, "names": series[1:],
                          "fspan": [[f, "...", "..."] for f in freqs], "keys": "freq"})
    return specs


def csv_expected(box, spec):
    """-> dict name -> (RS restricted to the exported window)"""
    sel = [n for n in box if R.is_series(box[n])]
    if "names" in spec:
        sel = [n for n in sel if n in spec["names"]]
    windows = None
    if spec["kind"] == "span":
        windows = {spec["freq"]: tuple(spec["win"])}
    elif spec["kind"] == "fspan":
        windows = {f: (None if a == "..." else (a, b)) for f, a, b in spec["fspan"]}
    out = {}
    for n in sel:
        x = box[n]
        if windows is None or x.freq is None:
            if windows is not None:
                continue       # an explicit frequency selection never names "unknown frequency"
            out[n] = x
            continue
        if x.freq not in windows:
            continue
        w = windows[x.freq]
        if w is None:
            out[n] = x
        else:
            step = abs(spec.get("step", 1))
            out[n] = RS(x.freq, x.nvar, {(i, v): y for (i, v), y in x.d.items() if w[0] <= i <= w[1] and (i - w[0]) % step == 0}, "trim", x.desc)
    return out


def csv_kwargs(spec):
    kw = {"description_row": spec["description_row"], "round": spec["round"]}
    if "names" in spec:
        kw["names"] = list(spec["names"])
    if spec["kind"] == "span":
        f, (a, b) = spec["freq"], spec["win"]
        step = spec.get("step", 1)
        if step == 1:
            kw["span"] = R.mk_period(f, a) >> R.mk_period(f, b)
        elif step < 0:
            kw["span"] = ir.Span(R.mk_period(f, b), R.mk_period(f, a), step)
        else:
            kw["span"] = ir.Span(R.mk_period(f, a), R.mk_period(f, b), step)
    elif spec["kind"] == "fspan":
        fs = {}
        for f, a, b in spec["fspan"]:
            key = R.ir_frequency(f) if spec["keys"] == "freq" else int(R.ir_frequency(f))
            fs[key] = ... if a == "..." else (R.mk_period(f, a) >> R.mk_period(f, b))
        kw["frequency_span"] = fs
    return kw


@functools.lru_cache(maxsize=None)
def _primer_items():
    base = {C.Y: 2040, C.H: C.ordinal(C.H, 2040, 1), C.Q: C.ordinal(C.Q, 2040, 1), C.M: C.ordinal(C.M, 2040, 1),
            C.D: C.ordinal(C.D, 2040, 10), C.I: 400}
    return tuple((f, o) for f, o in base.items())


def primer_box():
    """another databox: one two-period series of every frequency, far away from every span of the pool"""
    db = ir.Databox()
    for f, o in _primer_items():
        db["p%d" % f] = ir.Series(start=R.mk_period(f, o), values=(1.0, 2.0))
    return db


def csv_case(idx, box, spec, seed, workdir, res):
    """one round trip; records violations into res"""
    case = {"part": "csv", "seed": seed, "items": list(idx), "spec": spec}
    sig0 = {"part": "csv", "kind": spec["kind"], "description_row": spec["description_row"], "round": spec["round"]}

    def bad(check, detail="", **extra):
        sig = dict(sig0)
        sig.update(extra)
        res.violation(check, sig, case, detail)

    res.ev()
    exp = csv_expected(box, spec)
    only_empty = bool(exp) and all(x.freq is None for x in exp.values())
    db = R.build_box(box)
    before = R.bits_box(db)
    path = os.path.join(workdir, "t.csv")
    kwargs = csv_kwargs(spec)
    fs = kwargs.get("frequency_span")
    if fs is not None and any(v is ... for v in fs.values()):
        # export options kept in one object and used for another databox first: the "..." placeholders stand for
        # "the whole span of THIS databox" in every call, and the caller's dict is not the library's to rewrite
        try:
            primer_box().to_csv_file(os.path.join(workdir, "p.csv"), when_empty="silent", frequency_span=fs)
            res.count("csv_frequency_span_object_reused")
        except Exception as e:
            bad("csv_write_exception", "priming export: %s: %s" % (type(e).__name__, e), error=type(e).__name__)
        _sig = lambda d: sorted((str(k), "..." if v is ... else repr(v)) for k, v in d.items())
        if _sig(fs) != _sig(csv_kwargs(spec)["frequency_span"]):
            bad("csv_options_modified", "to_csv_file rewrote the caller's frequency_span: %r" % (fs,))
    try:
        info = db.to_csv_file(path, when_empty="silent", return_info=True, **kwargs)
    except Exception as e:
        bad("csv_write_exception", "%s: %s" % (type(e).__name__, e), error=type(e).__name__)
        return
    if R.bits_box(db) != before:
        bad("csv_source_modified", "to_csv_file changed the databox")
    if sorted(info["names_exported"]) != sorted(exp):
        bad("csv_names_exported", "info %r expected %r" % (sorted(info["names_exported"]), sorted(exp)))
    try:
        back = ir.Databox.from_csv_file(path, description_row=spec["description_row"])
    except Exception as e:
        bad("csv_read_exception", "%s: %s" % (type(e).__name__, e), error=type(e).__name__,
            content=("only_empty_series" if only_empty else "data"))
        return
    if sorted(back.keys()) != sorted(exp):
        bad("csv_names", "read %r expected %r" % (sorted(back.keys()), sorted(exp)))
        return
    tol_abs = 0.5 * 10.0 ** (-spec["round"]) * (1 + 1e-9)
    nobs = 0
    for n, x in exp.items():
        y = back[n]
        if not isinstance(y, ir.Series):
            bad("csv_type", "%s read back as %s" % (n, type(y).__name__))
            continue
        got = R.observe_series(y)
        if got[2] != x.nvar:
            bad("csv_variants", "%s: %d variants, expected %d" % (n, got[2], x.nvar))
            continue
        if spec["description_row"] and got[5] != x.desc:
            bad("csv_description", "%s: %r expected %r" % (n, got[5], x.desc),
                content=("data" if x.d else "no_observation_on_span"))
        gd = dict(got[4])
        if not x.d:
            if gd:
                bad("csv_values", "%s: observations appeared on an empty selection: %r" % (n, sorted(gd)[:4]))
            res.count("csv_series_without_observation_on_span")
            continue
        if got[1] != x.freq:
            bad("csv_frequency", "%s: frequency %r expected %r" % (n, got[1], x.freq), freq=C.NAMES.get(x.freq))
            continue
        gspan = (min(i for i, _ in gd), max(i for i, _ in gd)) if gd else None
        if got[3] != x.span or gspan != x.span:
            bad("csv_span", "%s: span %r (observations %r) expected %r" % (n, got[3], gspan, x.span), freq=C.NAMES[x.freq])
            continue
        if set(gd) != set(x.d):
            bad("csv_missing_pattern", "%s: observed cells %r expected %r" % (n, sorted(set(gd) ^ set(x.d))[:6], "same"),
                freq=C.NAMES[x.freq])
            continue
        for key, w in x.d.items():
            g = gd[key]
            nobs += 1
            if not abs(g - w) <= tol_abs + 4 * EPS * abs(w):
                bad("csv_values", "%s%r: read %r written %r round=%d" % (n, key, g, w, spec["round"]), freq=C.NAMES[x.freq])
                break
    if nobs:
        res.nt(("csv", tuple(idx), engine.sigkey(spec)))
        res.cls("csv_blocks", (len({x.freq for x in exp.values()}), max(x.nvar for x in exp.values()), spec["kind"]))
    else:
        res.count("csv_cases_without_observation")


def shard_csv(item, res, ctx):
    pool = csv_pool(ctx.seed)
    os.makedirs(WORK, exist_ok=True)
    workdir = tempfile.mkdtemp(dir=WORK, prefix="c19_")
    try:
        for idx in item:
            box = {pool[i][0]: pool[i][1] for i in idx}
            for spec in csv_specs(box):
                csv_case(idx, box, spec, ctx.seed, workdir, res)
        for idx in item:
            if tuple(idx) in ((1, 4, 10), (3, 16, 17)):
                box = {pool[i][0]: pool[i][1] for i in idx}
                res.sample({"part": "csv", "items": list(box), "specs": csv_specs(box)[:3] + csv_specs(box)[-2:]})
    finally:
        shutil.rmtree(workdir, ignore_errors=True)


# ===========================================================================
# Part (ii) — Databox -> Dataslate -> Databox
# ===========================================================================

SL_BASE = {C.Q: C.ordinal(C.Q, 2020, 1), C.D: C.ordinal(C.D, 2020, 58), C.I: -2, C.M: C.ordinal(C.M, 2019, 11),
           C.Y: 2001, C.H: C.ordinal(C.H, 2020, 2)}
SL_NAMES = ["a", "b", "c", "s", "l", "e", "zz"]
SL_WINDOWS = [(1, 2), (-2, 0), (3, 6), (-2, 6), (-4, -3), (6, 7), (2, 2), (4, 5)]
SL_FALLBACKS = [None, {"a": 9.5, "zz": 8.5, "q": 1.0}, {"b": [5.5, 6.5], "e": 4.5, "a": 0.125}]
SL_OVERWRITES = [None, {"a": [0.5, 0.25], "zz": 2.0}]


@functools.lru_cache(maxsize=None)
def slate_box(freq, seed):
    v = lambda k: ival(k, seed)
    o = SL_BASE[freq]
    return {
        # (an infinite value is a value, not a missing one: it is never replaced by a fallback)
        "a": RS.from_rows(freq, o, [(v(0),), (float("inf"),), (NAN,), (v(2),)], "A"),
        "b": RS.from_rows(freq, o + 2, [(v(3), v(4), v(5)), (NAN, v(6), float("-inf")), (v(8), v(9), NAN)], "B"),
        "c": RS.from_rows(freq, o + 1, [(v(10), v(11)), (v(12), v(13))], "C"),
        "s": 3.5,
        "l": [1.25, 2.25],
        "e": RS(None, 1, {}, None, ""),
    }


def _pick(x, v):
    """exhaust-then-last selection of a per-variant value"""
    if isinstance(x, list):
        return x[min(v, len(x) - 1)]
    return x


def slate_expected(box, names, lo, hi, nv, fallbacks, overwrites, keep_cols=None):
    """expected array [variant][name index][period index] (NAN = missing)"""
    out = []
    for v in range(nv):
        rows = []
        for n in names:
            if n in box:
                x = box[n]
                if R.is_series(x):
                    row = x.rows(lo, hi, min(v, x.nvar - 1))
                else:
                    row = [float(_pick(x, v))] * (hi - lo + 1)
            else:
                row = [NAN] * (hi - lo + 1)
            if keep_cols is not None:
                row = [y if j in keep_cols else NAN for j, y in enumerate(row)]
            if fallbacks and n in fallbacks:
                f = float(_pick(fallbacks[n], v))
                row = [f if y != y else y for y in row]
            if overwrites and n in overwrites:
                row = [float(_pick(overwrites[n], v))] * (hi - lo + 1)
            rows.append(row)
        out.append(rows)
    return out


def _same_cells(a, b):
    a = np.asarray(a, dtype=float)
    b = np.asarray(b, dtype=float)
    return a.shape == b.shape and bool(np.all((a == b) | ((a != a) & (b != b))))


def _periods_arg(freq, lo, hi, form):
    p = [R.mk_period(freq, i) for i in range(lo, hi + 1)]
    if form == 0:
        return p[0] >> p[-1]
    return p if form == 1 else tuple(p)


def slate_check_databox(out, names, exp, freq, lo, nv, bad, res, descs=None):
    """out: databox from to_databox; exp[v][k][j] for names[k]"""
    for k, n in enumerate(names):
        if n not in out:
            bad("slate_name_missing", "%s not in the output databox" % n)
            continue
        y = out[n]
        got = R.observe_series(y)
        want = {(lo + j, v): exp[v][k][j] for v in range(nv) for j in range(len(exp[v][k])) if exp[v][k][j] == exp[v][k][j]}
        if got[2] != nv:
            bad("slate_variants", "%s: %d variants, expected %d" % (n, got[2], nv))
            continue
        if dict(got[4]) != want:
            bad("slate_values", "%s: got %r expected %r" % (n, sorted(dict(got[4]).items())[:8], sorted(want.items())[:8]))
            continue
        if want:
            if got[1] != freq:
                bad("slate_frequency", "%s: %r" % (n, got[1]))
            ks = [i for i, _ in want]
            if got[3] != (min(ks), max(ks)):
                bad("slate_span", "%s: stored span %r expected %r" % (n, got[3], (min(ks), max(ks))))
        elif got[3] is not None and got[4]:
            bad("slate_values", "%s: observations on an all-missing row" % n)
        if descs is not None and got[5] != descs[k]:
            res.count("observed_slate_description_differs")


def slate_case(spec, seed, res):
    freq = spec["freq"]
    box = slate_box(freq, seed)
    o = SL_BASE[freq]
    names = spec["names"]
    nv = spec["nv"]
    fb = SL_FALLBACKS[spec["fb"]]
    ow = SL_OVERWRITES[spec["ow"]]
    case = {"part": "slate", "seed": seed, "spec": spec}
    sig0 = {"part": "slate", "route": spec["route"], "freq": C.NAMES[freq], "nv": nv,
            "fallbacks": spec["fb"] > 0, "overwrites": spec["ow"] > 0}

    def bad(check, detail="", **extra):
        sig = dict(sig0)
        sig.update(extra)
        res.violation(check, sig, case, detail)

    res.ev()
    db = R.build_box(box)
    before = R.bits_box(db)
    sel = list(box) if names is None else names
    try:
        if spec["route"] == "plain":
            lo, hi = o + spec["win"][0], o + spec["win"][1]
            periods = _periods_arg(freq, lo, hi, spec["form"])
            kw = {}
            if fb is not None:
                kw["fallbacks"] = {k: (list(x) if isinstance(x, list) else x) for k, x in fb.items()}
            if ow is not None:
                kw["overwrites"] = {k: (list(x) if isinstance(x, list) else x) for k, x in ow.items()}
            ds = Dataslate.from_databox(db, None if names is None else list(names), periods, num_variants=nv, **kw)
            exp = slate_expected(box, sel, lo, hi, nv, fb, ow)
            out_names = sel
            descs = None
            elo = lo
        else:
            lag, lead = spec["lag"], spec["lead"]
            blo, bhi = o + spec["win"][0], o + spec["win"][1]
            base = [R.mk_period(freq, i) for i in range(blo, bhi + 1)]
            if spec["gap"] and len(base) >= 3:
                base = [base[0]] + base[2:]
            base_ord = [R.ord_of(freq, p) for p in base]
            sl = Slatable()
            sl.max_lag, sl.max_lead = lag, lead
            sl.databox_names = tuple(sel)
            sl.output_names = tuple(spec["out"])
            sl.fallbacks = None if fb is None else dict(fb)
            sl.overwrites = None if ow is None else dict(ow)
            sl.descriptions = tuple("desc of " + n for n in sel)
            base_arg = (base[0] >> base[-1]) if (spec["form"] == 0 and not spec["gap"]) else base
            ds = Dataslate.from_databox_for_slatable(
                sl, db, base_arg, prepend_initial=spec["pre"], append_terminal=spec["app"],
                clip_data_to_base_span=spec["clip"], num_variants=nv)
            lo = blo + (lag if spec["pre"] else 0)
            hi = bhi + (lead if spec["app"] else 0)
            keep_cols = {i - lo for i in base_ord} if spec["clip"] else None
            exp = slate_expected(box, sel, lo, hi, nv, fb, ow, keep_cols)
            out_names = [n for n in sel if n in spec["out"]]
            descs = ["desc of " + n for n in out_names]
            elo = lo
        # --- the slate itself
        if ds.num_variants != nv:
            bad("slate_num_variants", "%d" % ds.num_variants)
            return
        if tuple(ds.names) != tuple(sel):
            bad("slate_names", repr(ds.names))
            return
        got_periods = [R.ord_of(freq, p) for p in ds.periods]
        if got_periods != list(range(lo, hi + 1)):
            bad("slate_periods", "%r expected %r..%r" % (got_periods, lo, hi))
            return
        for v in range(nv):
            if not _same_cells(ds.get_data_variant(v), exp[v]):
                bad("slate_array", "variant %d: got %r expected %r" % (v, ds.get_data_variant(v).tolist(), exp[v]))
                return
        # --- and back
        if spec["route"] == "plain":
            if spec["target"]:
                tdb = ir.Databox()
                tdb["keepme"] = 1.5
                tdb[sel[0]] = "to be replaced"
                out = ds.to_databox(target_db=tdb)
                if out is not tdb or out.get("keepme") != 1.5:
                    bad("slate_target_db", "existing items of the target databox were not kept")
                if sorted(out.keys()) != sorted(set(sel) | {"keepme"}):
                    bad("slate_output_names", repr(sorted(out.keys())))
            else:
                out = ds.to_databox()
                if sorted(out.keys()) != sorted(set(sel)):
                    bad("slate_output_names", repr(sorted(out.keys())))
            slate_check_databox(out, out_names, exp, freq, elo, nv, bad, res)
        else:
            out = ds.to_databox(span=spec["back"])
            if sorted(out.keys()) != sorted(out_names):
                bad("slate_output_names", "%r expected %r" % (sorted(out.keys()), sorted(out_names)))
            idx = [sel.index(n) for n in out_names]
            if spec["back"] == "base":
                c0, c1 = min(base_ord) - lo, max(base_ord) - lo
                e2 = [[exp[v][k][c0:c1 + 1] for k in idx] for v in range(nv)]
                elo = min(base_ord)
            else:
                e2 = [[exp[v][k] for k in idx] for v in range(nv)]
            slate_check_databox(out, out_names, e2, freq, elo, nv, bad, res, descs)
            if tuple(R.ord_of(freq, p) for p in ds.base_periods) != tuple(base_ord):
                bad("slate_base_periods", repr(ds.base_periods))
        if R.bits_box(db) != before:
            bad("slate_source_modified", "the input databox changed")
        for n, y in out.items():
            if isinstance(y, ir.Series) and n in db and isinstance(db[n], ir.Series) and y.data.size and np.shares_memory(y.data, db[n].data):
                bad("slate_shares_memory", n)
        nobs = sum(1 for v in exp for row in v for y in row if y == y)
        if nobs:
            res.nt(("slate", engine.sigkey(spec)))
            res.cls("slate_pattern", (spec["route"], nv, spec["fb"], spec["ow"], nobs > 0,
                                      any(y != y for v in exp for row in v for y in row)))
        else:
            res.count("slate_cases_all_missing")
    except Exception as e:
        bad("slate_exception", "%s: %s" % (type(e).__name__, e), error=type(e).__name__)


def slate_name_selections(kmax=3):
    sels = [None]
    for r in range(1, kmax + 1):
        for sub in itertools.combinations(SL_NAMES, r):
            sels.append(list(sub))
    sels.append(["zz", "b", "a", "l"])        # order different from the databox, 4 names
    return sels


def slate_kmax(freq, quick):
    """quick: every selection of <= 3 names for quarterly, <= 2 names for the other frequencies"""
    return 3 if (freq == C.Q or not quick) else 2


def slate_specs_plain(freq, kmax=3):
    k = 0
    for names in slate_name_selections(kmax):
        for wi, win in enumerate(SL_WINDOWS):
            for nv in (1, 2, 3):
                for fb in range(len(SL_FALLBACKS)):
                    for ow in range(len(SL_OVERWRITES)):
                        k += 1
                        yield {"route": "plain", "freq": freq, "names": names, "win": list(win), "form": (wi + nv) % 3,
                               "nv": nv, "fb": fb, "ow": ow, "target": int(k % 5 == 0)}


SLT_NAMES = [["a", "b"], ["b", "s", "zz"], ["c", "a", "l", "e"], ["a"]]
SLT_WINDOWS = [(1, 2), (0, 4), (-3, -1), (3, 6)]


def slate_specs_slatable(freq, thorough):
    for ni, names in enumerate(SLT_NAMES):
        outs = [list(names), names[:1]]
        for wi, win in enumerate(SLT_WINDOWS):
            for lag in (0, -1, -2):
                for lead in (0, 1):
                    for pre in (True, False):
                        for app in (True, False):
                            for clip in (False, True):
                                for oi, out in enumerate(outs):
                                    for back in ("full", "base"):
                                        for nv in ((1, 2, 3) if thorough else (1, 3)):
                                            fbow = (lag + lead + wi + ni + oi + nv) % 4
                                            yield {"route": "slatable", "freq": freq, "names": names, "win": list(win),
                                                   "form": (wi + oi) % 2, "gap": int(win == (0, 4) and oi == 0),
                                                   "lag": lag, "lead": lead, "pre": pre, "app": app, "clip": clip,
                                                   "out": out, "back": back, "nv": nv,
                                                   "fb": (1 + ni % 2) if fbow in (1, 3) else 0, "ow": 1 if fbow in (2, 3) else 0}


def shard_slate(item, res, ctx):
    route, freq, lo, hi = item
    gen = slate_specs_plain(freq, slate_kmax(freq, ctx.quick)) if route == "plain" else slate_specs_slatable(freq, not ctx.quick)
    first = None
    for spec in itertools.islice(gen, lo, hi):
        if first is None:
            first = spec
        slate_case(spec, ctx.seed, res)
    if first is not None and lo == 0 and freq == C.Q:
        res.sample({"part": "slate", "first_spec_of_shard": first})


def shard_slate_reject(item, res, ctx):
    """a span of another frequency than a selected series cannot be extracted: must not silently succeed"""
    seed = ctx.seed
    box = dict(slate_box(C.Q, seed))
    box["m"] = RS.from_rows(C.M, C.ordinal(C.M, 2020, 1), [(1.0,), (2.0,), (3.0,)], "M")
    for names in (["a", "m"], ["m"], None):
        res.ev()
        db = R.build_box(box)
        try:
            ds = Dataslate.from_databox(db, names, R.mk_period(C.Q, SL_BASE[C.Q]) >> R.mk_period(C.Q, SL_BASE[C.Q] + 2))
        except Exception:
            res.count("slate_mixed_frequency_rejected")
            continue
        res.violation("slate_mixed_frequency_accepted", {"part": "slate", "route": "plain"},
                      {"part": "slate_reject", "seed": seed}, "names=%r" % (names,))


# ===========================================================================
# Part (iii) — Databox operations, explicit-state
# ===========================================================================

OQ = C.ordinal(C.Q, 2020, 1)
OM = C.ordinal(C.M, 2020, 1)
OBASE = {C.Q: OQ, C.M: OM}


@functools.lru_cache(maxsize=None)
def op_initial_boxes(seed):
    v = lambda k: ival(k, seed)
    return [
        {"a": RS.from_rows(C.Q, OQ, [(v(0),), (v(1),), (NAN,), (v(2),)], "A0"),
         "b": RS.from_rows(C.Q, OQ + 2, [(v(3), v(4)), (NAN, v(5)), (v(6), v(7))], "B0"),
         "c": 3.0, "ab": 7.5,
         # an integer-frequency series (Frequency.INTEGER has the value 0)
         "g": RS.from_rows(C.I, 2, [(v(30),), (NAN,), (v(31),), (v(32),)], "G0")},
        {"a": RS.from_rows(C.Q, OQ + 1, [(v(8), v(9)), (v(10), v(11))], "A1"),
         "b": RS.from_rows(C.M, OM, [(v(12),), (v(13),), (v(14),)], "B1"),
         "c": [1.0, 2.0], "ab": 7.5},
        {"a": RS.from_rows(C.Q, OQ + 3, [(v(15),), (v(16),), (v(17),), (v(18),)], "A2"),
         "b": RS(None, 1, {}, None, "B2 empty"),
         "c": RS.from_rows(C.Q, OQ - 1, [(v(19),), (v(20),)], "C2"), "ab": 7.5},
    ]


@functools.lru_cache(maxsize=None)
def op_operand_boxes(seed):
    v = lambda k: ival(k + 40, seed)
    return [
        {"a": RS.from_rows(C.Q, OQ - 2, [(v(i),) for i in range(7)], "oa0"),
         "b": RS.from_rows(C.Q, OQ + 1, [(v(7),), (NAN,), (v(8),)], "ob0"),
         "c": RS.from_rows(C.Q, OQ, [(v(9),), (v(10),)], "oc0"),
         "d": 7.0,
         "g": RS.from_rows(C.I, 0, [(v(28),), (v(29),), (v(30),), (NAN,), (NAN,), (NAN,), (v(31),)], "og0"),
         "f": 1.5},
        {"a": RS.from_rows(C.Q, OQ + 2, [(v(11), v(12)), (v(13), NAN), (NAN, v(14)), (v(15), v(16))], "oa1"),
         "b": RS.from_rows(C.M, OM - 1, [(v(17),), (v(18),), (v(19),)], "ob1"),
         "c": [9.0],
         "e": RS.from_rows(C.Q, OQ, [(v(20),)], "oe1"),
         "f": [2.5]},
        {"a": RS.from_rows(C.M, OM + 1, [(v(21),), (v(22),)], "oa2"),
         "b": RS.from_rows(C.Q, OQ + 3, [(v(23), v(24), v(25))], "ob2"),
         "c": 5.0,
         "a_x": RS.from_rows(C.Q, OQ + 1, [(v(26),), (v(27),)], "oax2")},
    ]


def _L(*names):
    return ("list", tuple(names))


def _S(name):
    return ("str", name)


def op_alphabet(thorough):
    A = []
    A += [("overlay", 0, None), ("overlay", 1, None), ("underlay", 0, None), ("underlay", 1, None),
          ("overlay", 0, ("a", "zz")), ("underlay", 1, ("b", "a")),
          # an explicitly EMPTY selection selects nothing (it is not "no selection given")
          ("overlay", 1, ()), ("underlay", 0, ())]
    A += [("clip", C.Q, 1, 3), ("clip", C.Q, None, 2), ("clip", C.Q, 3, None), ("clip", C.Q, 8, 9), ("clip", C.M, 0, 1)]
    A += [("prepend", 0, C.Q, 1), ("prepend", 1, C.Q, 3), ("prepend", 1, C.M, 0)]
    A += [("copy", None, None), ("copy", _L("a", "b"), None), ("copy", _S("a"), _S("d")),
          ("copy", ("pred", "not_b"), ("func", "suffix_x")), ("copy", _L("a", "b"), _L("b", "c"))]
    A += [("rename", _S("a"), _S("d")), ("rename", _L("a", "b"), _L("b", "a")), ("rename", ("pred", "short"), ("func", "suffix_x")),
          ("rename", _L("a", "zz"), _L("x1", "x2")), ("rename", ("pred", "is_a_or_b"), ("func", "upper"))]
    A += [("keep", _L("a", "c")), ("keep", _S("b")), ("keep", ("pred", "not_b")), ("keep", _L("a", "zz"))]
    A += [("remove", _S("a")), ("remove", _L("b", "zz")), ("remove", ("pred", "has_x"))]
    # a single name given as a plain string whose siblings ("a", "b") are substrings of it
    A += [("keep", _S("ab")), ("remove", _S("ab")), ("copy", _S("ab"), None)]
    A += [("merge", (o,), s) for o in (0, 1) for s in ("stack", "replace", "discard")]
    # two databoxes merged in one call: they share the key "f", which no receiver has
    A += [("merge", (0, 1), s) for s in ("stack", "replace", "discard")]
    A += [("shallow", None, None), ("shallow", _L("b", "c"), _L("c", "b")), ("shallow", ("pred", "short"), ("func", "upper"))]
    A += [("or", 0), ("or", 1)]
    if thorough:
        A += [("overlay", 2, None), ("underlay", 2, None), ("overlay", 1, ("c",)), ("underlay", 0, ("c", "b"))]
        A += [("clip", C.Q, 2, 2), ("clip", C.Q, 4, 1), ("clip", C.M, None, 0), ("clip", C.Q, None, None)]
        A += [("prepend", 0, C.Q, -3), ("prepend", 2, C.Q, 3)]
        A += [("copy", ("pred", "short"), None), ("copy", _L("c", "zz", "a"), _L("x", "y", "z")), ("copy", None, ("func", "upper"))]
        A += [("rename", _L("a", "b"), _L("b", "c")), ("rename", _L("a", "b", "c"), _L("b", "c", "a")),
              ("rename", _S("a"), _S("b")), ("rename", None, ("func", "suffix_x")), ("rename", ("pred", "none"), ("func", "upper")),
              ("rename", ("pred", "short"), ("func", "same"))]
        A += [("keep", None), ("keep", ("pred", "none")), ("keep", ("pred", "has_x"))]
        A += [("remove", None), ("remove", _L("c", "a")), ("remove", ("pred", "short"))]
        A += [("merge", (2,), s) for s in ("stack", "replace", "discard")] + [("merge", (1, 0), "stack"), ("merge", (1, 0), "discard")]
        A += [("shallow", _S("a"), _S("b")), ("shallow", _L("a", "zz"), None)]
        A += [("or", 2)]
    return A


def norm(x):
    """JSON round trip turns tuples into lists: normalise an op / history back to tuples"""
    if isinstance(x, (list, tuple)):
        return tuple(norm(e) for e in x)
    return x


NEW_BOX_OPS = ("copy", "shallow", "or")


def _real_sel(sel, target=False):
    if sel is None:
        return None
    if sel[0] == "str":
        return sel[1]
    if sel[0] == "list":
        return list(sel[1])
    if sel[0] == "pred":
        return R.PREDICATES[sel[1]]
    if sel[0] == "func":
        return R.RENAMERS[sel[1]]
    raise KeyError(sel)


def _sel_kind(sel):
    return "none" if sel is None else sel[0]


class BoxMachine:
    """explorer object; a history is [("init", k), op, op, ...]"""

    # ---- reference -----------------------------------------------------
    @staticmethod
    def ref_apply(box, op, operands):
        """-> (new_box, touched names); raises R.Undefined / R.MustRaise"""
        name = op[0]
        if name in ("overlay", "underlay"):
            return R.b_lay(box, operands[op[1]], name, None if op[2] is None else list(op[2]))
        if name == "clip":
            base = OBASE[op[1]]
            return R.b_clip(box, op[1], None if op[2] is None else base + op[2], None if op[3] is None else base + op[3])
        if name == "prepend":
            return R.b_prepend(box, operands[op[1]], op[2], OBASE[op[2]] + op[3])
        if name in ("copy", "shallow"):
            return R.b_copy(box, op[1], op[2])
        if name == "rename":
            return R.b_rename(box, op[1], op[2])
        if name == "keep":
            return R.b_keep(box, op[1])
        if name == "remove":
            return R.b_remove(box, op[1])
        if name == "merge":
            new, touched = box, set()
            for oi in op[1]:
                new, t = R.b_merge(new, operands[oi], op[2])
                touched |= t
            return new, touched
        if name == "or":
            return R.b_or(box, operands[op[1]])
        raise KeyError(name)

    # ---- implementation ------------------------------------------------
    @staticmethod
    def impl_apply(db, op, others):
        """others: dict index -> fresh real operand Databox.  Returns the databox that is the next state."""
        name = op[0]
        if name in ("overlay", "underlay"):
            kw = {} if op[2] is None else {"names": list(op[2])}
            r = getattr(db, name)(others[op[1]], **kw)
            return db
        if name == "clip":
            base = OBASE[op[1]]
            lo = None if op[2] is None else R.mk_period(op[1], base + op[2])
            hi = None if op[3] is None else R.mk_period(op[1], base + op[3])
            db.clip(lo, hi)
            return db
        if name == "prepend":
            db.prepend(others[op[1]], R.mk_period(op[2], OBASE[op[2]] + op[3]))
            return db
        if name == "copy":
            return db.copy(_real_sel(op[1]), _real_sel(op[2]))
        if name == "shallow":
            return db.shallow(_real_sel(op[1]), _real_sel(op[2]))
        if name == "rename":
            db.rename(_real_sel(op[1]), _real_sel(op[2]))
            return db
        if name == "keep":
            db.keep(_real_sel(op[1]))
            return db
        if name == "remove":
            db.remove(_real_sel(op[1]))
            return db
        if name == "merge":
            if len(op[1]) == 1:
                db.merge(others[op[1][0]], op[2])
            else:
                db.merge([others[i] for i in op[1]], op[2])
            return db
        if name == "or":
            return db | others[op[1]]
        raise KeyError(name)

    @staticmethod
    def operand_indexes(op):
        if op[0] in ("overlay", "underlay", "prepend", "or"):
            return (op[1],)
        if op[0] == "merge":
            return tuple(op[1])
        return ()

    # ---- explorer protocol ----------------------------------------------
    def initial(self, ctx):
        return [[("init", k)] for k in range(len(op_initial_boxes(ctx.seed)))]

    def key0(self, hist, ctx):
        return R.canon_box(op_initial_boxes(ctx.seed)[hist[0][1]])

    def ops(self, hist, ctx):
        # thorough: extended alphabet for the first three operations, core alphabet for the fourth
        return op_alphabet((not ctx.quick) and len(hist) <= 3)

    def replay_ref(self, hist, seed):
        operands = op_operand_boxes(seed)
        box = op_initial_boxes(seed)[hist[0][1]]
        for op in hist[1:]:
            box, _ = self.ref_apply(box, op, operands)
        return box

    def replay_impl(self, hist, seed):
        operands = op_operand_boxes(seed)
        db = R.build_box(op_initial_boxes(seed)[hist[0][1]])
        for op in hist[1:]:
            others = {i: R.build_box(operands[i]) for i in self.operand_indexes(op)}
            db = self.impl_apply(db, op, others)
        return db

    def step(self, hist, op, res, ctx):
        seed = ctx.seed
        hist = [norm(h) for h in hist]
        op = norm(op)
        case = {"part": "ops", "seed": seed, "history": [list(h) for h in hist] + [list(op)]}
        sig0 = {"part": "ops", "op": op[0]}
        if op[0] in ("copy", "shallow", "rename"):
            sig0["source"], sig0["target"] = _sel_kind(op[1]), _sel_kind(op[2])
        elif op[0] in ("keep", "remove"):
            sig0["source"] = _sel_kind(op[1])
        elif op[0] == "merge":
            sig0["strategy"] = op[2]
        elif op[0] in ("overlay", "underlay"):
            sig0["names"] = op[2] is not None

        def bad(check, detail="", **extra):
            sig = dict(sig0)
            sig.update(extra)
            res.violation(check, sig, case, detail)

        res.ev()
        operands = op_operand_boxes(seed)
        ref = self.replay_ref(hist, seed)
        try:
            exp, touched = self.ref_apply(ref, op, operands)
            status = "defined"
        except R.Undefined as e:
            exp, touched, status = None, None, "undefined"
        except R.MustRaise:
            exp, touched, status = None, None, "rejects"
        try:
            db = self.replay_impl(hist, seed)
        except Exception as e:
            bad("replay_exception", "%s: %s" % (type(e).__name__, e), error=type(e).__name__)
            return None
        ref_canon = {k: R.canon_item(x) for k, x in ref.items()}
        got0 = R.observe_box(db)
        if set(got0) != set(ref_canon) or not all(R.same_item(got0[k], ref_canon[k]) for k in ref_canon):
            bad("replay_state", "rebuilt state differs from the reference state")
            return None
        before_bits = R.bits_box(db)
        before_obj = dict(db.items())
        others = {i: R.build_box(operands[i]) for i in self.operand_indexes(op)}
        others_bits = {i: R.bits_box(o) for i, o in others.items()}
        try:
            new = self.impl_apply(db, op, others)
        except Exception as e:
            if status == "defined":
                bad("unexpected_exception", "%s: %s" % (type(e).__name__, e), error=type(e).__name__)
            else:
                res.exclude(status + "_raised")
            return None
        if status != "defined":
            res.exclude(status + "_not_raised")
            return None
        # ---- full comparison with the reference
        exp_canon = {k: R.canon_item(x) for k, x in exp.items()}
        got = R.observe_box(new)
        if set(got) != set(exp_canon):
            bad("names", "names %r expected %r" % (sorted(got), sorted(exp_canon)))
            return None
        wrong = [k for k in exp_canon if not R.same_item(got[k], exp_canon[k])]
        if wrong:
            k = sorted(wrong)[0]
            was_touched = k in touched or op[0] in NEW_BOX_OPS
            bad("transition" if was_touched else "untouched_changed",
                "item %r: got %r expected %r" % (k, got[k], exp_canon[k]))
            return None
        # ---- untouched names: same object, same bits
        if op[0] not in NEW_BOX_OPS:
            if new is not db:
                bad("in_place", "in-place operation returned another databox")
            for k in ref:
                if k in exp and k not in touched:
                    if new[k] is not before_obj[k]:
                        bad("untouched_replaced", "item %r is a different object after the operation" % k)
                    elif R.bits_item(new[k]) != before_bits[k]:
                        bad("untouched_changed", "item %r changed bitwise" % k)
        else:
            if new is db:
                bad("new_box", "the operation returned the receiver")
            if R.bits_box(db) != before_bits or list(db.keys()) != list(before_obj.keys()):
                bad("receiver_changed", "the receiver of %s changed" % op[0])
        # ---- operands unchanged
        for i, o in others.items():
            if R.bits_box(o) != others_bits[i]:
                bad("operand_changed", "operand databox %d changed" % i)
        # ---- isolation of copies
        if op[0] == "shallow":
            pairs = R.resolve(ref, op[1], op[2])
            for s, t in pairs:
                if new[t] is not before_obj[s]:
                    bad("shallow_not_by_reference", "%s -> %s is a copy" % (s, t))
        if op[0] in ("copy", "or"):
            own = set(exp) if op[0] == "copy" else {k for k in exp if k in ref and k not in operands[op[1]]}
            for k in own:
                x = new[k]
                for n0, y in before_obj.items():
                    if isinstance(x, (ir.Series, list)) and x is y:
                        bad("copy_aliases", "%s of the copy is %s of the original" % (k, n0))
                    if isinstance(x, ir.Series) and isinstance(y, ir.Series) and x.data.size and y.data.size \
                            and np.shares_memory(x.data, y.data):
                        bad("copy_shares_memory", "%s / %s" % (k, n0))
            for k in own:
                x = new[k]
                if isinstance(x, ir.Series):
                    if x.data.size:
                        x.data[...] = -12345.0
                    x.set_description("mutated")
                elif isinstance(x, list):
                    x.append("mutated")
            if R.bits_box(db) != before_bits:
                bad("copy_isolation", "mutating the copy changed the original")
        if (tuple(hist[1:]) + (op,)) in SHOWCASE:
            res.sample({"part": "ops", "history": case["history"], "resulting_names": sorted(exp)})
        res.cls("ops_outcome", (op[0], tuple(sorted(touched)) != (), len(exp) - len(ref)))
        if touched or set(exp) != set(ref) or op[0] in NEW_BOX_OPS:
            # non-trivial: the operation selects at least one name (or builds a new databox)
            res.nt(("ops", op[0], canon_small(exp_canon)))
            res.count("transitions_that_change_something")
        else:
            res.count("transitions_selecting_nothing")
        return R.canon_box(exp)


def canon_small(exp_canon):
    return engine.short_hash(repr(sorted(exp_canon.items())))


MACHINE = BoxMachine()
# two fixed three-operation histories that are written into the evidence as samples
SHOWCASE = (
    (("rename", _L("a", "b"), _L("b", "a")), ("overlay", 0, None), ("merge", (1,), "stack")),
    (("prepend", 0, C.Q, 1), ("copy", ("pred", "not_b"), ("func", "suffix_x")), ("clip", C.Q, None, 2)),
)


# ===========================================================================
# driver
# ===========================================================================

def _csv_subsets(n, kmax=3):
    out = []
    for r in range(1, kmax + 1):
        out += list(itertools.combinations(range(n), r))
    return out


def run(ctx, total, info):
    os.makedirs(WORK, exist_ok=True)
    cap = getattr(ctx, "cap_s", None)
    deadline = (ctx.t0 + cap) if cap else None          # --cap-min: a capped run is reported as not exhaustive
    # ---- (i)
    npool = len(csv_pool(ctx.seed))
    subsets = _csv_subsets(npool, 3 if ctx.quick else 4)
    subsets.sort(key=lambda s: -len(s))
    per = 8
    shards = [subsets[i:i + per] for i in range(0, len(subsets), per)]
    done_csv = engine.run_shards(__name__, "shard_csv", shards, ctx, total, deadline=deadline)
    n_csv = total.evaluations
    nt_csv = len(total.nontrivial)
    # ---- (ii)
    freqs = (C.Q, C.D, C.I) if ctx.quick else (C.Q, C.D, C.I, C.M, C.Y, C.H)
    shards = []
    for f in freqs:
        n = sum(1 for _ in slate_specs_plain(f, slate_kmax(f, ctx.quick)))
        step = 600
        shards += [("plain", f, a, min(n, a + step)) for a in range(0, n, step)]
        if f in (C.Q, C.D) or not ctx.quick:
            n = sum(1 for _ in slate_specs_slatable(f, not ctx.quick))
            shards += [("slatable", f, a, min(n, a + step)) for a in range(0, n, step)]
    done_slate = engine.run_shards(__name__, "shard_slate", shards, ctx, total, deadline=deadline)
    engine.run_shards(__name__, "shard_slate_reject", [0], ctx, total)
    n_slate = total.evaluations - n_csv
    nt_slate = len(total.nontrivial) - nt_csv
    # ---- (iii)
    depth = 3 if ctx.quick else 4
    ex = engine.explore(__name__, "MACHINE", ctx, total, max_depth=depth, deadline=deadline)
    info.update(ex)
    info["traces_validated_against_impl"] = ex["transitions"]
    info["alphabet"] = [engine.jsonable(a) for a in op_alphabet(not ctx.quick)]
    info["alphabet_note"] = ("quick: this alphabet at every depth" if ctx.quick else
                             "thorough: this extended alphabet for operations 1-3, the quick (core) alphabet for operation 4")
    info["csv_max_items"] = 3 if ctx.quick else 4
    info["csv"] = {"pool_items": npool, "sub_databoxes": len(subsets), "round_trips": n_csv, "nontrivial": nt_csv}
    info["dataslate"] = {"frequencies": [C.NAMES[f] for f in freqs], "conversions": n_slate, "nontrivial": nt_slate}
    info["exhaustive"] = bool(ex["max_depth"] == depth and done_csv[0] == done_csv[1] and done_slate[0] == done_slate[1])
    info["shards_completed"] = {"csv": list(done_csv), "dataslate": list(done_slate)}
    changing = total.counters.get("transitions_that_change_something", 0)
    ncls = lambda k: len(total.classes.get(k, ()))
    # measured on the unchanged tree (quick): 26811 / 25080 / 30291 / 28287 / 12071 / 50400 / 26705 / 23 / 54 / 46
    info["floors"] = {"csv_frequency_span_object_reused": (total.counters.get("csv_frequency_span_object_reused", 0), 1000),
                      "csv_round_trips": (n_csv, 13000), "csv_nontrivial": (nt_csv, 12000),
                      "slate_conversions": (n_slate, 15000), "slate_nontrivial": (nt_slate, 14000),
                      "ops_states": (ex["states"], 6000), "ops_transitions": (ex["transitions"], 25000),
                      "ops_transitions_changing": (changing, 13000),
                      "csv_block_classes": (ncls("csv_blocks"), 11), "slate_pattern_classes": (ncls("slate_pattern"), 27),
                      "ops_outcome_classes": (ncls("ops_outcome"), 23)}


def replay(case):
    res = engine.Result()
    seed = int(case.get("seed", 0))
    ctx = engine.Ctx("quick", seed)
    part = case.get("part")
    if part == "csv":
        pool = csv_pool(seed)
        idx = tuple(case["items"])
        box = {pool[i][0]: pool[i][1] for i in idx}
        os.makedirs(WORK, exist_ok=True)
        workdir = tempfile.mkdtemp(dir=WORK, prefix="c19r_")
        try:
            csv_case(idx, box, case["spec"], seed, workdir, res)
        finally:
            shutil.rmtree(workdir, ignore_errors=True)
    elif part == "slate":
        slate_case(case["spec"], seed, res)
    elif part == "slate_reject":
        shard_slate_reject(0, res, ctx)
    elif part == "ops":
        hist = [norm(h) for h in case["history"]]
        MACHINE.step(hist[:-1], hist[-1], res, ctx)
    return ["%s %s %s" % (v["check"], engine.sigkey(v["signature"]), v["detail"]) for v in res.violations]
