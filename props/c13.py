"""C13 — change and cumulation transforms follow their formulas and invert each other.

Part A (enumeration, "change"): every series of the stated space (frequency x start segment x
    length x interior missing mask x variants) x {diff, diff_log, pct, roc} x shifts
    {-1..-4, default, "yoy", "soy", "eopy", "tty"}: the result is compared period by period and
    variant by variant with the documented formula evaluated on a plain dict {(ordinal, variant):
    value}; reference periods of the keyword shifts come from ref/calendar (datetime only).
    Also adiff/adiff_log/apct/aroc, the five *_from_* converters (formula on a rate series and
    consistency with the change functions), method form == functional form, functional form
    leaves its input untouched.
Part B (enumeration, "cum"): every forward and every backward sub-span of the change series x
    {cum_diff, cum_diff_log, cum_pct, cum_roc} x shifts {-1,-2,-3} with the original as initial
    condition must return the original on the span (wherever the recursion chain is not cut by a
    missing observation).
Part C ("invalid"): shifts >= 0 must raise for all eight functions, both forms.
"""
import datetime as dt
import itertools
import math

import numpy as np

import irispie as ir
from irispie import dates as D

from mc import engine
from ref import calendar as C

PROPERTY = "C13"
LEVEL = "exploration"
RULE = ("A: product of frequency {Y,H,Q,M,I,D} x every start segment x length 1..2 years+2 x interior "
        "missing masks (all masks up to length 8, then none/single[/pairs]) x variants {1,2} x 4 change "
        "functions x 9 shifts (+4 annualised functions, 5 converters); a case is non-trivial when the "
        "documented formula defines at least one value. B: for every such gap-free (and single-gap / "
        "all-mask short) series x 4 cumulation functions x shifts -1,-2,-3: every forward span [a,b] and "
        "every backward span [b->a] inside the change series, initial = original; non-trivial when at "
        "least one recursively computed period has an intact chain. C: 8 functions x shifts 0..3 x 2 forms.")
MANIFEST_ENTRY = dict(
    level="exploration", design="DESIGN.md section 4 / C13",
    technique="bounded exhaustive enumeration of series shapes x functions x shifts x cumulation sub-spans against a dict-based formula reference and the inverse identity",
    text=("Every series shape (6 frequencies, every start segment, lengths 1..2y+2, all interior missing masks up to "
          "length 8 (quick) / 10 (thorough), 1 and 2 variants; quick: lengths 1..y+2, 2y+1, 2y+2) is pushed through diff/diff_log/pct/roc at shifts "
          "-1..-4, default, yoy, soy, eopy, tty, the annualised variants and the five converters and compared per "
          "period with the documented formula; every forward and backward sub-span cumulation at shifts -1..-3 with "
          "the original as initial condition must reproduce the original (quick: lengths <= 8; thorough: every "
          "length up to 2 years + 2); shifts >= 0 must raise; method and functional forms must agree and the "
          "functional form must not touch its inputs."),
    note=("Trusted: ref/calendar.py, Python float arithmetic. Values come from fixed positive (and mixed-sign for "
          "diff/pct/roc) tables rotated by the seed; cancellation-prone values are not explored. Not asserted: pct and "
          "diff_log in start-of-year periods under shift='tty', keyword shifts and annualisation on integer "
          "frequency, shift=None, numpy-integer and float shifts, values outside the cumulation span (recorded)."))
ASSUMPTIONS = [
    "annualisation factor a = periods per year (1,2,4,12; 365 for daily) as documented; integer frequency is not documented and only recorded",
    "under shift='tty' the start-of-year value is pinned by the documentation only for diff and roc ('unchanged'); pct/diff_log there are recorded",
    "cumulation must reproduce the original at a period only if no observation on its recursion chain back to the initial condition is missing; periods behind a gap are recorded, not gated",
    "values are taken from fixed tables (positive where logs or annualised powers are taken); numerically ill-conditioned data are outside the explored space",
]

TOL = 1e-9
FREQ = {C.Y: D.Frequency.YEARLY, C.H: D.Frequency.HALFYEARLY, C.Q: D.Frequency.QUARTERLY,
        C.M: D.Frequency.MONTHLY, C.D: D.Frequency.DAILY, C.I: D.Frequency.INTEGER}
CTOR = {C.Y: lambda y, s=1: ir.yy(y), C.H: ir.hh, C.Q: ir.qq, C.M: ir.mm}
FCODE = {v: k for k, v in C.NAMES.items()}


def mk(freq, o):
    """real period from a reference ordinal, through the public constructors"""
    if freq == C.I:
        return ir.ii(o)
    if freq == C.D:
        d = dt.date.fromordinal(o)
        return ir.dd(d.year, d.month, d.day)
    y, s = C.year_segment(freq, o)
    return CTOR[freq](y, s)


def ordof(freq, p):
    """reference ordinal of a real period, through its public accessors"""
    if freq == C.I:
        return int(str(p.to_sdmx_string()).strip("()"))
    if freq == C.D:
        return dt.date(*p.to_ymd()).toordinal()
    y, s = p.to_year_segment()
    return y * freq + s - 1


# ---------------------------------------------------------------------------
# value tables (the seed rotates them; it never changes the structure explored)
# ---------------------------------------------------------------------------

NTAB = 61
TABLE = [round(0.6 + ((i * 37) % NTAB) * 0.173 + ((i * i * 11) % 7) * 0.031, 4) for i in range(NTAB)]
assert len(set(TABLE)) == NTAB and min(TABLE) > 0.5


def value(rot, i, v, flavour, freq):
    base = TABLE[(rot + i * (1 + 2 * v) + 17 * v) % NTAB]
    if flavour == "pos":
        return base
    if flavour == "mix":
        return -base if (i * 5 + rot + v) % 3 == 0 else base
    if flavour == "smooth":           # ratios close to one: safe under x**a and its inverse
        return (1000.0 if freq == C.D else 20.0) + base
    if flavour == "jump":             # tenfold rises and falls from one period to the next (positive data)
        return base * (10.0 if i % 2 else 1.0)
    if flavour == "smoothmix":        # the same magnitudes with changes of sign: ratios close to plus or minus one
        sm = (1000.0 if freq == C.D else 20.0) + base
        return -sm if (i * 5 + rot + v) % 3 == 0 else sm
    raise KeyError(flavour)


def build(freq, start, L, nv, masks, rot, flavour):
    """(Series, reference dict {(ordinal, variant): value})"""
    arr = np.full((L, nv), np.nan)
    ref = {}
    for v in range(nv):
        miss = masks[v] if v < len(masks) else ()
        for i in range(L):
            if i in miss:
                continue
            x = value(rot, i, v, flavour, freq)
            arr[i, v] = x
            ref[(start + i, v)] = x
    s = ir.Series(start=mk(freq, start), values=arr)
    return s, ref


def to_map(freq, s):
    st = s.start
    data = s.data
    if st is None or data.shape[0] == 0:
        return {}
    o0 = ordof(freq, st)
    m = {}
    for i, row in enumerate(data.tolist()):
        for v, val in enumerate(row):
            if val == val:
                m[(o0 + i, v)] = val
    return m


def snapshot(s):
    return (repr(s.start), s.data.shape, s.data.tobytes())


def cmp_maps(got, exp, free=(), tol=TOL, scale=1.0):
    """None when equal (NaN = absent key), else a description of the first difference"""
    for k in sorted(exp):
        if k in free:
            continue
        e = exp[k]
        g = got.get(k)
        if g is None:
            return "period %d variant %d: missing, expected %r" % (k[0], k[1], e)
        if not (abs(g - e) <= tol * max(1.0, abs(e), scale)):
            return "period %d variant %d: got %r expected %r" % (k[0], k[1], g, e)
    for k in sorted(got):
        if k not in exp and k not in free:
            return "period %d variant %d: got %r where the formula is undefined" % (k[0], k[1], got[k])
    return None


def same_maps(a, b):
    """exact equality of two result maps (inf == inf), used for method form vs functional form"""
    return a == b


# ---------------------------------------------------------------------------
# documented formulas
# ---------------------------------------------------------------------------

CHANGE = {
    "diff": lambda x, y: x - y,
    "diff_log": lambda x, y: math.log(x) - math.log(y),
    "pct": lambda x, y: 100.0 * (x / y - 1.0),
    "roc": lambda x, y: x / y,
}
ACHANGE = {
    "adiff": lambda x, y, a: a * (x - y),
    "adiff_log": lambda x, y, a: a * (math.log(x) - math.log(y)),
    "apct": lambda x, y, a: 100.0 * ((x / y) ** a - 1.0),
    "aroc": lambda x, y, a: (x / y) ** a,
}
CONV = {
    "roc_from_pct": lambda r, a: 1.0 + r / 100.0,
    "pct_from_roc": lambda r, a: 100.0 * (r - 1.0),
    "pct_from_apct": lambda r, a: 100.0 * ((1.0 + r / 100.0) ** (1.0 / a) - 1.0),
    "roc_from_apct": lambda r, a: (1.0 + r / 100.0) ** (1.0 / a),
    "roc_from_aroc": lambda r, a: r ** (1.0 / a),
}
# converter -> (source function, target function, source is annualised)
ROUNDTRIP = {
    "roc_from_pct": ("pct", "roc", False),
    "pct_from_roc": ("roc", "pct", False),
    "pct_from_apct": ("apct", "pct", True),
    "roc_from_apct": ("apct", "roc", True),
    "roc_from_aroc": ("aroc", "roc", True),
}
LOGFUNCS = ("diff_log", "adiff_log")
INT_SHIFTS = (-1, -2, -3, -4)
KW_SHIFTS = ("yoy", "soy", "eopy", "tty")
CUM_SHIFTS = (-1, -2, -3)
CUMFUNCS = ("diff", "diff_log", "pct", "roc")
INVALID_SHIFTS = (0, 1, 2, 3)


def freq_of(fname):
    return FCODE[fname]


def annual_factor(freq):
    if freq in C.REGULAR:
        return freq
    if freq == C.D:
        return 365
    return None                      # integer frequency: not documented


def ref_period(freq, o, shift):
    """ordinal of the documented reference period s, or None (start of year under 'tty')"""
    if isinstance(shift, int):
        return o + shift
    if shift == "yoy":
        return o - annual_factor(freq)
    y, seg = C.year_segment(freq, o)
    first = C.ordinal(freq, y, 1)
    if shift == "soy":
        return first
    if shift == "eopy":
        return first - 1
    if shift == "tty":
        return o - 1 if seg > 1 else None
    raise KeyError(shift)


def ref_change(freq, ref, func, shift):
    """(expected map, free keys) of a change function by the documented formula"""
    f = CHANGE[func]
    exp, free = {}, set()
    for (o, v), a in ref.items():
        s = ref_period(freq, o, shift)
        if s is None:
            if func in ("diff", "roc"):
                exp[(o, v)] = a            # documented: unchanged in start-of-year periods
            else:
                free.add((o, v))           # not pinned by the documentation
            continue
        b = ref.get((s, v))
        if b is not None:
            exp[(o, v)] = f(a, b)
    return exp, free


def shift_label(shift):
    return shift if isinstance(shift, str) else "%d" % shift


# ---------------------------------------------------------------------------
# series specifications
# ---------------------------------------------------------------------------
# spec = dict(freq=<name>, start=<ordinal>, L=<len>, nv=<variants>, masks=[[...], [...]], rot=<int>)

def spec_key(spec):
    return (spec["freq"], spec["start"], spec["L"], spec["nv"], tuple(tuple(m) for m in spec["masks"]))


def second_mask(L, mask, idx):
    """mask of variant 2: mirrored interior gaps plus a leading or trailing gap (never trimmed away
    because variant 1 is observed in the first and last row)"""
    m = {L - 1 - i for i in mask}
    if L >= 3:
        m.add(0 if idx % 2 == 0 else L - 1)
    return sorted(m)


def interior_masks(L, max_full, max_gaps_long):
    """all interior masks for L <= max_full, else all masks with <= max_gaps_long gaps"""
    inner = list(range(1, L - 1))
    if L <= max_full:
        for n in range(len(inner) + 1):
            for c in itertools.combinations(inner, n):
                yield list(c)
    else:
        for n in range(max_gaps_long + 1):
            for c in itertools.combinations(inner, n):
                yield list(c)


def starts_of(freq):
    if freq in C.REGULAR:
        return [C.ordinal(freq, 2020, s) for s in range(1, freq + 1)]
    if freq == C.I:
        return [-3, 4]
    if freq == C.D:
        return [dt.date(2019, 12, 28).toordinal(), dt.date(2020, 2, 26).toordinal(), dt.date(2020, 12, 29).toordinal()]
    raise KeyError(freq)


def max_len(freq):
    if freq in C.REGULAR:
        return 2 * freq + 2
    return 10 if freq == C.I else 8


# ---------------------------------------------------------------------------
# Part A — change functions
# ---------------------------------------------------------------------------

class SeriesSet:
    """the real series of one spec in the flavours needed, rebuilt on demand"""

    def __init__(self, spec):
        self.spec = spec
        self.freq = FCODE[spec["freq"]]
        self._cache = {}

    def get(self, flavour):
        if flavour not in self._cache:
            sp = self.spec
            s, ref = build(self.freq, sp["start"], sp["L"], sp["nv"], sp["masks"], sp["rot"], flavour)
            self._cache[flavour] = (s, ref, snapshot(s))
        return self._cache[flavour]

    def drop(self, flavour):
        self._cache.pop(flavour, None)

    def flavour_for(self, func):
        if func in ACHANGE or func in CONV:
            return "smooth"
        if func in LOGFUNCS:
            return "pos"
        return "mix" if self.spec["nv"] > 1 else "pos"


def _unchanged(ss, flavour, res, sig, case, what="input"):
    s, ref, snap = ss.get(flavour)
    if snapshot(s) != snap:
        res.violation("input_mutated", sig, case, "functional form changed its %s series" % what)
        ss.drop(flavour)
        return False
    return True


def eval_change(ss, func, shift, res, method=False):
    """one case of Part A: functional form vs formula (+ method form when asked)"""
    spec, freq = ss.spec, ss.freq
    fname = spec["freq"]
    flavour = ss.flavour_for(func)
    x, ref, _ = ss.get(flavour)
    lab = "default" if shift is None else shift_label(shift)
    sig = {"part": "change", "func": func, "shift": lab, "freq": fname}
    case = {"part": "change", "spec": spec, "func": func, "shift": shift}
    res.ev()
    kw = isinstance(shift, str)
    eff = -1 if shift is None else shift
    pinned = not (kw and freq == C.I)
    try:
        out = getattr(ir, func)(x) if shift is None else getattr(ir, func)(x, shift)
    except Exception as e:
        if not pinned:
            res.count("observed_integer_keyword_%s_%s" % (lab, type(e).__name__))
            return None
        res.violation("change_exception", dict(sig, error=type(e).__name__), case, "%s: %s" % (type(e).__name__, e))
        return None
    _unchanged(ss, flavour, res, sig, case)
    if not pinned:
        res.count("observed_integer_keyword_%s_returns" % lab)
        return out
    if not isinstance(out, ir.Series) or out is x:
        res.violation("change_return", sig, case, "functional form returned %r" % type(out).__name__)
        return None
    got = to_map(freq, out)
    exp, free = ref_change(freq, ref, func, eff)
    d = cmp_maps(got, exp, free)
    if d is not None:
        res.violation("change_formula", sig, case, d)
    if exp:
        res.nt(("change", spec_key(spec), func, lab))
        res.count("change_nontrivial")
        res.cls("change_shape", (fname, func, lab, min(len(exp), 6), len(free) > 0))
    else:
        res.count("change_all_missing")
    if kw and shift in ("soy", "eopy", "yoy"):
        # how many asserted values have their reference period in another calendar year
        n = sum(1 for (o, v) in exp if C.year_segment(freq, ref_period(freq, o, shift))[0] != C.year_segment(freq, o)[0])
        if n:
            res.count("keyword_cross_year_values", n)
    if shift == "tty":
        n = sum(1 for (o, v) in exp if ref_period(freq, o, "tty") is None)
        if n:
            res.count("tty_start_of_year_asserted", n)
        for k in free:
            g = got.get(k)
            res.count("observed_tty_soy_%s_%s" % (func, "nan" if g is None else ("inf" if math.isinf(g) else "value")))
    if method:
        y = x.copy()
        try:
            r = getattr(y, func)() if shift is None else getattr(y, func)(shift)
        except Exception as e:
            res.violation("method_exception", dict(sig, error=type(e).__name__), case, "%s: %s" % (type(e).__name__, e))
            return out
        res.ev()
        if r is not None:
            res.violation("method_return", sig, case, "in-place method returned %r" % (r,))
        if not same_maps(to_map(freq, y), got) or y.num_variants != out.num_variants:
            res.violation("method_vs_functional", sig, case, "in-place method result differs from the functional form")
        res.count("method_form_checked")
    return out


def eval_achange(ss, func, res, method=False, flavour=None):
    spec, freq = ss.spec, ss.freq
    fname = spec["freq"]
    flavour = flavour or ss.flavour_for(func)
    x, ref, _ = ss.get(flavour)
    a = annual_factor(freq)
    sig = {"part": "achange", "func": func, "freq": fname}
    case = {"part": "achange", "spec": spec, "func": func, "flavour": flavour}
    res.ev()
    try:
        out = getattr(ir, func)(x)
    except Exception as e:
        res.violation("change_exception", dict(sig, error=type(e).__name__), case, "%s: %s" % (type(e).__name__, e))
        return None
    _unchanged(ss, flavour, res, sig, case)
    got = to_map(freq, out)
    if a is None:
        # integer frequency: factor not documented; record whether it behaves like a == 1
        exp = {k: ACHANGE[func](v, ref[(k[0] - 1, k[1])], 1) for k, v in ref.items() if (k[0] - 1, k[1]) in ref}
        res.count("observed_integer_annualised_%s" % ("factor1" if cmp_maps(got, exp) is None else "other"))
        return out
    f = ACHANGE[func]
    exp = {}
    for (o, v), val in ref.items():
        b = ref.get((o - 1, v))
        if b is not None:
            exp[(o, v)] = f(val, b, a)
    d = cmp_maps(got, exp)
    if d is not None:
        res.violation("achange_formula", sig, case, d)
    if exp:
        res.nt(("achange", spec_key(spec), func, flavour))
        res.count("achange_nontrivial")
        if flavour == "smoothmix" and any(val * ref[(o - 1, v)] < 0 for (o, v), val in ref.items() if (o - 1, v) in ref):
            res.count("achange_with_sign_change")
    if method:
        y = x.copy()
        r = getattr(y, func)()
        res.ev()
        if r is not None or not same_maps(to_map(freq, y), got):
            res.violation("method_vs_functional", sig, case, "method form differs from functional form")
        res.count("method_form_checked")
    return out


def eval_converter(ss, conv, res, shift=-1, method=False):
    """(i) formula of the converter on a rate series; (ii) converter(source change) == target change,
    both computed by the implementation, and == the documented target formula"""
    spec, freq = ss.spec, ss.freq
    fname = spec["freq"]
    src, dst, annual = ROUNDTRIP[conv]
    a = annual_factor(freq)
    case = {"part": "converter", "spec": spec, "func": conv, "shift": shift}
    lab = shift_label(shift)
    sig = {"part": "converter", "func": conv, "freq": fname}
    x, ref, _ = ss.get("smooth")
    if annual and a is None:
        res.count("observed_integer_converter_skipped")
        return
    if freq == C.I and isinstance(shift, str):
        return
    aa = a if annual else 1
    # (i) direct formula, the smooth series read as a rate in percent / as a gross rate
    if shift == -1:
        res.ev()
        try:
            out = getattr(ir, conv)(x)
            _unchanged(ss, "smooth", res, sig, case)
            exp = {k: CONV[conv](v, aa) for k, v in ref.items()}
            d = cmp_maps(to_map(freq, out), exp)
            if d is not None:
                res.violation("converter", dict(sig, mode="formula"), case, d)
            res.nt(("conv_formula", spec_key(spec), conv))
            res.count("converter_formula_checked")
            if method:
                y = x.copy()
                r = getattr(y, conv)()
                res.ev()
                if r is not None or not same_maps(to_map(freq, y), to_map(freq, out)):
                    res.violation("method_vs_functional", sig, case, "method form differs from functional form")
                res.count("method_form_checked")
        except Exception as e:
            res.violation("converter", dict(sig, mode="formula", error=type(e).__name__), case, "%s: %s" % (type(e).__name__, e))
    # (ii) consistency with the change functions
    res.ev()
    try:
        if annual:
            s_out = getattr(ir, src)(x)
            t_out = getattr(ir, dst)(x, -1)
            exp, free = ref_change(freq, ref, dst, -1)
        else:
            s_out = getattr(ir, src)(x, shift)
            t_out = getattr(ir, dst)(x, shift)
            exp, free = ref_change(freq, ref, dst, shift)
            if shift == "tty":
                # start-of-year periods: pct is not pinned there, so neither is its conversion
                free = {k for k in ref if ref_period(freq, k[0], "tty") is None}
        snap = snapshot(s_out)
        c_out = getattr(ir, conv)(s_out)
        if snapshot(s_out) != snap:
            res.violation("input_mutated", sig, case, "converter changed its input series")
        got = to_map(freq, c_out)
        d = cmp_maps(got, to_map(freq, t_out), free, tol=1e-8)
        if d is None:
            d = cmp_maps(got, exp, free, tol=1e-8)
        if d is not None:
            res.violation("converter", dict(sig, mode="roundtrip"), case, "%s(%s(x)) vs %s(x), shift %s: %s" % (conv, src, dst, lab, d))
        if any(k not in free for k in exp):
            res.nt(("conv_roundtrip", spec_key(spec), conv, lab))
            res.count("converter_roundtrip_nontrivial")
    except Exception as e:
        res.violation("converter", dict(sig, mode="roundtrip", error=type(e).__name__), case, "%s: %s" % (type(e).__name__, e))


CONV_SHIFTS = {0: (-1, -3, "yoy", "soy", "eopy", "tty"), 1: (-1, "tty"), 2: (-1,)}


def shard_change(item, res, ctx):
    """item = (freq name, start, nv, [L...], max_full, max_gaps_long, method_level, rot).
    Treatment by number of interior gaps g of variant 1: g <= 1 also the default shift; method form
    when g <= method_level; converter consistency at 6 / 2 / 1 shifts for g = 0 / 1 / >= 2."""
    fname, start, nv, lengths, max_full, max_gaps_long, method_level, rot = item
    freq = FCODE[fname]
    for L in lengths:
        for idx, mask in enumerate(interior_masks(L, max_full, max_gaps_long)):
            masks = [mask] if nv == 1 else [mask, second_mask(L, mask, idx)]
            spec = {"freq": fname, "start": start, "L": L, "nv": nv, "masks": masks, "rot": rot}
            ss = SeriesSet(spec)
            level = min(len(mask), 2)
            method = level <= method_level
            shifts = ((None,) if level <= 1 else ()) + INT_SHIFTS + KW_SHIFTS
            for func in CHANGE:
                for shift in shifts:
                    eval_change(ss, func, shift, res, method=method)
            for func in ACHANGE:
                eval_achange(ss, func, res, method=method)
                if func != "adiff_log":
                    # integer powers of a negative ratio are defined: annualised rates across a change of sign
                    eval_achange(ss, func, res, method=False, flavour="smoothmix")
                else:
                    # a*(log x - log y) stays moderate however large the ratio (365*log(10) = 840): no power is involved
                    eval_achange(ss, func, res, method=False, flavour="jump")
            for conv in CONV:
                if ROUNDTRIP[conv][2]:
                    eval_converter(ss, conv, res, -1, method=method)
                else:
                    for shift in CONV_SHIFTS[level]:
                        eval_converter(ss, conv, res, shift, method=method)
            if idx == 0 and L == 5 and start == starts_of(freq)[0] and (fname, nv) in (("Q", 1), ("M", 2)):
                res.sample({"part": "change", "spec": spec, "functions": sorted(CHANGE) + sorted(ACHANGE) + sorted(CONV)})


def shard_daily_long(item, res, ctx):
    """one long daily series so that yoy (t-365) and soy/eopy across a leap year are non-empty"""
    start, L, rot = item
    spec = {"freq": "D", "start": start, "L": L, "nv": 1, "masks": [[]], "rot": rot}
    ss = SeriesSet(spec)
    for func in CHANGE:
        for shift in (-1,) + KW_SHIFTS:
            eval_change(ss, func, shift, res, method=(func == "diff"))
    # forward cumulation with keyword shifts over the long series: the whole range, the part after the first year end,
    # the part from day 366 on (yoy has a reference there) and a span inside the last year
    e0 = start + L - 1
    spans = sorted({(start, e0), (start + 30, e0), (start + 366, e0), (start + 380, min(e0, start + 420)), (e0 - 20, e0)})
    for func in CUMFUNCS:
        for kw in KW_SHIFTS:
            for a, b in spans:
                if start <= a <= b <= e0:
                    eval_cum_kw(ss, func, kw, a, b, res)
                    res.count("cum_keyword_long_daily")
    res.sample({"part": "change", "spec": spec, "functions": sorted(CHANGE), "shifts": [-1] + list(KW_SHIFTS)})


# ---------------------------------------------------------------------------
# Part B — cumulation inverts the change
# ---------------------------------------------------------------------------

def intact_forward(refx, nv, a, b, k):
    """periods of [a-k, b] whose recursion chain back to the initial condition has no missing original"""
    ok = set()
    for v in range(nv):
        for t in range(a - k, b + 1):
            if (t, v) not in refx:
                continue
            if t < a or (t - k, v) in ok:
                ok.add((t, v))
    return ok


def intact_backward(refx, nv, a, b, k):
    ok = set()
    for v in range(nv):
        for t in range(b + k, a - 1, -1):
            if (t, v) not in refx:
                continue
            if t > b or (t + k, v) in ok:
                ok.add((t, v))
    return ok


def eval_cum(ss, func, k, direction, a, b, res, change=None, method=False, default_span=False):
    """one cumulation: span [a, b] forward or [b -> a] backward, shift -k, initial = original"""
    spec, freq = ss.spec, ss.freq
    fname = spec["freq"]
    nv = spec["nv"]
    flavour = "pos" if func == "diff_log" else ("mix" if nv > 1 else "pos")
    x, refx, _ = ss.get(flavour)
    sig = {"part": "cum", "func": "cum_" + func, "shift": "%d" % -k, "direction": direction, "freq": fname}
    case = {"part": "cum", "spec": spec, "func": func, "k": k, "direction": direction, "a": a, "b": b,
            "default_span": bool(default_span)}
    res.ev()
    try:
        c = change if change is not None else getattr(ir, func)(x, -k)
        csnap = snapshot(c)
        if default_span and direction == "backward":
            span = D.Span(None, None, -1)           # fully open backward span = the whole reconstructable range
            out = getattr(ir, "cum_" + func)(c, -k, x, span)
        elif default_span:
            out = getattr(ir, "cum_" + func)(c, -k, x)
        else:
            span = (mk(freq, a) >> mk(freq, b)) if direction == "forward" else D.Span(mk(freq, b), mk(freq, a), -1)
            out = getattr(ir, "cum_" + func)(c, -k, x, span)
    except Exception as e:
        res.violation("cum_exception", dict(sig, error=type(e).__name__), case, "%s: %s" % (type(e).__name__, e))
        return True
    dirty = False
    if snapshot(c) != csnap:
        res.violation("input_mutated", sig, case, "functional cumulation changed the change series")
        dirty = True
    if not _unchanged(ss, flavour, res, sig, case, what="initial-condition"):
        dirty = True
    got = to_map(freq, out)
    if direction == "forward":
        lo, hi = a - k, b
        ok = intact_forward(refx, nv, a, b, k)
        written = range(a, b + 1)
    else:
        lo, hi = a, b + k
        ok = intact_backward(refx, nv, a, b, k)
        written = range(a, b + 1)
    bad = None
    behind_gap = 0
    for v in range(nv):
        for t in range(lo, hi + 1):
            key = (t, v)
            g = got.get(key)
            if key in ok:
                e = refx[key]
                if g is None or not (abs(g - e) <= TOL * max(1.0, abs(e))):
                    bad = bad or "period %d variant %d: cumulated %r, original %r" % (t, v, g, e)
            elif key not in refx:
                if g is not None:
                    bad = bad or "period %d variant %d: cumulated %r where the original is missing" % (t, v, g)
            else:
                behind_gap += 1
    if bad:
        res.violation("cum_inverse", sig, case, bad)
    outside = sum(1 for (t, v) in got if t < lo or t > hi)
    if outside:
        res.count("observed_values_outside_cumulation_span", outside)
    if behind_gap:
        res.count("observed_periods_behind_gap", behind_gap)
    if any((t, v) in ok for t in written for v in range(nv)):
        res.nt(("cum", spec_key(spec), func, k, direction, a, b, bool(default_span)))
        res.count("cum_%s_nontrivial" % direction)
        res.cls("cum_shape", (fname, func, k, direction, min(b - a + 1, 6)))
    if method:
        c2 = c.copy()
        try:
            if default_span and direction == "backward":
                r = getattr(c2, "cum_" + func)(shift=-k, initial=x, span=span)
            elif default_span:
                r = getattr(c2, "cum_" + func)(shift=-k, initial=x)
            else:
                r = getattr(c2, "cum_" + func)(shift=-k, initial=x, span=span)
            res.ev()
            if r is not None or not same_maps(to_map(freq, c2), got):
                res.violation("method_vs_functional", sig, case, "in-place cumulation differs from the functional form")
            res.count("method_form_checked")
        except Exception as e:
            res.violation("method_exception", dict(sig, error=type(e).__name__), case, "%s: %s" % (type(e).__name__, e))
    return dirty


def eval_cum_kw(ss, func, kw, a, b, res):
    """forward cumulation over [a, b] with a keyword shift, initial = original.  Period t takes
    cum(level at the documented reference period of t, change at t); a start-of-year period keeps the level of the
    initial condition ('tty': it is skipped; 'soy': it refers to itself and its change is neutral)."""
    spec, freq = ss.spec, ss.freq
    fname = spec["freq"]
    nv = spec["nv"]
    flavour = "pos" if func == "diff_log" else ("mix" if nv > 1 else "pos")
    x, refx, _ = ss.get(flavour)
    sig = {"part": "cum", "func": "cum_" + func, "shift": kw, "direction": "forward", "freq": fname}
    case = {"part": "cum_kw", "spec": spec, "func": func, "kw": kw, "a": a, "b": b}
    res.ev()
    try:
        c = getattr(ir, func)(x, kw)
        out = getattr(ir, "cum_" + func)(c, kw, x, mk(freq, a) >> mk(freq, b))
    except Exception as e:
        res.violation("cum_exception", dict(sig, error=type(e).__name__), case, "%s: %s" % (type(e).__name__, e))
        return
    _unchanged(ss, flavour, res, sig, case, what="initial-condition")
    got = to_map(freq, out)
    ok = set()
    for v in range(nv):
        for t in range(a, b + 1):
            if (t, v) not in refx:
                continue
            s_ = ref_period(freq, t, kw)
            if s_ is None or s_ == t:
                ok.add((t, v))                      # level of the initial condition
            elif (s_ < a and (s_, v) in refx) or (s_, v) in ok:
                ok.add((t, v))
    bad = None
    for v in range(nv):
        for t in range(a, b + 1):
            key = (t, v)
            g = got.get(key)
            if key in ok:
                e = refx[key]
                if g is None or not (abs(g - e) <= TOL * max(1.0, abs(e))):
                    bad = bad or "period %d variant %d: cumulated %r, original %r" % (t, v, g, e)
            elif key not in refx and g is not None:
                bad = bad or "period %d variant %d: cumulated %r where the original is missing" % (t, v, g)
    if bad:
        res.violation("cum_inverse", sig, case, bad)
    if ok:
        res.nt(("cum_kw", spec_key(spec), func, kw, a, b))
        res.count("cum_keyword_nontrivial")
        if any(ref_period(freq, t, kw) in (None, t) for (t, v) in ok if t > a):
            res.count("cum_keyword_start_of_year_inside_span")


def cum_all_spans(ss, funcs, shifts, res):
    spec, freq = ss.spec, ss.freq
    L, s0 = spec["L"], spec["start"]
    e0 = s0 + L - 1
    if freq != C.I:
        # keyword shifts (forward): every start, ending at the same period, in the middle and at the end
        for func in funcs:
            for kw in KW_SHIFTS:
                for a in range(s0, e0 + 1):
                    for b in sorted({a, (a + e0) // 2, e0}):
                        eval_cum_kw(ss, func, kw, a, b, res)
    for func in funcs:
        flavour = "pos" if func == "diff_log" else ("mix" if spec["nv"] > 1 else "pos")
        for k in shifts:
            if L - k < 1:
                continue

            def fresh_change():
                x = ss.get(flavour)[0]
                try:
                    return getattr(ir, func)(x, -k)
                except Exception:
                    return None          # eval_cum reports the exception itself
            c = fresh_change()
            # default span = the whole change series, forward
            refc, _free = ref_change(freq, ss.get(flavour)[1], func, -k)
            if refc:
                ca, cb = min(o for o, v in refc), max(o for o, v in refc)
                if eval_cum(ss, func, k, "forward", ca, cb, res, change=c, method=True, default_span=True):
                    c = fresh_change()
            # forward: change defined on [s0+k, e0]
            for a in range(s0 + k, e0 + 1):
                for b in range(a, e0 + 1):
                    full = (a == s0 + k and b == e0) or (a == b)
                    if eval_cum(ss, func, k, "forward", a, b, res, change=c, method=full):
                        c = fresh_change()
            # backward: periods [a, b] are reconstructed from [.., b+k]
            for a in range(s0, e0 - k + 1):
                for b in range(a, e0 - k + 1):
                    full = (a == s0 and b == e0 - k) or (a == b)
                    if eval_cum(ss, func, k, "backward", a, b, res, change=c, method=full):
                        c = fresh_change()
                    if a == s0 and b == e0 - k:
                        # the default (fully open) backward span: from the end to the start of the change series
                        # as stored (its own first and last available observation), both moved by the shift
                        cm = to_map(ss.freq, c)
                        if cm:
                            a_def, b_def = min(t for (t, _) in cm) - k, max(t for (t, _) in cm) - k
                            if a_def <= b_def and eval_cum(ss, func, k, "backward", a_def, b_def, res, change=c, method=False, default_span=True):
                                c = fresh_change()


def shard_cum(item, res, ctx):
    """item = (freq name, start, L, nv, masks-of-variant-1 list, funcs, shifts, rot)"""
    fname, start, L, nv, masklist, funcs, shifts, rot = item
    for idx, mask in enumerate(masklist):
        masks = [mask] if nv == 1 else [mask, second_mask(L, mask, idx)]
        spec = {"freq": fname, "start": start, "L": L, "nv": nv, "masks": masks, "rot": rot}
        ss = SeriesSet(spec)
        cum_all_spans(ss, funcs, shifts, res)
        if idx == 0 and L == 6 and nv == 1 and not mask and start == starts_of(FCODE[fname])[0] and fname in ("M", "D"):
            res.sample({"part": "cum", "spec": spec, "functions": ["cum_" + f for f in funcs], "shifts": [-k for k in shifts],
                        "spans": "every forward [a,b] and backward [b->a] sub-span"})


# ---------------------------------------------------------------------------
# Part C — invalid shifts are rejected
# ---------------------------------------------------------------------------

def eval_invalid(ss, func, shift, form, res):
    spec, freq = ss.spec, ss.freq
    x, refx, _ = ss.get("pos")
    sig = {"part": "invalid", "func": func, "shift": "%d" % shift, "form": form, "freq": spec["freq"]}
    case = {"part": "invalid", "spec": spec, "func": func, "shift": shift, "form": form}
    res.ev()
    try:
        if form == "functional":
            r = getattr(ir, func)(x, shift)
        else:
            y = x.copy()
            r = getattr(y, func)(shift)
    except Exception as e:
        res.count("invalid_shift_rejected")
        res.nt(("invalid", spec_key(spec), func, shift, form))
        res.cls("invalid_error", type(e).__name__)
        return
    res.violation("invalid_shift_accepted", sig, case, "shift=%d did not raise" % shift)


def eval_odd_shift(ss, func, shift_name, res):
    """not pinned by the statement: None / float / numpy-integer shifts are only recorded"""
    x, _, _ = ss.get("pos")
    shift = {"none": None, "float": -1.0, "npint": np.int64(-1), "frac": -1.5}[shift_name]
    res.ev()
    try:
        getattr(ir, func)(x, shift)
        res.count("observed_shift_%s_%s_accepted" % (shift_name, func))
    except Exception as e:
        res.count("observed_shift_%s_%s_%s" % (shift_name, func, type(e).__name__))


def shard_invalid(item, res, ctx):
    fname, start, L, rot = item
    spec = {"freq": fname, "start": start, "L": L, "nv": 1, "masks": [[]], "rot": rot}
    ss = SeriesSet(spec)
    for func in list(CHANGE) + ["cum_" + f for f in CUMFUNCS]:
        for shift in INVALID_SHIFTS:
            for form in ("functional", "method"):
                eval_invalid(ss, func, shift, form, res)
        for name in ("none", "float", "npint", "frac"):
            eval_odd_shift(ss, func, name, res)
    if fname == "Q" and start == starts_of(freq_of(fname))[0]:
        res.sample({"part": "invalid", "spec": spec, "functions": list(CHANGE) + ["cum_" + f for f in CUMFUNCS],
                    "shifts": list(INVALID_SHIFTS), "forms": ["functional", "method"]})
    # empty input: recorded only
    for func in CHANGE:
        for shift in (-1, "yoy", "soy", "tty"):
            try:
                o = getattr(ir, func)(ir.Series(), shift)
                res.count("observed_empty_input_%s" % ("empty" if o.start is None else "nonempty"))
            except Exception as e:
                res.count("observed_empty_input_%s" % type(e).__name__)


# ---------------------------------------------------------------------------
# driver
# ---------------------------------------------------------------------------

FREQS = (C.M, C.Q, C.H, C.Y, C.I, C.D)


def _chunks(seq, n):
    seq = list(seq)
    for i in range(0, len(seq), n):
        yield seq[i:i + n]


def plan(ctx):
    rot = (ctx.seed * 7) % NTAB
    quick = ctx.quick
    change, cum, invalid = [], [], []
    # ---- Part A -----------------------------------------------------------
    for freq in FREQS:
        fname = C.NAMES[freq]
        ml = max_len(freq)
        if quick and freq in C.REGULAR:
            lengths = sorted(set(range(1, min(ml, freq + 2) + 1)) | {ml - 1, ml})
        else:
            lengths = list(range(1, ml + 1))
        for start in starts_of(freq):
            for nv in (1, 2):
                if quick:
                    max_full = 8 if nv == 1 else 5
                    gaps_long = 1
                    method_level = 0
                else:
                    max_full = 10
                    gaps_long = 2
                    method_level = 1
                # cost of one length ~ number of masks; split so that shards are comparable
                groups, cur, w = [], [], 0
                for L in lengths:
                    n = sum(1 for _ in interior_masks(L, max_full, gaps_long))
                    if cur and w + n > (130 if quick else 300):
                        groups.append((w, cur))
                        cur, w = [], 0
                    cur.append(L)
                    w += n
                if cur:
                    groups.append((w, cur))
                for w, g in groups:
                    change.append((w, (fname, start, nv, g, max_full, gaps_long, method_level, rot)))
    change.sort(key=lambda t: -t[0])
    change = [c for _, c in change]
    # ---- Part B -----------------------------------------------------------
    for freq in FREQS:
        fname = C.NAMES[freq]
        ml = max_len(freq)
        for start in starts_of(freq):
            top = min(ml, 8) if quick else ml
            for L in range(2, top + 1):
                w = L ** 3
                ks = (1, 2, 3) if (quick or L > 12) else (1, 2, 3, 4)
                if L > 14:
                    for f in CUMFUNCS:
                        for k in ks:
                            cum.append((w / 12.0, (fname, start, L, 1, [[]], (f,), (k,), rot)))
                else:
                    cum.append((w, (fname, start, L, 1, [[]], CUMFUNCS, ks, rot)))
            # two variants (second one with mixed signs and its own gaps)
            for L in ((5,) if quick else range(3, min(ml, 10) + 1)):
                if L <= ml:
                    cum.append((L ** 3, (fname, start, L, 2, [[]] + [[i] for i in range(1, L - 1)][:(1 if quick else 99)],
                                         CUMFUNCS, (1, 2, 3), rot)))
            # gaps: quick = every single interior gap at length 6; thorough = all masks up to 7, singles 8..10
            if quick:
                if ml >= 6:
                    cum.append((4 * 6 ** 3, (fname, start, 6, 1, [[i] for i in range(1, 5)], CUMFUNCS, (1, 2, 3), rot)))
                elif ml >= 4:
                    cum.append((2 * 4 ** 3, (fname, start, 4, 1, [[1], [2]], CUMFUNCS, (1, 2, 3), rot)))
            else:
                for L in range(3, min(ml, 10) + 1):
                    masks = [m for m in interior_masks(L, 7, 1) if m]
                    for ch in _chunks(masks, 8):
                        cum.append((len(ch) * L ** 3, (fname, start, L, 1, ch, CUMFUNCS, (1, 2, 3), rot)))
    cum.sort(key=lambda t: -t[0])
    cum = [c for _, c in cum]
    # ---- Part C -----------------------------------------------------------
    for freq in FREQS:
        for start in starts_of(freq):
            invalid.append((C.NAMES[freq], start, min(5, max_len(freq)), rot))
    daily = [(dt.date(2019, 12, 30).toordinal(), 370, rot), (dt.date(2020, 12, 30).toordinal(), 368, rot), (dt.date(2019, 12, 10).toordinal(), 430, rot)]
    return change, cum, invalid, daily


def run(ctx, total, info):
    change, cum, invalid, daily = plan(ctx)
    engine.run_shards(__name__, "shard_invalid", invalid, ctx, total)
    engine.run_shards(__name__, "shard_daily_long", daily, ctx, total)
    n0 = total.evaluations
    engine.run_shards(__name__, "shard_cum", cum, ctx, total)
    n_cum = total.evaluations - n0
    engine.run_shards(__name__, "shard_change", change, ctx, total)
    cnt = total.counters
    info["exhaustive"] = True
    info["bound_completed"] = {"change_masks_all_up_to_length": 8 if ctx.quick else 10,
                               "change_gaps_beyond": 1 if ctx.quick else 2,
                               "cumulation_max_length": "min(2y+2, 8)" if ctx.quick else "2y+2",
                               "change_lengths": "1..y+2, 2y+1, 2y+2" if ctx.quick else "1..2y+2",
                               "cumulation_shifts": [-1, -2, -3] if ctx.quick else "-1,-2,-3 (and -4 for gap-free lengths <= 12)"}
    info["space"] = {"frequencies": [C.NAMES[f] for f in FREQS], "shards": {"change": len(change), "cum": len(cum),
                     "invalid": len(invalid), "daily_long": len(daily)},
                     "cumulation_evaluations": n_cum, "value_table_rotation": (ctx.seed * 7) % NTAB}
    q = ctx.quick
    info["floors"] = {        # ~50 % of what the unchanged tree measures (quick / thorough)
        "evaluations": (total.evaluations, 200000 if q else 3000000),
        "distinct_nontrivial": (len(total.nontrivial), 150000 if q else 2500000),
        "change_nontrivial": (cnt.get("change_nontrivial", 0), 80000 if q else 1100000),
        "achange_nontrivial": (cnt.get("achange_nontrivial", 0), 10000 if q else 150000),
        "converter_roundtrip_nontrivial": (cnt.get("converter_roundtrip_nontrivial", 0), 18000 if q else 200000),
        "cum_forward_nontrivial": (cnt.get("cum_forward_nontrivial", 0), 15000 if q else 400000),
        "cum_keyword_start_of_year_inside_span": (cnt.get("cum_keyword_start_of_year_inside_span", 0), 2000),
        "achange_with_sign_change": (cnt.get("achange_with_sign_change", 0), 3000),
        "cum_keyword_long_daily": (cnt.get("cum_keyword_long_daily", 0), 150),
        "cum_backward_nontrivial": (cnt.get("cum_backward_nontrivial", 0), 13000 if q else 390000),
        "tty_start_of_year_asserted": (cnt.get("tty_start_of_year_asserted", 0), 7500 if q else 150000),
        "keyword_cross_year_values": (cnt.get("keyword_cross_year_values", 0), 130000 if q else 3400000),
        "invalid_shift_rejected": (cnt.get("invalid_shift_rejected", 0), 1000),
        "method_form_checked": (cnt.get("method_form_checked", 0), 28000 if q else 440000),
    }


# ---------------------------------------------------------------------------
# replay
# ---------------------------------------------------------------------------

def replay(case):
    res = engine.Result()
    part = case.get("part")
    spec = case["spec"]
    spec = dict(spec, masks=[list(m) for m in spec["masks"]])
    ss = SeriesSet(spec)
    if part == "change":
        eval_change(ss, case["func"], case["shift"], res, method=True)
    elif part == "achange":
        eval_achange(ss, case["func"], res, method=True, flavour=case.get("flavour"))
    elif part == "converter":
        eval_converter(ss, case["func"], res, case.get("shift", -1), method=True)
    elif part == "cum":
        eval_cum(ss, case["func"], case["k"], case["direction"], case["a"], case["b"], res, method=True,
                 default_span=case.get("default_span", False))
    elif part == "cum_kw":
        eval_cum_kw(ss, case["func"], case["kw"], case["a"], case["b"], res)
    elif part == "invalid":
        eval_invalid(ss, case["func"], case["shift"], case["form"], res)
    return ["%s %s %s" % (v["check"], engine.sigkey(v["signature"]), v["detail"]) for v in res.violations]
