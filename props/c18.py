"""C18 — reduced-form VAR estimates are the least-squares solution and reproduce the data.

Bounded exhaustive enumeration of
    (n_endog, n_exog, order, intercept, dof_correction, prior dummies, number of variants)
  x every pattern of <= 2 missing data items in the (12 + order)-period data table,
each estimated by the real ``irispie.RedVAR`` and compared with an independent numpy reference
(ref/c18_varols.py): own lag stacking and complete-row mask, normal equations, data
reproduction, exact recovery of a known generating VAR from noise-free data, residual second
moments, own prior dummy observations, own companion form (mean, eigenvalues, Lyapunov
autocovariances) and re-simulation of every run of fitted periods.

Call histories and the caller's objects: on every estimate / simulate call of that space the input databox and any
databox passed as ``target_db`` (not given | a separate databox | the input databox itself) must hold afterwards what
they held before; and every word of <= 2 (all configurations) / 3 (quick: four configurations) letters over the
16-letter alphabet of ref.c18_varols.history_alphabet() - estimate {short span, long span} x target_db {none, separate,
the input databox} x {same model object, fresh one}; simulate with target_db {none, the data databox, its own input};
the caller overwriting the returned databox in place - is run on ONE databox, every estimate of the word being held
to the single-call oracles on the ORIGINAL table over its own span.
"""
import copy
import itertools
import re

import numpy as np

import irispie as ir

from mc import engine
from ref import c18_varols as R

PROPERTY = "C18"
LEVEL = "exploration"
RULE = ("product of n_endog{1,2,3} x n_exog{0,1} x order{1,2,3} x intercept{T,F} x dof_correction{T,F} x prior dummies "
        "{none, Minnesota, mean, both} x variants{1,2} x every pattern of missing data items over the 12+order periods of the "
        "data table. quick: items = (one endogenous variable rotating with the period | the exogenous variable, period), all "
        "patterns of <=1 item everywhere and all pairs without priors for (1 variant, dof off) and (2 variants, dof on). thorough: items = every (variable, period) cell, all "
        "patterns of <=2 cells for every prior and two prior parameter settings, plus all patterns of exactly 3 quick-level "
        "items without priors. The second variant of a two-variant case carries the mirror image of the pattern. Variant 1 of "
        "a two-variant case is a noise-free path of a known stable VAR, every other data set a deterministic pseudo-random "
        "table (tables, prior parameters and the calendar frequency rotate with the seed). A (case, variant) is non-trivial "
        "when the reference's own augmented regressor matrix has full rank and condition number <= 1e8 and all estimation "
        "oracles were evaluated; distinct = (configuration, prior setting, variant, data kind, missing pattern). The target_db of "
        "each of these calls rotates with the pattern index over {not given, a separate databox, the input databox itself} "
        "(simulate: {not given, the data databox, simulate's own input}, rotating with the run), so every group sees all of them. "
        "HISTORIES: every valid word of 1..L letters over the alphabet {E(span in {short = rows 7-24, long = rows 0-29 of a "
        "30-period table}, target_db in {none, separate, input databox}, model in {same object, fresh}), S(target_db in {none, "
        "data databox, own input}) = simulate every run of fitted periods of the last estimate, X = overwrite in place every "
        "series of the databox the last estimate returned}; valid = starts with E on a fresh model, S and X need a returned "
        "databox that was not overwritten (6 / 96 / 1512 words of 1 / 2 / 3 letters). quick: L = 2 for all 36 configurations x "
        "3 missing patterns (none | a hole inside the short span | holes only outside it) with 1 variant, and for 4 "
        "configurations x 2 patterns with 2 variants; L = 3 for 4 configurations (every value of every dimension) x the "
        "hole-inside pattern. thorough: L = 3 for all configurations x 3 patterns (1 variant) and the hole-inside pattern "
        "(2 variants), L = 2 for the other patterns with 2 variants. A history is non-trivial when every estimate and "
        "simulate of the word was evaluated on at least one well-posed variant; distinct = (configuration, variants, pattern, word)")
MANIFEST_ENTRY = dict(
    level="exploration", design="DESIGN.md section 4 / C18",
    technique="bounded exhaustive enumeration of VAR configurations x missing-data patterns, and of all call histories of <= 3 letters on one databox / model object, against an independent numpy least-squares / companion-form reference",
    text="For every configuration (1-3 endogenous, 0-1 exogenous variables, order 1-3, intercept on/off, dof_correction on/off, "
         "prior dummies none/Minnesota/mean/both, 1-2 variants) and every pattern of missing data items in a 12-period sample "
         "(quick: <=2 items at (block, period) level, 29 616 estimate calls / ~44k variant estimates; thorough: <=2 items at "
         "(variable, period) cell level for all priors plus all triples at block level, 993 992 calls / ~1.5M variant estimates) "
         "RedVAR.estimate is checked against the normal equations on exactly the reference's complete rows (augmented by the "
         "reference's own dummy observations), data = fit + stored residual, exact recovery of the generating A, B, c from "
         "noise-free data, cov_residuals = residual second moment over an admissible divisor, get_mean / get_eigenvalues / "
         "get_acov against the reference's companion form (Kronecker Lyapunov solve), and simulate over every maximal run of "
         "fitted periods against the data. Call histories: each of these calls is made with target_db not given / a separate "
         "databox / the input databox itself (rotating) and must leave the input databox, the target and the databox an "
         "earlier call returned exactly as they were (names, start, values of every series; ~390k comparisons quick). In "
         "addition every word of <= 2 letters (all configurations x 3 missing patterns; quick 11 832 histories) and of 3 "
         "letters (quick: 4 configurations, 6 048 histories; thorough: all configurations, ~240k histories) over a 16-letter "
         "alphabet (estimate short/long span x target_db none/separate/input x same/fresh model object; simulate with 3 "
         "targets; caller overwrites the returned databox) is run on one 30-period databox: every estimate of the word must "
         "pass the single-call oracles (residuals on exactly the complete rows, normal equations, lstsq, fit + residual, "
         "recovery, covariance, mean, eigenvalues, autocovariances at the last estimate) computed from the ORIGINAL table over "
         "its own span, every simulate must reproduce the original data, and a model object replaced by a fresh one must "
         "still report its own estimates at the end.",
    note="Trusted: numpy linear algebra, the 200-line reference in ref/c18_varols.py. Not covered: more than 3 endogenous / 1 "
         "exogenous variables, order > 3, more than 2 (3) missing items, omit_missing=False, resample, other sample lengths, "
         "data values off the tables (all oracles are identities that hold for any data, evaluated on 2 data kinds x seed). "
         "Cases whose own regressor matrix is rank deficient or has condition number > 1e8 are excluded and counted; "
         "autocovariances are asserted only for a reference spectral radius < 0.98. The dof divisor, the scale of the Minnesota "
         "dummies and the role of dummy residuals in the covariance are undocumented: recorded, not gated. The three defects "
         "found here (intercept=False crash, order >= 2 simulate state, exogenous impact padding) were repaired in /repo "
         "(1d7f54c, de562d4, 25d401b; DESIGN.md 9.3), so those parts of the space are now reached in full. Histories: no "
         "priors / dof correction, words longer than 3 letters, input taken from a databox an earlier call RETURNED (its "
         "series are cut to that call's span by design), resample, and in-place changes of the matrices handed out by the "
         "accessors are not covered.")
ASSUMPTIONS = [
    "numpy.linalg (lstsq, solve, svd, eigvals, cond) is correct",
    "the degrees-of-freedom divisor is undocumented: T_fit - (n_exog + intercept) and T_fit - (all regressors per equation) are both admitted, the one observed is recorded; where the second is not positive nothing is asserted about the covariance",
    "the scale (sigma) of the Minnesota dummy observations is undocumented: sigma = 1 and sigma = residual std of the regression on exogenous+constant are both admitted, the one observed is recorded",
    "with dummy observations both 'second moment of the sample residuals over T_fit' and 'second moment of sample+dummy residuals over T_fit + number of dummies' are admitted, the one observed is recorded",
    "Minnesota dummies: prior A_1 = diag(rho), A_l = 0, tightness mu * l^kappa, zero exogenous/constant columns; mean dummy (only with intercept): mu*mean at every lag, mu in the constant column",
    "re-simulation is asserted on every maximal run of consecutive fitted periods (with missing rows the estimation span is not one run)",
    "caller's objects: RedVAR.estimate / simulate have empty docstrings; the tree returns `target_db | output`, a NEW databox, and the "
    "package's own tests (tests/vars/red_var_test.py) pass one module-level databox as input and as target_db to one estimate after "
    "the other without re-assigning it. Decision: the INPUT databox must never change (also when it is passed as target_db - a "
    "change there cuts its series to the span of the call, and any later estimate from the same databox is then no longer least "
    "squares on the complete periods of the caller's data: gated directly and through the history oracles); a SEPARATE target_db "
    "and a databox returned by an earlier call are held to the same rule (signature object=separate_target / returned_by_estimate_N, "
    "so that they can be told apart). What the returned databox keeps of the target's other items is not asserted",
    "histories: the reference model is 'no call changes the caller's table; a model object holds the estimates of its last estimate "
    "call'; expected values always come from the harness's own arrays, never from a databox that went through a call",
]

BASE_T = 12
ENDOG = ("w", "k", "q")          # deliberately not in alphabetical order
EXOG = ("g",)
COND_MAX = 1e8                   # general oracle-side guard
COND_RECOVERY = 1e3              # exact recovery is asserted to 1e-8: needs cond^2 * eps << 1e-8
STABLE_MAX = 0.98                # autocovariances asserted only when the reference's spectral radius is below this
EPS = np.finfo(float).eps

STARTS = (lambda: ir.qq(2001, 2), lambda: ir.mm(2001, 11), lambda: ir.yy(2001), lambda: ir.ii(7))


# ---------------------------------------------------------------------------
# the space
# ---------------------------------------------------------------------------

CONFIGS = [(n, nx, p, ic) for n in (1, 2, 3) for nx in (0, 1) for p in (1, 2, 3) for ic in (True, False)]
PRIORS = ("none", "minnesota", "mean", "both")


def items_of(n, nx, p, level, seed):
    """the data items that can be missing: (variable index, period index); variable n.. = exogenous"""
    P = BASE_T + p
    if level == "cell":
        return [(v, t) for v in range(n + nx) for t in range(P)]
    out = [((t + seed) % n, t) for t in range(P)]
    out += [(n + j, t) for j in range(nx) for t in range(P)]
    return out


def patterns_of(n, nx, p, level, seed, max_missing, min_missing=0):
    items = items_of(n, nx, p, level, seed)
    out = []
    for k in range(min_missing, max_missing + 1):
        out += list(itertools.combinations(items, k))
    return out


def image(mask, n, nx, p):
    """bijection on cells used for the second variant (so that the variants never share a mask)"""
    P = BASE_T + p
    return tuple(sorted((n + nx - 1 - v, P - 1 - t) for v, t in mask))


def prior_params(prior_set, n, seed):
    """value tables of the prior parameters (rotated by the seed)"""
    r = seed % 3
    rho_t = [np.array([0.9, 0.4, -0.3]), np.array([0.5, 1.0, 0.2]), np.array([-0.6, 0.8, 0.3])][r][:n]
    mean_t = [np.array([1.0, -0.5, 2.0]), np.array([0.3, 2.5, -1.0]), np.array([-2.0, 0.7, 1.5])][r][:n]
    if prior_set == 0:
        return dict(rho=rho_t, mu=[1.5, 0.7, 2.5][r], mu_as="mu", kappa=[1.5, 2.0, 0.5][r],
                    mean=mean_t, mean_mu2=[4.0, 0.5, 9.0][r])
    # second setting: scalar forms / defaults, mu given through mu2
    return dict(rho=[0.0, 0.6, 1.0][r], mu=[2.0, 3.0, 0.5][r], mu_as="mu2", kappa=0,
                mean=[0.0, 1.0, -1.0][r], mean_mu2=[1.0, 16.0, 0.25][r])


# ---------------------------------------------------------------------------
# one case
# ---------------------------------------------------------------------------

def make_case(cfg, dof, prior, prior_set, nv, mask, seed, idx):
    n, nx, p, ic = cfg
    masks = [list(map(list, mask))]
    kinds = ["rand"]
    if nv == 2:
        masks.append(list(map(list, image(mask, n, nx, p))))
        kinds = ["var", "rand"]
    return {"n": n, "nx": nx, "p": p, "ic": ic, "dof": dof, "prior": prior, "prior_set": prior_set, "nv": nv,
            "nv_via": "ctor" if idx % 2 == 0 else "estimate", "tdb": R.H_EST_TARGETS[(idx // 2) % 3],
            "masks": masks, "kinds": kinds, "seed": seed}


_DATA_CACHE = {}


def base_data(kind, n, nx, p, ic, seed, vi):
    key = (kind, n, nx, p, ic, seed, vi)
    if key not in _DATA_CACHE:
        P = BASE_T + p
        if kind == "var":
            gen = R.generating_var(n, nx, p, ic, (seed, n, nx, p))
            y, x = R.var_path(gen[0], gen[1], gen[2], n, nx, p, P, (seed, n, nx, p))
        else:
            gen = None
            y, x = R.random_data(n, nx, P, (seed, vi, n, nx, p))
        _DATA_CACHE[key] = (y, x, gen)
    y, x, gen = _DATA_CACHE[key]
    return y.copy(), x.copy(), gen


def _sig(case, **extra):
    s = {"has_exog": case["nx"] > 0, "order_ge2": case["p"] >= 2, "intercept": bool(case["ic"]),
         "with_prior": case.get("prior", "none") != "none"}
    s.update(extra)
    return s


def _near(res, name, err, tol):
    """record comparisons that pass within three decades of their tolerance (evidence of the numerical margin)"""
    if tol > 0 and err > 1e-3 * tol:
        res.count("near_tolerance:%s:%s" % (name, "1e-1" if err > 1e-1 * tol else ("1e-2" if err > 1e-2 * tol else "1e-3")))


def _errmsg(e):
    return re.sub(r"\d+", "N", str(e))[:70]



# ---------------------------------------------------------------------------
# isolation of the caller's objects
# ---------------------------------------------------------------------------

def _pkey(period):
    """comparable key of a period (periods of different frequencies refuse == / !=)"""
    return (type(period).__name__, str(period))


def _snap(db):
    """independent copy of what a databox holds: names, and for every series its start, end and values"""
    out = {}
    for k in list(db.keys()):
        v = db[k]
        if isinstance(v, ir.Series):
            d = np.array(v.data, dtype=float, copy=True)
            out[k] = ("series", _pkey(v.start), d, d.tobytes())       # start + number of rows fix the end
        else:
            out[k] = ("other", copy.deepcopy(v))
    return out


def _snap_diff(before, db):
    """(kind of change, description) for the first difference between a snapshot and the databox now, else None"""
    now = set(db.keys())
    old = set(before)
    if now - old:
        return "names_added", "names added: %r" % (sorted(now - old),)
    if old - now:
        return "names_removed", "names removed: %r" % (sorted(old - now),)
    for k in sorted(old):
        b = before[k]
        v = db[k]
        if b[0] == "series":
            if not isinstance(v, ir.Series):
                return "series_replaced", "%r is no longer a series" % (k,)
            d = np.asarray(v.data, dtype=float)
            if _pkey(v.start) != b[1] or d.shape != b[2].shape:
                return "series_range_changed", "%r: was start %s shape %r, now start %s shape %r" % (k, b[1][1], b[2].shape, v.start, d.shape)
            if d.tobytes() != b[3] and not np.array_equal(d, b[2], equal_nan=True):
                return "series_values_changed", "%r: %d values differ" % (k, int(np.sum(~((d == b[2]) | (np.isnan(d) & np.isnan(b[2]))))))
        elif isinstance(v, ir.Series) or v != b[1]:
            return "item_changed", "%r changed" % (k,)
    return None


def _make_sep(data_start, P, nv):
    """a separate databox to be passed as target_db: bystander items, and series whose names collide with an endogenous
    variable and with a residual of every model (other values, other ranges) - the RETURNED databox may replace these"""
    t = ir.Databox()
    t["zz"] = ir.Series(start=data_start + 1, values=np.arange(1.0, 8.0))
    t[ENDOG[0]] = ir.Series(start=data_start + 2, values=np.column_stack([100.0 + v + np.arange(P + 5.0) for v in range(nv)]))
    t["res_" + ENDOG[0]] = ir.Series(start=data_start + 3, values=(5.0, 6.0, 7.0))
    t["note"] = "kept"
    t["number"] = 3.5
    return t


class _Isolation:
    """watches databoxes the caller owns; `check` reports (once per object) a change since `watch`"""

    def __init__(self, res, bad):
        self.res, self.bad, self.watched, self.reported = res, bad, {}, set()

    def watch(self, role, db):
        self.watched[role] = (db, _snap(db))

    def unwatch(self, role):
        self.watched.pop(role, None)

    def check(self, call, **extra):
        """every watched databox must hold what it held when it was put under watch; -> True if all do"""
        ok = True
        for role in sorted(self.watched):
            db, before = self.watched[role]
            self.res.count("isolation_checks")
            d = _snap_diff(before, db)
            if d is not None:
                ok = False
                self.watched[role] = (db, _snap(db))          # from here on, only further changes count
                if role not in self.reported:                 # one report per object
                    self.reported.add(role)
                    self.bad("caller_object_modified", "%s changed the caller's %s databox: %s" % (call, role, d[1]),
                             call=call, object=role, change=d[0], **extra)
        return ok


def run_case(case, res):
    n, nx, p, ic, dof = case["n"], case["nx"], case["p"], case["ic"], case["dof"]
    prior, nv, seed = case["prior"], case["nv"], case["seed"]
    P = BASE_T + p
    k_reg = n * p + nx + int(ic)
    res.ev(nv)          # one evaluation per estimated variant (a two-variant call estimates two data sets)
    res.count("estimate_calls")

    def bad(check, detail="", **extra):
        res.violation(check, _sig(case, **extra), dict(case, failed_check=check), detail)

    # ---- data ----------------------------------------------------------------
    ys, xs, gens = [], [], []
    for vi in range(nv):
        y, x, gen = base_data(case["kinds"][vi], n, nx, p, ic, seed, vi)
        for v, t in case["masks"][vi]:
            if v < n:
                y[v, t] = np.nan
            else:
                x[v - n, t] = np.nan
        ys.append(y); xs.append(x); gens.append(gen)
    first = STARTS[seed % len(STARTS)]()          # first base period
    data_start = first - p
    base_span = first >> first + (BASE_T - 1)
    base_periods = list(base_span)
    db = ir.Databox()
    for i in range(n):
        db[ENDOG[i]] = ir.Series(start=data_start, values=np.column_stack([ys[vi][i] for vi in range(nv)]))
    for j in range(nx):
        db[EXOG[j]] = ir.Series(start=data_start, values=np.column_stack([xs[vi][j] for vi in range(nv)]))

    # ---- reference regression arrays ------------------------------------------------
    pp = prior_params(case["prior_set"], n, seed)
    ref = []
    for vi in range(nv):
        y0, Rg, complete = R.stack(ys[vi], xs[vi], p, ic)
        Tf = int(complete.sum())
        Yc, Rc = y0[:, complete], Rg[:, complete]
        # sigma candidates for the Minnesota dummies
        sig_candidates = [("one", np.ones(n))]
        if prior in ("minnesota", "both") and Tf > 0:
            nk = nx + int(ic)
            if nk:
                XK = Rc[n * p:, :]
                g = np.linalg.lstsq(XK.T, Yc.T, rcond=None)[0].T
                d = Yc - g @ XK
            else:
                d = Yc
            sig_candidates.append(("resid_std", np.sqrt(np.mean(d * d, axis=1))))
        augs = []
        for sname, sg in sig_candidates:
            L, Rd = [], []
            if prior in ("minnesota", "both"):
                a, b = R.minnesota_dummies(n, nx, p, ic, pp["rho"], pp["mu"], pp["kappa"], sg)
                L.append(a); Rd.append(b)
            if prior in ("mean", "both"):
                a, b = R.mean_dummies(n, nx, p, ic, pp["mean"], np.sqrt(pp["mean_mu2"]))
                L.append(a); Rd.append(b)
            Ld = np.hstack(L) if L else np.zeros((n, 0))
            Rdd = np.hstack(Rd) if Rd else np.zeros((k_reg, 0))
            augs.append((sname, Ld, Rdd))
        # conditioning of the regression actually posed (sigma = 1 reading; the other differs by a column scaling)
        Raug = np.hstack([Rc, augs[0][2]])
        if Tf == 0:
            status = "no_data"
            cond = np.inf
        else:
            sv = np.linalg.svd(Raug, compute_uv=False) if Raug.shape[1] else np.zeros(1)
            if Raug.shape[1] < k_reg or sv[-1] <= 0 or sv[0] / sv[-1] > COND_MAX:
                status = "ill_conditioned"
                cond = np.inf
            else:
                status = "ok"
                cond = sv[0] / sv[-1]
        ref.append(dict(y0=y0, Rg=Rg, complete=complete, Tf=Tf, Yc=Yc, Rc=Rc, augs=augs, status=status, cond=cond))

    # ---- the implementation ------------------------------------------------------
    kw = {}
    ctor_kw = {}
    if nv > 1:
        if case["nv_via"] == "ctor":
            ctor_kw["num_variants"] = nv
        else:
            kw["num_variants"] = nv
    if prior != "none":
        mk = {pp["mu_as"]: (pp["mu"] if pp["mu_as"] == "mu" else pp["mu"] ** 2)}
        minn = ir.MinnesotaPriorObs(rho=pp["rho"], kappa=pp["kappa"], **mk)
        mean_arg = pp["mean"] if not isinstance(pp["mean"], np.ndarray) else list(pp["mean"])
        mean = ir.MeanPriorObs(mean=mean_arg, mu2=pp["mean_mu2"])
        kw["prior_obs"] = {"minnesota": minn, "mean": mean, "both": (minn, mean)}[prior]
    if dof:
        kw["dof_correction"] = True
    any_bad = any(r["status"] != "ok" for r in ref)
    # target_db: not given | a separate databox | the input databox itself.  Whatever is passed, the call must leave
    # the caller's databoxes as they were (the result is in the RETURNED databox).
    tdb = case.get("tdb", "none")
    iso = _Isolation(res, bad)
    iso.watch("input", db)
    if tdb == "sep":
        kw["target_db"] = _make_sep(data_start, P, nv)
        iso.watch("separate_target", kw["target_db"])
    elif tdb == "same":
        kw["target_db"] = db
    res.count("estimate_calls_target_" + tdb)
    try:
        model = ir.RedVAR(list(ENDOG[:n]), exogenous_names=list(EXOG[:nx]) or None, order=p, intercept=ic, **ctor_kw)
        est = model.estimate(db, base_span, **kw)
        iso.check("estimate", target=tdb)
        iso.watch("returned", est)
    except Exception as e:
        if any_bad:
            res.exclude("rejected_or_failed_on_excluded_input")
            res.count("excluded_raise_" + type(e).__name__)
            return
        bad("estimate_exception", "%s: %s" % (type(e).__name__, e), error=type(e).__name__, error_msg=_errmsg(e))
        return
    # With dof_correction the divisor is undocumented; under the "all regressors" reading it is T_fit - k, which is
    # not positive for some well-posed regressions (prior dummies, or T_fit = k): the covariance is then undefined
    # under one admissible reading, so nothing is asserted about it (nor about the autocovariances built on it).
    cov_undefined = [bool(dof) and r["Tf"] - k_reg <= 0 for r in ref]
    try:
        systems = model.get_system_matrices(unpack_singleton=False)
        means = model.get_mean(unpack_singleton=False)
        eigs = model.get_eigenvalues(unpack_singleton=False)
        if not (len(systems) == len(means) == len(eigs) == nv):
            bad("num_variants", "expected %d variants, got %d systems" % (nv, len(systems)))
            return
    except Exception as e:
        if any_bad:
            res.exclude("rejected_or_failed_on_excluded_input")
            return
        bad("accessor_exception", "%s: %s" % (type(e).__name__, e), error=type(e).__name__, error_msg=_errmsg(e))
        return
    try:
        acovs = model.get_acov(up_to_order=2, unpack_singleton=False)
        if len(acovs) != nv:
            bad("num_variants", "expected %d variants, got %d autocovariance tuples" % (nv, len(acovs)))
            return
    except Exception as e:
        if any_bad or any(cov_undefined):
            acovs = None
            res.count("get_acov_failed_on_excluded_or_undefined_cov")
        else:
            bad("accessor_exception", "get_acov: %s: %s" % (type(e).__name__, e), error=type(e).__name__, error_msg=_errmsg(e))
            return

    sim_jobs = []        # (variant, first row, last row)
    res_data = None
    ok_variants = 0
    for vi in range(nv):
        r = ref[vi]
        if r["status"] != "ok":
            res.exclude(r["status"])
            continue
        y0, Rg, complete, Tf, Yc, Rc = r["y0"], r["Rg"], r["complete"], r["Tf"], r["Yc"], r["Rc"]
        s = systems[vi]
        tag = dict(variant=vi, kind=case["kinds"][vi])

        # -- shapes -------------------------------------------------------------------
        A = np.asarray(s.A, dtype=float) if s.A is not None else None
        B = np.asarray(s.B, dtype=float) if s.B is not None else None
        c = np.asarray(s.c, dtype=float).reshape(-1) if s.c is not None else None
        if A is None or A.shape != (n, n * p) or B is None or B.shape != (n, nx) or (c is not None and c.shape != (n,)):
            bad("shapes", "A %r B %r c %r" % (getattr(A, "shape", None), getattr(B, "shape", None), getattr(c, "shape", None)))
            continue
        if ic and c is None:
            bad("shapes", "intercept requested, c is None")
            continue
        if not ic and c is not None and np.any(c != 0):
            bad("intercept_off_but_nonzero", "c = %r" % (c,))
            continue
        beta = np.hstack([A, B] + ([c.reshape(-1, 1)] if ic else []))
        if not np.all(np.isfinite(beta)):
            bad("nonfinite_coefficients", repr(beta))
            continue

        # -- stored residuals ---------------------------------------------------------
        try:
            if res_data is None:
                res_data = [np.asarray(est["res_" + ENDOG[i]].get_data(base_span), dtype=float) for i in range(n)]
            U = np.vstack([res_data[i][:, vi] for i in range(n)])
        except Exception as e:
            bad("residual_access", "%s: %s" % (type(e).__name__, e), error=type(e).__name__)
            continue
        Uc = U[:, complete]
        if not np.all(np.isfinite(Uc)):
            bad("residual_missing_on_complete_row", "complete rows %r, residual finite %r" % (
                complete.astype(int).tolist(), np.isfinite(U).all(axis=0).astype(int).tolist()))
            continue

        # -- own least-squares solution (for tolerance scales and the forward comparison) ---------------
        sname_used = None
        nrmR = np.linalg.norm(np.hstack([Rc, r["augs"][0][2]]))
        worst = None
        for sname, Ld, Rdd in r["augs"]:
            Ra, Ya = np.hstack([Rc, Rdd]), np.hstack([Yc, Ld])
            own = np.linalg.lstsq(Ra.T, Ya.T, rcond=None)[0].T
            Ud = Ld - beta @ Rdd
            g = Rc @ Uc.T + Rdd @ Ud.T                                   # normal equations, k x n
            nrmRa = np.linalg.norm(Ra)
            tol = 1e-10 * nrmRa * (nrmRa * (1.0 + np.linalg.norm(own)) + np.linalg.norm(Ya))
            err = float(np.max(np.abs(g)))
            if err <= tol:
                _near(res, "normal_equations", err, tol)
                sname_used = sname
                own_used = own
                break
            if worst is None:
                worst = (err, tol, own)
        if sname_used is None:
            bad("normal_equations", "max |X u'| = %.3e > tol %.3e (Tf=%d, k=%d, cond=%.2e)" % (worst[0], worst[1], Tf, k_reg, r["cond"]), **tag)
            own_used = worst[2]
        elif prior in ("minnesota", "both"):
            res.count("observed_minnesota_sigma_" + sname_used)
        # forward comparison with the reference's own least-squares solution
        ftol = (1e-8 + 50.0 * r["cond"] ** 2 * EPS) * (1.0 + np.linalg.norm(own_used))
        if sname_used is not None and np.max(np.abs(beta - own_used)) > ftol:
            bad("coefficients_vs_lstsq", "max diff %.3e > %.3e" % (np.max(np.abs(beta - own_used)), ftol), **tag)

        # -- fitted + stored residual = data on every fitted observation ---------------------------------
        fit = beta @ Rc
        dscale = np.max(np.abs(Yc)) + np.max(np.abs(beta)) * np.max(np.abs(Rc)) * k_reg
        derr = float(np.max(np.abs(fit + Uc - Yc)))
        _near(res, "fit_plus_residual", derr, 1e-10 * dscale)
        if derr > 1e-10 * dscale:
            bad("fit_plus_residual", "max |fit + u - y| = %.3e (scale %.3e)" % (derr, dscale), **tag)

        # -- noise-free data return the generating VAR -----------------------------------------------------
        if case["kinds"][vi] == "var" and prior == "none":
            svc = np.linalg.svd(Rc, compute_uv=False)
            if svc[0] / svc[-1] <= COND_RECOVERY:
                gA, gB, gc = gens[vi]
                gbeta = np.hstack([gA, gB] + ([gc.reshape(-1, 1)] if ic else []))
                rerr = float(np.max(np.abs(beta - gbeta)))
                uerr = float(np.max(np.abs(Uc)))
                rtol = (1e-8 + 100.0 * (svc[0] / svc[-1]) ** 2 * EPS) * (1.0 + np.max(np.abs(gbeta)))   # <= 3.2e-8 relative
                _near(res, "recovery", rerr, rtol)
                _near(res, "recovery_residuals", uerr, 1e-8 * (1.0 + np.max(np.abs(Yc))))
                if rerr > rtol:
                    bad("recovery", "max |estimate - generating| = %.3e" % rerr, **tag)
                if uerr > 1e-8 * (1.0 + np.max(np.abs(Yc))):
                    bad("recovery_residuals", "max |u| = %.3e on noise-free data" % uerr, **tag)
                res.count("recovery_checked")
                res.cls("recovery_config", (n, nx, p, ic, len(case["masks"][vi])))
            else:
                res.exclude("recovery_ill_conditioned")

        # -- residual covariance ------------------------------------------------------------------
        S = np.asarray(s.cov_residuals, dtype=float)
        M2 = Uc @ Uc.T
        if cov_undefined[vi]:
            res.exclude("cov_undefined_under_full_regressor_dof_count")
        elif S.shape != (n, n) or not np.all(np.isfinite(S)):
            bad("cov_residuals", "shape %r / non-finite" % (S.shape,), **tag)
        else:
            if np.max(np.abs(S - S.T)) > 1e-12 * (1e-300 + np.max(np.abs(S))):
                bad("cov_residuals_symmetry", **tag)
            if dof:
                corr = [("nonendogenous", nx + int(ic)), ("all_regressors", k_reg)]
            else:
                corr = [("none", 0)]
            cands = [(name, Tf - k, M2) for name, k in corr]
            if Ud.shape[1]:
                # with dummy observations the statement does not say whether their residuals are part of "the
                # residuals": the moment of the whole augmented sample over its size is admitted as well (recorded)
                M2a = M2 + Ud @ Ud.T
                cands += [(name + "_augmented_sample", Tf + Ud.shape[1] - k, M2a) for name, k in corr]
            hit = None
            m2s = np.max(np.abs(M2))
            for name, dv, mom in cands:
                if dv > 0 and np.max(np.abs(S * dv - mom)) <= 1e-9 * np.max(np.abs(mom)) + 1e-300:
                    hit = name
                    break
            if hit is None and m2s > 1e-18 * (1.0 + np.max(np.abs(Yc))) ** 2:
                bad("cov_residuals", "cov*d != u u' for d in %r; implied d = %.6g" % (
                    [d for _, d, _ in cands], M2[0, 0] / S[0, 0] if S[0, 0] else np.nan), dof=bool(dof), **tag)
            elif hit is not None and (dof or Ud.shape[1]):
                res.count("observed_cov_divisor_" + hit)

        # -- companion form: mean, eigenvalues, autocovariances --------------------------------------------
        # Expected values come from the *reported* A, c, cov_residuals ("those of its companion form"); every
        # exclusion is decided on the reference's own estimate, never on the implementation's answer.
        ownA = own_used[:, :n * p]
        own_rad = float(np.max(np.abs(np.linalg.eigvals(R.companion(ownA, n, p)))))
        C = R.companion(A, n, p)
        exp_eig = np.linalg.eigvals(C)
        rad = float(np.max(np.abs(exp_eig)))
        try:
            got_eig = [complex(v) for v in eigs[vi]]
            de = R.multiset_distance(exp_eig, got_eig)
            if not de <= 1e-6 * (1.0 + rad):
                bad("eigenvalues", "multiset distance %.3e; own %r got %r" % (de, np.round(exp_eig, 6).tolist(), got_eig), **tag)
            else:
                res.count("eigenvalues_checked")
                if np.any(np.abs(exp_eig.imag) > 1e-6):
                    res.count("eigenvalues_checked_complex")
        except Exception as e:
            bad("eigenvalues", "%s: %s" % (type(e).__name__, e), error=type(e).__name__, **tag)
        # mean
        gm = np.asarray(means[vi], dtype=float).reshape(-1)
        if not ic:
            if gm.shape != (n,) or np.any(gm != 0):
                bad("mean", "no intercept: mean should be zero, got %r" % (gm,), **tag)
            else:
                res.count("mean_checked_zero")
        else:
            mcond = R.var_mean(ownA, own_used[:, -1], n, p)[1]
            if mcond > COND_MAX:
                res.exclude("mean_ill_conditioned")
            else:
                om = R.var_mean(A, c, n, p)[0]
                if gm.shape != (n,) or not np.max(np.abs(gm - om)) <= (1e-9 + 100.0 * mcond * EPS) * (1.0 + np.max(np.abs(om))):
                    bad("mean", "own %r got %r (cond %.2e)" % (om.tolist(), gm.tolist(), mcond), **tag)
                else:
                    res.count("mean_checked")
        # autocovariances
        kcond = np.inf
        if own_rad < STABLE_MAX:
            m = n * p
            kcond = np.linalg.cond(np.eye(m * m) - np.kron(R.companion(ownA, n, p), R.companion(ownA, n, p)))
        if cov_undefined[vi] or acovs is None:
            res.exclude("acov_not_asserted_cov_undefined")
        elif not own_rad < STABLE_MAX:
            res.exclude("acov_unstable_or_near_unit_root")
        elif kcond > COND_MAX:
            res.exclude("acov_ill_conditioned")
        elif S.shape == (n, n) and np.all(np.isfinite(S)):
            oac, _, Om, Cc, Sc = R.acov(A, S, n, p, 2)
            selferr = np.max(np.abs(Om - Cc @ Om @ Cc.T - Sc))
            ga = acovs[vi]
            okk = len(ga) == 3
            worst_a = 0.0
            if okk:
                for a_own, a_got in zip(oac, ga):
                    a_got = np.asarray(a_got, dtype=float)
                    if a_got.shape != (n, n):
                        okk = False
                        break
                    worst_a = max(worst_a, float(np.max(np.abs(a_got - a_own))))
            atol = (1e-9 + 100.0 * kcond * EPS) * (1e-300 + np.max(np.abs(Om)))
            if not np.all(np.isfinite(Om)) or selferr > 1e-8 * np.max(np.abs(Om)) + 1e-300:
                res.count("reference_lyapunov_selfcheck_failed")          # harness-side: never a verdict
            elif not okk or not worst_a <= atol:
                bad("acov", "max diff %.3e > %.3e (radius %.3f, cond %.2e)" % (worst_a, atol, rad, kcond), **tag)
            else:
                _near(res, "acov", worst_a, atol)
                res.count("acov_checked")

        # -- bookkeeping ---------------------------------------------------------------------------
        ok_variants += 1
        Cown = R.companion(ownA, n, p)                      # error amplification of the recursion (reference's own estimate)
        amp, Ck = 1.0, np.eye(n * p)
        for _ in range(BASE_T):
            Ck = Cown @ Ck
            amp = max(amp, float(np.sqrt(np.sum(Ck * Ck))))        # Frobenius norm bounds the 2-norm
        r["amp"] = amp
        rr = R.runs(complete)
        for a, b in rr:
            sim_jobs.append((vi, a, b))
        res.nt((n, nx, p, ic, dof, prior, case["prior_set"], nv, vi, case["kinds"][vi], case["masks"][vi]))
        res.cls("fitted_rows", (p, complete.astype(int).tolist()))
        res.cls("config", (n, nx, p, ic, dof, prior, nv))
        res.cls("n_runs", (len(rr), Tf))

    # ---- simulate every run of fitted periods with the estimated residuals -> data -----------------
    done = {}
    for vi, a, b in sim_jobs:
        span = base_periods[a] >> base_periods[b]
        key = (a, b)
        if key not in done:
            # simulate's target_db rotates over {not given, the data databox, simulate's own input} with the run
            stg = R.H_SIM_TARGETS[(len(done) + R.H_EST_TARGETS.index(tdb)) % 3]
            skw = {} if stg == "none" else {"target_db": db if stg == "db" else est}
            res.count("simulate_calls_target_" + stg)
            try:
                sim_db = model.simulate(est, span, **skw)
                done[key] = ("ok", sim_db)
            except Exception as e:
                done[key] = ("exc", e)
            iso.check("simulate", target=stg)
            if done[key][0] == "ok":
                try:
                    done[key] = ("ok", [np.asarray(sim_db[ENDOG[i]].get_data(span), dtype=float) for i in range(n)])
                except Exception as e:
                    done[key] = ("bad_output", e)
        st, out = done[key]
        tag = dict(variant=vi, kind=case["kinds"][vi])
        if st == "exc" and any_bad:
            res.exclude("simulate_failed_with_an_excluded_variant")
            break
        if st == "exc":
            bad("simulate_exception", "%s: %s (span rows %d-%d)" % (type(out).__name__, out, a, b),
                error=type(out).__name__, error_msg=_errmsg(out))
            break
        if st == "bad_output":
            bad("simulate_output", "%s: %s" % (type(out).__name__, out), error=type(out).__name__, **tag)
            break
        got = np.vstack([out[i][:, vi] for i in range(n)])
        want = ref[vi]["y0"][:, a:b + 1]
        serr = np.max(np.abs(got - want)) if np.all(np.isfinite(got)) else np.inf
        s = systems[vi]
        sc = (1.0 + np.max(np.abs(ys[vi][np.isfinite(ys[vi])]))) * ref[vi]["amp"] * BASE_T
        if 1e-11 * sc > 1e-5:
            res.exclude("simulate_explosive_estimate")
            continue
        if not serr <= 1e-11 * sc:
            diag = _diagnose_simulation(s, ys[vi], xs[vi], est, span, vi, n, nx, p, a, b, got, 1e-11 * sc)
            bad("simulate_reproduces_data", "max |simulated - data| = %.3e over rows %d-%d" % (serr, a, b),
                diagnosis=diag, **tag)
            break
        _near(res, "simulate", serr, 1e-11 * sc)
        res.count("simulate_runs_checked")
    return ok_variants


def _diagnose_simulation(s, y, x, est, span, vi, n, nx, p, a, b, got, tol):
    """Only runs after a re-simulation mismatch, to make the violation signature specific: does the output equal a
    companion-form recursion with one of two already reported defects built in?
      leads_init     : the lag-l block of the initial state is read l-1 periods *after* the period before the start
      exog_broadcast : B x_t is added to every block of the companion state (n_endog = 1), not only to the first"""
    try:
        A = np.asarray(s.A, float)
        Bm = np.asarray(s.B, float)
        cc = np.asarray(s.c, float).reshape(-1) if s.c is not None else np.zeros(n)
        U = np.vstack([est["res_" + ENDOG[i]].get_data(span)[:, vi] for i in range(n)])
        C = R.companion(A, n, p)
        col0 = p + a - 1
        H = b - a + 1
        for leads in (True, False):
            for bcast in ((False, True) if (nx and n == 1 and p > 1) else (False,)):
                if not leads and not bcast:
                    continue
                xi = np.zeros(n * p)
                okinit = True
                for l in range(p):
                    col = col0 + l if leads else col0 - l
                    if not 0 <= col < y.shape[1]:
                        okinit = False
                        break
                    xi[l * n:(l + 1) * n] = y[:, col]
                if not okinit:
                    continue
                out = np.zeros((n, H))
                for h in range(H):
                    xi = C @ xi
                    xi[:n] += cc + U[:, h]
                    if nx:
                        imp = Bm @ x[:, col0 + 1 + h]
                        if bcast:
                            xi += imp[0]
                        else:
                            xi[:n] += imp
                    out[:, h] = xi[:n]
                if np.all(np.isfinite(out)) and np.max(np.abs(out - got)) <= tol:
                    return "+".join(nm for nm, on in (("leads_init", leads), ("exog_broadcast", bcast)) if on)
    except Exception:
        pass
    return "other"


# ---------------------------------------------------------------------------
# call histories on one databox / one model object
# ---------------------------------------------------------------------------
# Reference model (ref/c18_varols.py): no call changes the caller's table, a model object holds the estimates of its
# last estimate call.  So EVERY estimate of a history must pass the oracles of a fresh single call on the ORIGINAL
# table over its own span, and every simulate must reproduce the ORIGINAL data; the expected values are computed from
# the harness's own arrays, never read back from a databox that went through a call.

HIST_T = 30                                # base periods of the history table
H_ROWS = {"S": (7, 24), "L": (0, HIST_T - 1)}


def hist_masks(n, nx, p, seed):
    """missing-data patterns of the histories (table coordinates): none | one endogenous cell inside the short span
    (both spans have a hole) | one cell (exogenous if there is one) before the first lag of the short span and one
    endogenous cell after the short span (only the long span has holes)"""
    v = seed % n
    return [(), ((v, p + 13),), ((n if nx else (v + 1) % n, p + 2), ((v + 2) % n, p + 27))]


N_HIST_MASKS = 3


def make_history(cfg, nv, mask_id, seq, seed):
    n, nx, p, ic = cfg
    mask = hist_masks(n, nx, p, seed)[mask_id]
    masks = [list(map(list, mask))]
    kinds = ["rand"]
    if nv == 2:
        masks.append(list(map(list, sorted((n + nx - 1 - v, HIST_T + p - 1 - t) for v, t in mask))))
        kinds = ["var", "rand"]
    return {"kind": "history", "n": n, "nx": nx, "p": p, "ic": ic, "nv": nv, "mask_id": mask_id, "masks": masks,
            "kinds": kinds, "seq": [list(x) for x in seq], "seed": seed}


_HREF_CACHE = {}


def _hist_reference(case):
    """tables and, per span and variant, the reference regression (everything that does not depend on the calls)"""
    n, nx, p, ic, nv, seed = case["n"], case["nx"], case["p"], case["ic"], case["nv"], case["seed"]
    key = (n, nx, p, ic, nv, seed, repr(case["masks"]), repr(case["kinds"]))
    if key in _HREF_CACHE:
        return _HREF_CACHE[key]
    P = HIST_T + p
    ys, xs, gens = [], [], []
    for vi in range(nv):
        if case["kinds"][vi] == "var":
            gen = R.generating_var(n, nx, p, ic, (seed, n, nx, p, 5))
            y, x = R.var_path(gen[0], gen[1], gen[2], n, nx, p, P, (seed, n, nx, p, 5))
        else:
            gen = None
            y, x = R.random_data(n, nx, P, (seed, vi, n, nx, p, 5))
        for v, t in case["masks"][vi]:
            if v < n:
                y[v, t] = np.nan
            else:
                x[v - n, t] = np.nan
        ys.append(y); xs.append(x); gens.append(gen)
    k_reg = n * p + nx + int(ic)
    spans = {}
    for sp, (lo, hi) in H_ROWS.items():
        per = []
        for vi in range(nv):
            y0, Rg, complete = R.span_rows(ys[vi], xs[vi], p, ic, lo, hi)
            Tf = int(complete.sum())
            Yc, Rc = y0[:, complete], Rg[:, complete]
            r = dict(y0=y0, complete=complete, Tf=Tf, Yc=Yc, Rc=Rc, status="ok", cond=np.inf)
            sv = np.linalg.svd(Rc, compute_uv=False) if Tf else np.zeros(1)
            if Tf == 0:
                r["status"] = "no_data"
            elif Tf < k_reg or sv[-1] <= 0 or sv[0] / sv[-1] > COND_MAX:
                r["status"] = "ill_conditioned"
            else:
                r["cond"] = sv[0] / sv[-1]
                own = np.linalg.lstsq(Rc.T, Yc.T, rcond=None)[0].T
                ownA = own[:, :n * p]
                Cown = R.companion(ownA, n, p)
                r["own"] = own
                r["own_rad"] = float(np.max(np.abs(np.linalg.eigvals(Cown))))
                r["mcond"] = R.var_mean(ownA, own[:, -1], n, p)[1] if ic else None
                r["kcond"] = (np.linalg.cond(np.eye((n * p) ** 2) - np.kron(Cown, Cown)) if r["own_rad"] < STABLE_MAX else np.inf)
                amp, Ck = 1.0, np.eye(n * p)
                for _ in range(hi - lo + 1):
                    Ck = Cown @ Ck
                    amp = max(amp, float(np.sqrt(np.sum(Ck * Ck))))
                r["amp"] = amp
                r["runs"] = R.runs(complete)
            per.append(r)
        spans[sp] = per
    out = (ys, xs, gens, spans)
    if len(_HREF_CACHE) > 64:
        _HREF_CACHE.clear()
    _HREF_CACHE[key] = out
    return out


def _letter(x):
    return ".".join(str(v) for v in x)


def _plain_oracles(res, bad, n, nx, p, ic, r, s, U, gm, got_eig, ga, kind, gen, tag):
    """the estimation oracles of a single call without priors / dof correction -> True if all were evaluated"""
    k_reg = n * p + nx + int(ic)
    complete, Tf, Yc, Rc, own = r["complete"], r["Tf"], r["Yc"], r["Rc"], r["own"]
    A = np.asarray(s.A, dtype=float) if s.A is not None else None
    B = np.asarray(s.B, dtype=float) if s.B is not None else None
    c = np.asarray(s.c, dtype=float).reshape(-1) if s.c is not None else None
    if A is None or A.shape != (n, n * p) or B is None or B.shape != (n, nx) or (c is not None and c.shape != (n,)) or (ic and c is None):
        bad("shapes", "A %r B %r c %r" % (getattr(A, "shape", None), getattr(B, "shape", None), getattr(c, "shape", None)), **tag)
        return False
    if not ic and c is not None and np.any(c != 0):
        bad("intercept_off_but_nonzero", "c = %r" % (c,), **tag)
        return False
    beta = np.hstack([A, B] + ([c.reshape(-1, 1)] if ic else []))
    if not np.all(np.isfinite(beta)):
        bad("nonfinite_coefficients", repr(beta), **tag)
        return False
    Uc = U[:, complete]
    if not np.all(np.isfinite(Uc)):
        bad("residual_missing_on_complete_row", "complete rows %r, residual finite %r" % (
            complete.astype(int).tolist(), np.isfinite(U).all(axis=0).astype(int).tolist()), **tag)
        return False
    # normal equations on exactly the complete rows of this call's span of the original table
    nrm = np.linalg.norm(Rc)
    tol = 1e-10 * nrm * (nrm * (1.0 + np.linalg.norm(own)) + np.linalg.norm(Yc))
    err = float(np.max(np.abs(Rc @ Uc.T)))
    if err > tol:
        bad("normal_equations", "max |X u'| = %.3e > tol %.3e (Tf=%d, k=%d, cond=%.2e)" % (err, tol, Tf, k_reg, r["cond"]), **tag)
    ftol = (1e-8 + 50.0 * r["cond"] ** 2 * EPS) * (1.0 + np.linalg.norm(own))
    if np.max(np.abs(beta - own)) > ftol:
        bad("coefficients_vs_lstsq", "max diff %.3e > %.3e" % (np.max(np.abs(beta - own)), ftol), **tag)
    dscale = np.max(np.abs(Yc)) + np.max(np.abs(beta)) * np.max(np.abs(Rc)) * k_reg
    derr = float(np.max(np.abs(beta @ Rc + Uc - Yc)))
    if derr > 1e-10 * dscale:
        bad("fit_plus_residual", "max |fit + u - y| = %.3e (scale %.3e)" % (derr, dscale), **tag)
    if kind == "var":
        if r["cond"] <= COND_RECOVERY:
            gA, gB, gc = gen
            gbeta = np.hstack([gA, gB] + ([gc.reshape(-1, 1)] if ic else []))
            rerr = float(np.max(np.abs(beta - gbeta)))
            uerr = float(np.max(np.abs(Uc)))
            if rerr > (1e-8 + 100.0 * r["cond"] ** 2 * EPS) * (1.0 + np.max(np.abs(gbeta))):
                bad("recovery", "max |estimate - generating| = %.3e" % rerr, **tag)
            if uerr > 1e-8 * (1.0 + np.max(np.abs(Yc))):
                bad("recovery_residuals", "max |u| = %.3e on noise-free data" % uerr, **tag)
            res.count("history_recovery_checked")
        else:
            res.exclude("history_recovery_ill_conditioned")
    # residual covariance (no dof correction, no dummies: second moment over the number of fitted periods)
    S = np.asarray(s.cov_residuals, dtype=float)
    M2 = Uc @ Uc.T
    if S.shape != (n, n) or not np.all(np.isfinite(S)):
        bad("cov_residuals", "shape %r / non-finite" % (S.shape,), **tag)
        return False
    if np.max(np.abs(S * Tf - M2)) > 1e-9 * np.max(np.abs(M2)) + 1e-300 and np.max(np.abs(M2)) > 1e-18 * (1.0 + np.max(np.abs(Yc))) ** 2:
        bad("cov_residuals", "cov*Tf != u u'; implied divisor %.6g, Tf = %d" % (M2[0, 0] / S[0, 0] if S[0, 0] else np.nan, Tf), **tag)
    # companion form of the REPORTED estimates (a stale cache from an earlier call on the same object shows here)
    exp_eig = np.linalg.eigvals(R.companion(A, n, p))
    rad = float(np.max(np.abs(exp_eig)))
    try:
        de = R.multiset_distance(exp_eig, [complex(v) for v in got_eig])
        if not de <= 1e-6 * (1.0 + rad):
            bad("eigenvalues", "multiset distance %.3e" % de, **tag)
    except Exception as e:
        bad("eigenvalues", "%s: %s" % (type(e).__name__, e), error=type(e).__name__, **tag)
    gm = np.asarray(gm, dtype=float).reshape(-1)
    if not ic:
        if gm.shape != (n,) or np.any(gm != 0):
            bad("mean", "no intercept: mean should be zero, got %r" % (gm,), **tag)
    elif r["mcond"] > COND_MAX:
        res.exclude("history_mean_ill_conditioned")
    else:
        om = R.var_mean(A, c, n, p)[0]
        if gm.shape != (n,) or not np.max(np.abs(gm - om)) <= (1e-9 + 100.0 * r["mcond"] * EPS) * (1.0 + np.max(np.abs(om))):
            bad("mean", "own %r got %r (cond %.2e)" % (om.tolist(), gm.tolist(), r["mcond"]), **tag)
    if ga is None:
        pass
    elif not r["own_rad"] < STABLE_MAX or r["kcond"] > COND_MAX:
        res.exclude("history_acov_unstable_or_ill_conditioned")
    else:
        oac, _, Om, Cc, Sc = R.acov(A, S, n, p, 1)
        okk = len(ga) == 2 and all(np.asarray(g_, dtype=float).shape == (n, n) for g_ in ga)
        worst_a = max(float(np.max(np.abs(np.asarray(g_, dtype=float) - o_))) for g_, o_ in zip(ga, oac)) if okk else np.inf
        atol = (1e-9 + 100.0 * r["kcond"] * EPS) * (1e-300 + np.max(np.abs(Om)))
        if not np.all(np.isfinite(Om)) or np.max(np.abs(Om - Cc @ Om @ Cc.T - Sc)) > 1e-8 * np.max(np.abs(Om)) + 1e-300:
            res.count("reference_lyapunov_selfcheck_failed")
        elif not worst_a <= atol:
            bad("acov", "max diff %.3e > %.3e (radius %.3f, cond %.2e)" % (worst_a, atol, rad, r["kcond"]), **tag)
        else:
            res.count("history_acov_checked")
    return True


def run_history(case, res):
    n, nx, p, ic, nv, seed = case["n"], case["nx"], case["p"], case["ic"], case["nv"], case["seed"]
    seq = [tuple(x) for x in case["seq"]]
    P = HIST_T + p
    res.ev()
    res.count("histories")
    ys, xs, gens, spans = _hist_reference(case)
    first = STARTS[seed % len(STARTS)]()
    data_start = first - p
    periods = [first + i for i in range(HIST_T)]
    db = ir.Databox()
    for i in range(n):
        db[ENDOG[i]] = ir.Series(start=data_start, values=np.column_stack([ys[vi][i] for vi in range(nv)]))
    for j in range(nx):
        db[EXOG[j]] = ir.Series(start=data_start, values=np.column_stack([xs[vi][j] for vi in range(nv)]))
    sep = _make_sep(data_start, P, nv)
    state = {"k": 0}

    def bad(check, detail="", **extra):
        k = state["k"]
        sig = _sig(case, history=True, step=k, letter=_letter(seq[k]) if k < len(seq) else "end",
                   after=">".join(_letter(x) for x in seq[:k]), **extra)
        res.violation(check, sig, dict(case, failed_check=check), detail)

    iso = _Isolation(res, bad)
    iso.watch("input", db)
    iso.watch("separate_target", sep)
    model = None
    est = None                 # the databox returned by the last estimate
    est_intact = False
    cur = None                 # span key of the last estimate
    earlier_models = []        # (model object that was replaced by a fresh one, copy of its matrices)
    model_mats = None
    n_est = 0
    evaluated = True
    ctor_kw = {"num_variants": nv} if nv > 1 else {}
    last_E = max(i for i, x in enumerate(seq) if x[0] == "E")

    def mats(m):
        out = []
        for s in m.get_system_matrices(unpack_singleton=False):
            out.append([None if v is None else np.array(v, dtype=float, copy=True) for v in (s.A, s.B, s.c, s.cov_residuals)])
        return out

    for k, step in enumerate(seq):
        state["k"] = k
        res.count("history_steps")
        if k:
            res.cls("history_letter_pair", (_letter(seq[k - 1]), _letter(step)))
        if step[0] == "E":
            _, sp, tdb, md = step
            lo, hi = H_ROWS[sp]
            span = periods[lo] >> periods[hi]
            refs = spans[sp]
            any_bad = any(r["status"] != "ok" for r in refs)
            if model is None or md == "fresh":
                if model is not None and model_mats is not None:
                    earlier_models.append((model, model_mats))
                model = ir.RedVAR(list(ENDOG[:n]), exogenous_names=list(EXOG[:nx]) or None, order=p, intercept=ic, **ctor_kw)
            kw = {} if tdb == "none" else {"target_db": sep if tdb == "sep" else db}
            model_mats = None
            try:
                est = model.estimate(db, span, **kw)
            except Exception as e:
                if any_bad:
                    res.exclude("history_rejected_or_failed_on_excluded_input")
                else:
                    bad("estimate_exception", "%s: %s" % (type(e).__name__, e), error=type(e).__name__, error_msg=_errmsg(e))
                return
            n_est += 1
            cur, est_intact = sp, True
            iso.check("estimate", target=tdb)
            iso.watch("returned_by_estimate_%d" % n_est, est)   # later calls must not change what this one returned
            try:
                systems = model.get_system_matrices(unpack_singleton=False)
                means = model.get_mean(unpack_singleton=False)
                eigs = model.get_eigenvalues(unpack_singleton=False)
                if not (len(systems) == len(means) == len(eigs) == nv):
                    bad("num_variants", "expected %d variants, got %d systems" % (nv, len(systems)))
                    return
                U_all = [np.asarray(est["res_" + ENDOG[i]].get_data(span), dtype=float) for i in range(n)]
                model_mats = mats(model)
            except Exception as e:
                if any_bad:
                    res.exclude("history_rejected_or_failed_on_excluded_input")
                else:
                    bad("accessor_exception", "%s: %s" % (type(e).__name__, e), error=type(e).__name__, error_msg=_errmsg(e))
                return
            # autocovariances: asserted at the last estimate of the word (every prefix of a word is a word of the space)
            acovs = None
            try:
                if k == last_E:
                    acovs = model.get_acov(up_to_order=1, unpack_singleton=False)
            except Exception as e:
                if not any_bad:
                    bad("accessor_exception", "get_acov: %s: %s" % (type(e).__name__, e), error=type(e).__name__, error_msg=_errmsg(e))
            n_ok = 0
            for vi in range(nv):
                r = refs[vi]
                if r["status"] != "ok":
                    res.exclude("history_" + r["status"])
                    continue
                U = np.vstack([U_all[i][:, vi] for i in range(n)])
                tag = dict(variant=vi, kind=case["kinds"][vi], nth_estimate=min(n_est, 3))
                if _plain_oracles(res, bad, n, nx, p, ic, r, systems[vi], U, means[vi], eigs[vi],
                                  acovs[vi] if acovs is not None and len(acovs) == nv else None, case["kinds"][vi], gens[vi], tag):
                    n_ok += 1
                    res.count("history_estimates_checked")
                    if n_est >= 2:
                        res.count("history_later_estimates_checked")
                        res.cls("history_later_estimate", (_letter(seq[k - 1]), _letter(step), r["Tf"]))
            if n_ok == 0:
                evaluated = False
        elif step[0] == "S":
            stg = step[1]
            refs = spans[cur]
            lo, hi = H_ROWS[cur]
            any_bad = any(r["status"] != "ok" for r in refs)
            jobs = sorted({(a, b) for r in refs if r["status"] == "ok" for a, b in r["runs"]})
            n_ok = 0
            for a, b in jobs:
                span = periods[lo + a] >> periods[lo + b]
                skw = {} if stg == "none" else {"target_db": db if stg == "db" else est}
                try:
                    sim_db = model.simulate(est, span, **skw)
                except Exception as e:
                    if any_bad:
                        res.exclude("history_simulate_failed_with_an_excluded_variant")
                    else:
                        bad("simulate_exception", "%s: %s (span rows %d-%d)" % (type(e).__name__, e, lo + a, lo + b),
                            error=type(e).__name__, error_msg=_errmsg(e))
                    return
                iso.check("simulate", target=stg)
                try:
                    out = [np.asarray(sim_db[ENDOG[i]].get_data(span), dtype=float) for i in range(n)]
                except Exception as e:
                    bad("simulate_output", "%s: %s" % (type(e).__name__, e), error=type(e).__name__)
                    return
                for vi in range(nv):
                    r = refs[vi]
                    if r["status"] != "ok" or (a, b) not in r["runs"]:
                        continue
                    got = np.vstack([out[i][:, vi] for i in range(n)])
                    want = r["y0"][:, a:b + 1]
                    serr = np.max(np.abs(got - want)) if np.all(np.isfinite(got)) else np.inf
                    sc = (1.0 + np.max(np.abs(ys[vi][np.isfinite(ys[vi])]))) * r["amp"] * (hi - lo + 1)
                    if 1e-11 * sc > 1e-5:
                        res.exclude("history_simulate_explosive_estimate")
                        continue
                    if not serr <= 1e-11 * sc:
                        bad("simulate_reproduces_data", "max |simulated - data| = %.3e over rows %d-%d" % (serr, lo + a, lo + b),
                            variant=vi, kind=case["kinds"][vi])
                        continue
                    n_ok += 1
                    res.count("history_simulate_runs_checked")
            if n_ok == 0:
                evaluated = False
        else:
            # "X": the caller overwrites, in place, every series of the databox the last estimate returned
            iso.unwatch("returned_by_estimate_%d" % n_est)
            for nm in list(est.keys()):
                v = est[nm]
                if isinstance(v, ir.Series) and v.data.size:
                    v.data[...] = -7.0e5
            est_intact = False
            iso.check("overwrite_returned")
            res.count("history_overwrites")
    # ---- end of the history: models that were replaced still report the estimates of their own last call ----------
    state["k"] = len(seq)
    for m, before in earlier_models:
        res.count("history_earlier_model_checks")
        try:
            now = mats(m)
            same = len(now) == len(before) and all(
                (x is None and y_ is None) or (x is not None and y_ is not None and x.shape == y_.shape and np.array_equal(x, y_, equal_nan=True))
                for s_now, s_b in zip(now, before) for x, y_ in zip(s_now, s_b))
        except Exception as e:
            same = False
        if not same:
            bad("earlier_model_changed_by_later_call", "a model object estimated earlier reports other matrices after later calls on other objects")
    iso.check("history_end")
    if evaluated:
        res.nt(("H", n, nx, p, ic, nv, case["mask_id"], tuple(seq)))
        res.count("history_sequences_evaluated_len%d" % len(seq))
    return evaluated


# ---------------------------------------------------------------------------
# shards
# ---------------------------------------------------------------------------

def plan(ctx):
    """list of groups (cfg, dof, prior, prior_set, nv, item level, min_missing, max_missing)"""
    groups = []
    for cfg in CONFIGS:
        for dof in (False, True):
            for nv in (1, 2):
                for prior in PRIORS:
                    if ctx.quick:
                        # pairs: without priors, for (1 variant, dof off) and (2 variants, dof on)
                        pairs = prior == "none" and (nv == 2) == bool(dof)
                        groups.append((cfg, dof, prior, 0, nv, "row", 0, 2 if pairs else 1))
                    else:
                        for ps in ((0,) if prior == "none" else (0, 1)):
                            groups.append((cfg, dof, prior, ps, nv, "cell", 0, 2))
                if not ctx.quick:       # deviation bound 3 on the coarser item set, without priors
                    groups.append((cfg, dof, "none", 0, nv, "row", 3, 3))
    return groups


def shard_cases(item, res, ctx):
    cfg, dof, prior, ps, nv, level, mmin, mmax, lo, hi = item
    n, nx, p, ic = cfg
    pats = patterns_of(n, nx, p, level, ctx.seed, mmax, mmin)
    for idx in range(lo, min(hi, len(pats))):
        case = make_case(cfg, dof, prior, ps, nv, pats[idx], ctx.seed, idx)
        run_case(case, res)
        if idx == 1:
            res.sample(case)


H3_CONFIGS_QUICK = [(1, 0, 1, True), (2, 1, 2, True), (3, 0, 1, False), (1, 1, 3, False)]     # every value of every dimension


def history_plan(ctx):
    """list of groups (cfg, variants, mask id, min length, max length) - every valid word of the alphabet of
    ref.c18_varols.history_alphabet() with min..max letters is run for each group"""
    groups = []
    for cfg in CONFIGS:
        for mask_id in range(N_HIST_MASKS):
            for nv in (1, 2):
                if ctx.quick:
                    if nv == 1 or (mask_id < 2 and cfg in H3_CONFIGS_QUICK):
                        groups.append((cfg, nv, mask_id, 1, 2))
                    if nv == 1 and mask_id == 1 and cfg in H3_CONFIGS_QUICK:
                        groups.append((cfg, nv, mask_id, 3, 3))
                elif nv == 1 or mask_id == 1:
                    groups.append((cfg, nv, mask_id, 1, 3))
                else:
                    groups.append((cfg, nv, mask_id, 1, 2))
    return groups


_SEQ_CACHE = {}


def _sequences(lmin, lmax):
    if (lmin, lmax) not in _SEQ_CACHE:
        _SEQ_CACHE[(lmin, lmax)] = R.history_sequences(lmax, lmin)
    return _SEQ_CACHE[(lmin, lmax)]


def shard_histories(item, res, ctx):
    cfg, nv, mask_id, lmin, lmax, lo, hi = item
    seqs = _sequences(lmin, lmax)
    for idx in range(lo, min(hi, len(seqs))):
        case = make_history(cfg, nv, mask_id, seqs[idx], ctx.seed)
        run_history(case, res)
        if idx == lo and lo == 0 and mask_id == 1:
            res.sample(case)


def run(ctx, total, info):
    groups = plan(ctx)
    shards = []
    chunk = 250 if ctx.quick else 800
    n_cases = 0
    for g in groups:
        cfg, dof, prior, ps, nv, level, mmin, mmax = g
        npat = len(patterns_of(cfg[0], cfg[1], cfg[2], level, ctx.seed, mmax, mmin))
        n_cases += npat
        for lo in range(0, npat, chunk):
            shards.append(g + (lo, min(npat, lo + chunk)))
    # heavy shards first: cost ~ cases x variants x (dimension of the companion form)
    shards.sort(key=lambda s: -((s[-1] - s[-2]) * s[4] * (1 + s[0][0] * s[0][2])))
    engine.run_shards(__name__, "shard_cases", shards, ctx, total)
    # ---- call histories ------------------------------------------------------------------------------------------
    hgroups = history_plan(ctx)
    hshards = []
    n_hist = 0
    for g in hgroups:
        nseq = len(_sequences(g[3], g[4]))
        n_hist += nseq
        for lo in range(0, nseq, 400):
            hshards.append(g + (lo, min(nseq, lo + 400)))
    hshards.sort(key=lambda s: -((s[-1] - s[-2]) * s[4] * s[1]))
    engine.run_shards(__name__, "shard_histories", hshards, ctx, total)
    info["exhaustive"] = True
    info["bound_completed"] = 2 if ctx.quick else 3
    info["space"] = {"configurations": len(CONFIGS), "groups": len(groups), "cases": n_cases, "shards": len(shards),
                     "missing_item_level": "row" if ctx.quick else "cell (+ row-level triples)", "base_periods": BASE_T,
                     "history_alphabet": [_letter(x) for x in R.history_alphabet()], "history_groups": len(hgroups),
                     "histories": n_hist, "history_shards": len(hshards), "history_base_periods": HIST_T,
                     "history_words": {str(L): len(R.history_sequences(L, L)) for L in (1, 2, 3)}}
    c = total.counters
    nt = len(total.nontrivial)
    FL = FLOORS_QUICK if ctx.quick else FLOORS_THOROUGH
    measured = {"distinct_nontrivial": nt, "recovery_checked": c.get("recovery_checked", 0),
                "simulate_runs_checked": c.get("simulate_runs_checked", 0), "acov_checked": c.get("acov_checked", 0),
                "mean_checked": c.get("mean_checked", 0),
                "fitted_row_patterns": len(total.classes.get("fitted_rows", ())),
                "configs_reached": len(total.classes.get("config", ())),
                "recovery_configs": len(total.classes.get("recovery_config", ())),
                "eigenvalues_checked_complex": c.get("eigenvalues_checked_complex", 0),
                "reference_selfchecks_ok": 0 if c.get("reference_lyapunov_selfcheck_failed", 0) else 1,
                "isolation_checks": c.get("isolation_checks", 0),
                "estimate_calls_target_is_input": c.get("estimate_calls_target_same", 0),
                "estimate_calls_target_separate": c.get("estimate_calls_target_sep", 0),
                "simulate_calls_with_target": c.get("simulate_calls_target_db", 0) + c.get("simulate_calls_target_est", 0),
                "history_sequences_nontrivial": sum(c.get("history_sequences_evaluated_len%d" % L, 0) for L in (1, 2, 3)),
                "history_later_estimates_checked": c.get("history_later_estimates_checked", 0),
                "history_simulate_runs_checked": c.get("history_simulate_runs_checked", 0),
                "history_letter_pairs": len(total.classes.get("history_letter_pair", ())),
                "history_len3_evaluated": c.get("history_sequences_evaluated_len3", 0),
                "history_earlier_model_checks": c.get("history_earlier_model_checks", 0),
                "history_recovery_checked": c.get("history_recovery_checked", 0)}
    info["floors"] = {k: (measured[k], FL[k]) for k in FL}


# Vacuity floors: about half of what the unchanged tree measures (the floors of the single-call space date from the
# tree on which every intercept=False configuration still failed in estimate; the repaired tree measures about twice
# as much).
FLOORS_QUICK = {"distinct_nontrivial": 9500, "recovery_checked": 1900, "simulate_runs_checked": 6400, "acov_checked": 7300,
                "mean_checked": 9500, "fitted_row_patterns": 350, "configs_reached": 144, "recovery_configs": 25,
                "eigenvalues_checked_complex": 6900, "reference_selfchecks_ok": 1,
                # call histories / isolation (measured on the unchanged tree, seeds 0-2: 390 630 | 9 384 | 9 888 | 45 791 |
                # 17 880 | 18 144 | 7 920 | 252 | 6 048 | 8 784 | 1 218..1 566)
                "isolation_checks": 190000, "estimate_calls_target_is_input": 4600, "estimate_calls_target_separate": 4900,
                "simulate_calls_with_target": 22000, "history_sequences_nontrivial": 9000,
                "history_later_estimates_checked": 9000, "history_simulate_runs_checked": 3900, "history_letter_pairs": 240,
                "history_len3_evaluated": 3000, "history_earlier_model_checks": 4300, "history_recovery_checked": 400}
FLOORS_THOROUGH = {"distinct_nontrivial": 300000, "recovery_checked": 28000, "simulate_runs_checked": 230000,
                   "acov_checked": 200000, "mean_checked": 300000, "fitted_row_patterns": 1500, "configs_reached": 144,
                   "recovery_configs": 34, "eigenvalues_checked_complex": 230000, "reference_selfchecks_ok": 1,
                   # call histories: measured by running the thorough history shards alone on the unchanged tree (seed 0):
                   # 239 760 histories, all evaluated | 430 560 | 179 622 | 252 | 217 728 | 173 664 | 119 295; 3.3M isolation
                   # comparisons in the histories alone. The three call counters of the single-call space are set from its
                   # size (993 992 calls, targets rotating over 3 values), far below a third of it.
                   "isolation_checks": 1600000, "estimate_calls_target_is_input": 150000, "estimate_calls_target_separate": 150000,
                   "simulate_calls_with_target": 100000, "history_sequences_nontrivial": 120000,
                   "history_later_estimates_checked": 215000, "history_simulate_runs_checked": 90000, "history_letter_pairs": 240,
                   "history_len3_evaluated": 108000, "history_earlier_model_checks": 86000, "history_recovery_checked": 40000}


def replay(case):
    """re-run one stored case; reports the violations of the stored check (all of them if the record names none)"""
    res = engine.Result()
    case = dict(case)
    want = case.pop("failed_check", None)
    if case.get("kind") == "history":
        run_history(case, res)
    else:
        run_case(case, res)
    return ["%s %s %s" % (v["check"], engine.sigkey(v["signature"]), v["detail"]) for v in res.violations
            if want is None or v["check"] == want]
