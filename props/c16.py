"""C16 — block decomposition of an incidence matrix is a valid sequential ordering.

Part 1 (enumeration): every boolean n x n matrix, n <= 4, that has a perfect matching (decided
    by ref/blockorder, two independent methods) x 3 id labelings -> incidences.blazer.blaze; the
    returned blocks must partition the supplied equation / quantity labels into square,
    structurally non-singular blocks whose equations touch only own + earlier quantities.
    Matrices without a perfect matching are outside the property: the outcome is counted only.
    thorough adds completely enumerated 5 x 5 families: permuted lower block-triangular patterns
    (blocks <= 3), permuted diagonals + <= 3 extra entries, matrices with >= 20 entries (3 labelings
    each); permuted diagonals + 4 extra entries, matrices with <= 2 entries in every row or in
    every column (non-contiguous labeling).
Part 2 (enumeration): Sequential.sequentialize on every zero-shift dependency digraph over 4
    equations x equation orders (+ every digraph over 3 equations x all 6 orders x all 27
    plain/identity/diff left-hand forms), lagged / lead / exogenous references as distractors.
    Oracle from the generated equations: acyclic => no exception, the returned order is the
    permutation that was applied, the multiset of equations is unchanged, every zero-shift read of
    a left-hand variable is defined by an earlier equation, is_sequential is True; cyclic => raises
    and equation_strings / lhs names / residual names / incidence matrix are unchanged.
Part 3 (enumeration): Simultaneous.split_into_blocks(None) on a generated model for every n x n
    incidence pattern with a perfect matching (quick n <= 3, thorough n = 4), 2 variants (plain;
    reversed declarations + `dynamic !! steady` equations whose dynamic half carries the
    transposed pattern); same block oracle, evaluated on the equation strings and names of the blocks.

Not detectable by construction (equivalent mutant): `_generate_inner_blocks` cutting at zero
    lower-left instead of zero upper-right corners.  After the heuristic the columns are sorted by
    decreasing and the rows by increasing count; counting entries shows that a zero lower-left
    corner then forces a zero upper-right corner, so that variant only returns coarser, still valid
    blocks (confirmed: no difference on n <= 4 complete, the 5x5 families, 120k random 5..7).
"""
import itertools
import operator
import re

import numpy as np

import irispie as ir
from irispie.incidences import blazer

from mc import engine
from ref import blockorder as B

PROPERTY = "C16"
LEVEL = "exploration"
RULE = ("1: every boolean n x n matrix (n<=4; + 584 5x5 matrices already in block lower-triangular order; thorough + five completely enumerated 5x5 families) with a "
        "perfect matching x id labelings {default, reversed, non-contiguous shuffled}; distinct non-trivial = "
        "distinct matrix with a perfect matching (labelings counted as evaluations only). 2: every labelled "
        "zero-shift dependency digraph over 4 equations x equation orders, every digraph over 3 equations x 6 "
        "orders x 27 left-hand forms; distinct = (n, digraph, order, forms, self-reference mask). 3: every n x n "
        "pattern with a perfect matching rendered as a Simultaneous model x 2 declaration variants")
MANIFEST_ENTRY = dict(
    level="exploration", design="DESIGN.md section 4 / C16",
    technique="complete enumeration of boolean incidence matrices / dependency digraphs against an independent "
              "bipartite-matching and topological-order reference",
    text="blazer.blaze is run on every boolean matrix up to 4x4 that has a perfect matching (38 078 matrices) under 3 "
         "id labelings, thorough adds ~1.7M completely enumerated 5x5 matrices (permuted lower block-triangular "
         "patterns with blocks <= 3, permuted diagonals with <= 4 extra entries, matrices with >= 20 entries, matrices "
         "with <= 2 entries per row or per column); each "
         "answer must be a partition of the supplied labels into square, structurally non-singular blocks that only "
         "look backwards. Sequential.sequentialize is run on all 4 096 zero-shift dependency digraphs over 4 equations "
         "(quick 4 equation orders, thorough all 24) and all 64 digraphs over 3 equations x 6 orders x 27 left-hand "
         "forms: acyclic => valid order, same equations, is_sequential; cyclic => raises, model untouched. "
         "Simultaneous.split_into_blocks is checked on a generated model per incidence pattern (n<=3 quick, n=4 thorough).",
    note="Trusted: ref/blockorder.py (backtracking matching cross-checked with Hall's condition on every block; Kahn "
         "cross-checked with DFS). Not covered: matrices above 5x5, 5x5 outside the listed families, steady plans with "
         "exogenized/endogenized names, duplicate left-hand names and zero-shift self references (outcomes counted, "
         "not gated). Fineness of the decomposition is recorded, not required.")
ASSUMPTIONS = [
    "a zero-shift reference of an equation to its own left-hand variable is not treated as a cycle (the incidence "
    "matrix cannot see it: the left-hand side itself sits on the diagonal); such models are counted, not gated",
    "two equations with the same left-hand name are outside the statement; outcome counted only",
    "matrices without a perfect matching are outside the statement; the implementation's outcome is counted only",
    "the property does not require the finest decomposition; coarser-than-finest answers are counted",
]

# ---------------------------------------------------------------------------
# Part 1 — blazer.blaze on boolean matrices
# ---------------------------------------------------------------------------

LABELINGS = ("default", "reversed", "offset")
# non-contiguous, non-monotone, different for equations and quantities; rotated by the seed
_E_TABLES = ((30, 10, 50, 20, 40), (41, 7, 19, 3, 28), (5, 400, 9, 100, 0))
_Q_TABLES = ((7, 3, 11, 5, 2), (12, 60, 24, 36, 48), (101, 1, 77, 13, 55))


def labels(n, lab, seed):
    """(eids, qids) handed to blaze; None means 'use the default'"""
    if lab == "default":
        return None, None
    if lab == "reversed":
        return tuple(range(n - 1, -1, -1)), tuple(range(n - 1, -1, -1))
    if lab == "offset":
        return _E_TABLES[seed % 3][:n], _Q_TABLES[(seed // 3 + seed) % 3][:n]
    raise KeyError(lab)


def to_numpy(n, rows):
    return np.array([[(rows[i] >> j) & 1 for j in range(n)] for i in range(n)], dtype=bool).reshape(n, n)


def _matrix_text(n, rows):
    return "/".join("".join("1" if (rows[i] >> j) & 1 else "0" for j in range(n)) for i in range(n))


def call_blaze(n, rows, lab, seed):
    """-> ('ok', [(eids, qids), ...], input_modified) | ('exception', exc)"""
    m = to_numpy(n, rows)
    keep = m.copy()
    eids, qids = labels(n, lab, seed)
    try:
        if eids is None:
            out = blazer.blaze(m)
        else:
            out = blazer.blaze(m, eids=eids, qids=qids)
        blocks = [(tuple(b.eids), tuple(b.qids)) for b in out]
    except Exception as e:      # noqa: BLE001 - the class is recorded
        return ("exception", e)
    return ("ok", blocks, not np.array_equal(m, keep))


def _to_index(blocks, n, lab, seed):
    """map returned labels back to row / column indexes; -> (index blocks, list of label problems)"""
    eids, qids = labels(n, lab, seed)
    eids = tuple(range(n)) if eids is None else eids
    qids = tuple(range(n)) if qids is None else qids
    e_ix = {v: i for i, v in enumerate(eids)}
    q_ix = {v: i for i, v in enumerate(qids)}
    problems = []
    out = []
    for be, bq in blocks:
        ri, ci = [], []
        for v in be:
            try:
                ri.append(e_ix[operator.index(v)])
            except (KeyError, TypeError):
                problems.append("equation id %r is not one of the supplied %r" % (v, eids))
        for v in bq:
            try:
                ci.append(q_ix[operator.index(v)])
            except (KeyError, TypeError):
                problems.append("quantity id %r is not one of the supplied %r" % (v, qids))
        out.append((tuple(ri), tuple(ci)))
    return out, problems


def check_blaze_case(n, bits, lab, seed, res, in_domain=True):
    rows = B.rows_from_bits(n, bits)
    case = {"part": "blaze", "n": n, "bits": bits, "labeling": lab, "seed": seed}
    res.ev()
    r = call_blaze(n, rows, lab, seed)
    if not in_domain:
        # no perfect matching: not in the property's domain — record what the implementation does
        if r[0] == "exception":
            res.count("nopm_raises_" + type(r[1]).__name__)
            return
        idx, problems = _to_index(r[1], n, lab, seed)
        bad = problems and [("labels", "")] or B.check_blocks(n, rows, idx)
        res.count("nopm_returns_" + (bad[0][0] if bad else "apparently_valid"))
        return
    sig = {"n": n, "labeling": lab}
    if r[0] == "exception":
        e = r[1]
        res.violation("exception", dict(sig, error=type(e).__name__), case,
                      "%s: %s on %s" % (type(e).__name__, e, _matrix_text(n, rows)))
        return
    blocks = r[1]
    if r[2]:
        res.count("observed_input_matrix_modified")
    idx, problems = _to_index(blocks, n, lab, seed)
    if problems:
        res.violation("labels", sig, case, "%s; matrix %s blocks %r" % (problems[0], _matrix_text(n, rows), blocks))
        return
    bad = B.check_blocks(n, rows, idx)
    for check, detail in bad:
        res.violation(check, sig, case, "%s; matrix %s blocks (rows, columns) %r returned %r"
                      % (detail, _matrix_text(n, rows), idx, blocks))
    if bad:
        return
    sizes = tuple(len(b[0]) for b in idx)
    res.cls("block_sizes", (n,) + sizes)
    res.nt((n << 25) | bits)
    if B.finest_block_count(n, rows) > len(idx):
        res.count("observed_coarser_than_finest")
    else:
        res.count("observed_finest_decomposition")
    if max(sizes) > 1:
        res.count("cases_with_a_simultaneous_block")


def shard_blaze_range(item, res, ctx):
    """every code in [lo, hi) of the n x n matrices; all labelings for those with a perfect matching"""
    n, lo, hi = item
    for bits in range(lo, hi):
        rows = B.rows_from_bits(n, bits)
        pm = B.has_pm(rows)
        if n <= 4 and (pm != B.has_pm_hall(rows) or pm != B.has_pm_perm(rows)):
            raise AssertionError("reference matching self-check failed on n=%d bits=%d" % (n, bits))
        if pm:
            res.count("matrices_with_perfect_matching")
            for lab in LABELINGS:
                check_blaze_case(n, bits, lab, ctx.seed, res)
        else:
            res.exclude("no_perfect_matching")
            check_blaze_case(n, bits, "default", ctx.seed, res, in_domain=False)
    if n == 4 and lo <= SAMPLE_BITS_4 < hi:
        res.sample(blaze_sample(4, SAMPLE_BITS_4, "offset", ctx.seed))


def shard_blaze_list(item, res, ctx):
    """an explicit list of 5 x 5 codes (already filtered for a perfect matching by the master)"""
    n, codes, labs, family, prefiltered = item
    for bits in codes:
        rows = B.rows_from_bits(n, bits)
        if not B.has_pm(rows):
            if prefiltered:
                raise AssertionError("family generator produced a matrix without a perfect matching: %d" % bits)
            res.exclude("n5_family_member_without_perfect_matching")
            continue
        res.count("matrices_with_perfect_matching")
        res.count("n5_matrices")
        for lab in labs:
            check_blaze_case(n, bits, lab, ctx.seed, res)
    if SAMPLE_BITS_5 in codes:
        res.sample(blaze_sample(5, SAMPLE_BITS_5, "offset", ctx.seed))


SAMPLE_BITS_4 = 0b1001_0110_0011_0011        # rows 1100 / 1100 / 0110 / 1001 (leftmost character = column 0)
SAMPLE_BITS_5 = 0b10000_01000_00110_00011_00101     # a permuted diagonal + 3 extra entries


def blaze_sample(n, bits, lab, seed):
    """one explored case written out for the evidence file"""
    rows = B.rows_from_bits(n, bits)
    eids, qids = labels(n, lab, seed)
    r = call_blaze(n, rows, lab, seed)
    return {"part": "blaze", "n": n, "bits": bits, "matrix_rows": _matrix_text(n, rows), "labeling": lab,
            "eids": eids, "qids": qids,
            "returned_blocks_eids_qids": [[[int(x) for x in b[0]], [int(x) for x in b[1]]] for b in r[1]] if r[0] == "ok" else repr(r[1])}


# ---- 5 x 5 families (thorough), generated completely with numpy in the master ------------------

_W5 = (1 << np.arange(25, dtype=np.int64))


def _codes(stack):
    """stack: (..., 5, 5) bool -> int64 codes, row-major"""
    return stack.reshape(-1, 25).astype(np.int64) @ _W5


def _compositions(total, parts):
    if total == 0:
        yield ()
        return
    for p in parts:
        if p <= total:
            for rest in _compositions(total - p, parts):
                yield (p,) + rest


def family_block_triangular():
    """all P*A*Q with A lower block-triangular: block sizes <= 3 (every composition of 5), diagonal blocks full
    (3x3 also: identity + cyclic shift), every below-diagonal block either zero or full.  All 120 x 120 (P, Q) for
    patterns with at least one block of size >= 2; for the 1 024 triangular patterns (all blocks 1x1) P only, Q only
    and P = Q."""
    perms = np.array(list(itertools.permutations(range(5))), dtype=np.intp)
    out = []
    n_patterns = 0
    for comp in _compositions(5, (1, 2, 3)):
        k = len(comp)
        starts = np.concatenate(([0], np.cumsum(comp)))
        diag_options = []
        for s in comp:
            opts = [np.ones((s, s), dtype=bool)]
            if s == 3:
                opts.append(np.eye(3, dtype=bool) | np.roll(np.eye(3, dtype=bool), 1, axis=1))
            diag_options.append(opts)
        pairs = [(i, j) for i in range(k) for j in range(i)]
        for diag in itertools.product(*diag_options):
            for links in range(1 << len(pairs)):
                a = np.zeros((5, 5), dtype=bool)
                for b, d in enumerate(diag):
                    a[starts[b]:starts[b + 1], starts[b]:starts[b + 1]] = d
                for t, (i, j) in enumerate(pairs):
                    if (links >> t) & 1:
                        a[starts[i]:starts[i + 1], starts[j]:starts[j + 1]] = True
                n_patterns += 1
                if k < 5:
                    st = a[perms][:, :, perms]                  # (120, 5, 120, 5)
                    st = st.transpose(0, 2, 1, 3)
                    out.append(np.unique(_codes(st)))
                else:
                    r_only = a[perms]
                    c_only = a[:, perms].transpose(1, 0, 2)
                    both = np.stack([a[np.ix_(p, p)] for p in perms])
                    out.append(np.unique(_codes(np.concatenate((r_only, c_only, both)))))
    return np.unique(np.concatenate(out)), n_patterns


def family_natural_block_triangular():
    """5 x 5 matrices that are ALREADY in lower block-triangular order (no permutation applied): every base pattern
    of family_block_triangular, and for the two-block shapes 2+3 and 3+2 every below-diagonal block C (all 2^6) with
    full / cyclic diagonal blocks.  Small enough for the quick tier; it is the shape in which the reordering step
    has to move rows across block boundaries of a matrix that was handed over in good order."""
    out = []
    for comp in _compositions(5, (1, 2, 3)):
        k = len(comp)
        if k == 5:
            continue
        starts = np.concatenate(([0], np.cumsum(comp)))
        diag_options = []
        for s_ in comp:
            opts = [np.ones((s_, s_), dtype=bool)]
            if s_ == 3:
                opts.append(np.eye(3, dtype=bool) | np.roll(np.eye(3, dtype=bool), 1, axis=1))
            diag_options.append(opts)
        pairs = [(i, j) for i in range(k) for j in range(i)]
        for diag in itertools.product(*diag_options):
            base = np.zeros((5, 5), dtype=bool)
            for b, d in enumerate(diag):
                base[starts[b]:starts[b + 1], starts[b]:starts[b + 1]] = d
            for links in range(1 << len(pairs)):
                a = base.copy()
                for t, (i, j) in enumerate(pairs):
                    if (links >> t) & 1:
                        a[starts[i]:starts[i + 1], starts[j]:starts[j + 1]] = True
                out.append(a)
            if k == 2:
                r0, c1 = starts[1], starts[1]
                cells = [(r, c) for r in range(r0, 5) for c in range(0, c1)]
                for bits in range(1 << len(cells)):
                    a = base.copy()
                    for t, (r, c) in enumerate(cells):
                        if (bits >> t) & 1:
                            a[r, c] = True
                    out.append(a)
    return np.unique(_codes(np.stack(out)))


def family_permuted_diagonal(max_extra=3):
    """every permutation matrix plus at most `max_extra` further entries"""
    out = []
    for p in itertools.permutations(range(5)):
        base = 0
        for i, j in enumerate(p):
            base |= 1 << (i * 5 + j)
        free = [b for b in range(25) if not (base >> b) & 1]
        for r in range(max_extra + 1):
            for extra in itertools.combinations(free, r):
                c = base
                for b in extra:
                    c |= 1 << b
                out.append(c)
    return np.unique(np.array(out, dtype=np.int64))


def family_dense(min_entries=20):
    """every 5 x 5 matrix with at least `min_entries` ones (those without a perfect matching are dropped)"""
    full = (1 << 25) - 1
    out = []
    dropped = 0
    for zeros in range(25 - min_entries + 1):
        for z in itertools.combinations(range(25), zeros):
            c = full
            for b in z:
                c &= ~(1 << b)
            if B.has_pm(B.rows_from_bits(5, c)):
                out.append(c)
            else:
                dropped += 1
    return np.array(sorted(out), dtype=np.int64), dropped


def family_sparse_rows(max_per_row=2):
    """every 5 x 5 matrix with 1..max_per_row entries in every row, and the transposes (1..max_per_row entries in
    every column); members without a perfect matching are excluded (and counted) by the workers"""
    opts = [sum(1 << j for j in c) for r in range(1, max_per_row + 1) for c in itertools.combinations(range(5), r)]
    opts = np.array(opts, dtype=np.int64)
    codes = np.zeros(1, dtype=np.int64)
    for i in range(5):
        codes = np.add.outer(codes, opts << (5 * i)).reshape(-1)
    transposed = np.zeros_like(codes)
    for i in range(5):
        for j in range(5):
            transposed |= ((codes >> (i * 5 + j)) & 1) << (j * 5 + i)
    return np.unique(np.concatenate((codes, transposed)))


# ---------------------------------------------------------------------------
# Part 2 — Sequential.sequentialize
# ---------------------------------------------------------------------------

FORMS = ("plain", "identity", "diff")
_COEF_TABLES = (("0.5", "0.25", "0.125", "2"), ("0.3", "1.5", "0.7", "0.2"), ("1", "0.4", "3", "0.6"))
_TOKEN = re.compile(r"(?<![A-Za-z0-9_])x(\d+)(\[[-+]?\d+\])?")


def pairs_of(n):
    return [(i, j) for i in range(n) for j in range(n) if i != j]


def deps_of(n, graph):
    deps = [0] * n
    for b, (i, j) in enumerate(pairs_of(n)):
        if (graph >> b) & 1:
            deps[i] |= 1 << j
    return deps


def sequential_source(n, graph, order, forms, selfmask, seed, dup=None):
    """model source: equation i defines x_i (or x_dup[i] when `dup` maps equation -> variable index).
    Zero-shift reads are exactly deps[i] (+ x_i itself when bit i of selfmask); every equation also reads a lag
    of its own variable, a lag of x_{i+1}, a lead of x_{i-1}, an exogenous name and a parameter."""
    deps = deps_of(n, graph)
    coef = _COEF_TABLES[seed % 3]
    var = (lambda i: "x%d" % i) if dup is None else (lambda i: "x%d" % dup[i])
    lines = []
    for i in order:
        terms = ["%s*%s" % (coef[j % 4], var(j)) for j in range(n) if (deps[i] >> j) & 1 and var(j) != var(i)]
        if (selfmask >> i) & 1:
            terms.append("%s*%s" % (coef[3], var(i)))
        terms.append("0.1*%s[-1]" % var((i + 1) % n))
        terms.append("0.2*%s[-1]" % var(i))
        terms.append("0.05*%s[+1]" % var((i - 1) % n))
        terms.append("k*z%d" % (i % 2))
        terms.append("%d" % (i + 1))
        form = forms[i]
        lhs = {"plain": "%s =", "identity": "%s ===", "diff": "diff(%s) ="}[form] % var(i)
        lines.append("    %s %s;" % (lhs, " + ".join(terms)))
    return "!parameters\n    k\n!equations\n" + "\n".join(lines) + "\n"


def parse_equation(string):
    """own reading of one equation string as reported by the model: (lhs variable index, zero-shift reads on
    the right-hand side as a bitmask)"""
    if "===" in string:
        lhs, rhs = string.split("===", 1)
    else:
        lhs, rhs = string.split("=", 1)
    m = _TOKEN.search(lhs)
    lhs_ix = int(m.group(1))
    reads = 0
    for t in _TOKEN.finditer(rhs):
        if t.group(2) is None:
            reads |= 1 << int(t.group(1))
    return lhs_ix, reads


def _snapshot(m):
    return {
        "equation_strings": tuple(m.equation_strings),
        "lhs_names": tuple(m.lhs_names),
        "lhs_names_in_equations": tuple(m.lhs_names_in_equations),
        "residual_names": tuple(m.residual_names),
        "incidence_matrix": np.asarray(m.incidence_matrix).astype(int).tolist(),
        "is_sequential": bool(m.is_sequential),
    }


def check_seq_case(n, graph, order, forms, selfmask, seed, res, dup=None):
    case = {"part": "seq", "n": n, "graph": graph, "order": list(order), "forms": list(forms),
            "selfmask": selfmask, "seed": seed, "dup": dup}
    res.ev()
    deps = deps_of(n, graph)
    src = sequential_source(n, graph, order, forms, selfmask, seed, dup)
    m = ir.Sequential.from_string(src)
    before = _snapshot(m)
    old = before["equation_strings"]
    # --- harness sanity: the model reports the equations we wrote --------------------------------------
    parsed = [parse_equation(s) for s in old]
    if dup is None:
        for pos, i in enumerate(order):
            want = deps[i] | ((1 << i) if (selfmask >> i) & 1 else 0)
            if parsed[pos] != (i, want):
                raise AssertionError("generated equation not recognised: %r parsed %r expected %r"
                                     % (old[pos], parsed[pos], (i, want)))
    ambiguous = bool(selfmask) or dup is not None
    acyclic = B.is_acyclic(n, deps)
    if acyclic == B.has_cycle_dfs(n, deps):
        raise AssertionError("reference acyclicity self-check failed for graph %d" % graph)
    gclass = "selfref" if selfmask else ("duplicate_lhs" if dup is not None else ("acyclic" if acyclic else "cyclic"))
    sig = {"n": n, "graph_class": gclass}
    already = not B.order_violations(deps, order)
    if not ambiguous:
        if before["is_sequential"] != already:
            res.violation("is_sequential", dict(sig, when="before"), case,
                          "is_sequential=%r but the source order %s sequential; equations %r"
                          % (before["is_sequential"], "is" if already else "is not", old))
    # --- the call ------------------------------------------------------------------------------------------
    try:
        ret = m.sequentialize()
        raised = None
    except Exception as e:      # noqa: BLE001
        raised = e
    after = _snapshot(m)
    if raised is not None:
        # unambiguous for every model: a failed call leaves the model untouched
        changed = [k for k in before if before[k] != after[k]]
        if changed:
            res.violation("modified_on_raise", sig, case, "%s changed although sequentialize raised %s: before %r after %r"
                          % (changed, type(raised).__name__, before[changed[0]], after[changed[0]]))
        if ambiguous:
            res.count("observed_%s_raises_%s" % (gclass, type(raised).__name__))
            return
        if acyclic:
            res.violation("acyclic_rejected", dict(sig, error=type(raised).__name__), case,
                          "%s: %s; equations %r" % (type(raised).__name__, raised, old))
            return
        res.count("cyclic_rejected_with_" + type(raised).__name__)
        res.nt(("seq", n, graph, tuple(order), tuple(forms), selfmask))
        res.cls("seq_outcome", ("cyclic", n, sum(bin(d).count("1") for d in deps)))
        return
    new = after["equation_strings"]
    # the multiset of equations is unchanged (unambiguous for every model)
    if sorted(new) != sorted(old):
        res.violation("equations_changed", sig, case, "before %r after %r" % (old, new))
        return
    if ambiguous:
        if dup is None:
            v = B.order_violations(deps, [parse_equation(s)[0] for s in new])
            res.count("observed_selfref_accepted_" + ("other_reads_ordered" if not v else "other_reads_unordered"))
        else:
            res.count("observed_duplicate_lhs_accepted")
        return
    if not acyclic:
        res.violation("cyclic_accepted", sig, case, "returned %r; equations now %r" % (ret, new))
        return
    # acyclic: returned order is the permutation that was applied
    try:
        ret_t = tuple(operator.index(i) for i in ret)
    except TypeError:
        ret_t = None
    if ret_t is None or sorted(ret_t) != list(range(n)):
        res.violation("returned_order", sig, case, "returned %r is not a permutation of range(%d)" % (ret, n))
        return
    if tuple(old[i] for i in ret_t) != new:
        res.violation("returned_order", sig, case, "returned %r does not describe the reordering: before %r after %r"
                      % (ret, old, new))
    # every zero-shift read of a left-hand variable is defined earlier — from the equations themselves
    new_parsed = [parse_equation(s) for s in new]
    new_order = [p[0] for p in new_parsed]
    if sorted(new_order) != list(range(n)) or any(new_parsed[k][1] != deps[new_order[k]] for k in range(n)):
        raise AssertionError("reordered equations not recognised: %r" % (new,))
    viol = B.order_violations(deps, new_order)
    if viol:
        pos, i, j = viol[0]
        res.violation("order", sig, case, "equation %d (%r) reads x%d at zero shift before it is defined; order now %r"
                      % (pos, new[pos], j, new))
    if not after["is_sequential"]:
        res.violation("is_sequential", dict(sig, when="after"), case,
                      "is_sequential is False after a successful sequentialize; equations %r" % (new,))
    names = tuple("x%d" % i for i in new_order)
    if after["lhs_names"] != names or after["lhs_names_in_equations"] != names:
        res.violation("lhs_names", sig, case, "lhs_names %r / in equations %r do not follow the new equation order %r"
                      % (after["lhs_names"], after["lhs_names_in_equations"], names))
    # a second call works on a sequential model: whatever it returns must again be valid
    try:
        ret2 = m.sequentialize()
        again = _snapshot(m)
        order2 = [parse_equation(s)[0] for s in again["equation_strings"]]
        if (sorted(again["equation_strings"]) != sorted(old) or B.order_violations(deps, order2)
                or not again["is_sequential"]):
            res.violation("second_call", sig, case, "returned %r; equations %r" % (ret2, again["equation_strings"]))
        elif again["equation_strings"] != new:
            res.count("observed_second_call_reorders_again")
    except Exception as e:      # noqa: BLE001
        res.violation("second_call", dict(sig, error=type(e).__name__), case, "%s: %s" % (type(e).__name__, e))
    # the object has now been inspected and put in order; move its equations by hand (reversed, then rotated by one)
    # and ask again: is_sequential must describe the order the equations are in NOW, sequentialize must repair it
    if n >= 2:
        for label, perm in (("reversed", list(range(n - 1, -1, -1))), ("rotated", list(range(1, n)) + [0])):
            try:
                m.reorder_equations(perm)
                moved = _snapshot(m)
                order3 = [parse_equation(s_)[0] for s_ in moved["equation_strings"]]
                res.count("hand_reorders_checked")
                if sorted(moved["equation_strings"]) != sorted(old):
                    res.violation("hand_reorder", dict(sig, step=label), case, "reorder_equations(%r) changed the set of equations: %r" % (perm, moved["equation_strings"]))
                    break
                if moved["is_sequential"] != (not B.order_violations(deps, order3)):
                    res.violation("hand_reorder", dict(sig, step=label, what="is_sequential"), case,
                                  "after reorder_equations(%r) is_sequential=%r for the order %r" % (perm, moved["is_sequential"], moved["equation_strings"]))
                ret3 = m.sequentialize()
                fixed = _snapshot(m)
                order4 = [parse_equation(s_)[0] for s_ in fixed["equation_strings"]]
                if (sorted(fixed["equation_strings"]) != sorted(old) or B.order_violations(deps, order4) or not fixed["is_sequential"]):
                    res.violation("hand_reorder", dict(sig, step=label, what="sequentialize"), case,
                                  "after reorder_equations(%r) sequentialize returned %r and left %r" % (perm, ret3, fixed["equation_strings"]))
            except Exception as e:      # noqa: BLE001
                res.violation("hand_reorder", dict(sig, step=label, error=type(e).__name__), case, "%s: %s" % (type(e).__name__, e))
                break
    res.nt(("seq", n, graph, tuple(order), tuple(forms), selfmask))
    res.count("acyclic_already_sequential" if already else "acyclic_reordered")
    res.cls("seq_outcome", ("acyclic", n, tuple(ret_t)))


def _forms_for(n, graph):
    """plain / identity pattern of the 4-equation sweep: a fixed function of the digraph code"""
    mask = (graph ^ (graph >> 4) ^ (graph >> 8)) & ((1 << n) - 1)
    return tuple("identity" if (mask >> i) & 1 else "plain" for i in range(n))


def shard_seq4(item, res, ctx):
    n, g_lo, g_hi, orders = item
    for graph in range(g_lo, g_hi):
        forms = _forms_for(n, graph)
        for order in orders:
            check_seq_case(n, graph, order, forms, 0, ctx.seed, res)
    for graph in (SAMPLE_GRAPH_ACYCLIC, SAMPLE_GRAPH_CYCLIC):
        if g_lo <= graph < g_hi:
            res.sample(seq_sample(n, graph, orders[-1], _forms_for(n, graph), ctx.seed))


SAMPLE_GRAPH_ACYCLIC = 0b000_100_000_011      # x0 reads x1, x2; x2 reads x3
SAMPLE_GRAPH_CYCLIC = 0b000_000_001_001       # x0 reads x1, x1 reads x0


def seq_sample(n, graph, order, forms, seed):
    src = sequential_source(n, graph, order, forms, 0, seed)
    m = ir.Sequential.from_string(src)
    try:
        out = [int(i) for i in m.sequentialize()]
    except Exception as e:      # noqa: BLE001
        out = "%s: %s" % (type(e).__name__, e)
    return {"part": "seq", "n": n, "graph": graph, "order": list(order), "forms": list(forms), "source": src,
            "acyclic": B.is_acyclic(n, deps_of(n, graph)), "sequentialize": out, "equations_after": list(m.equation_strings)}


def shard_seq3(item, res, ctx):
    """3 equations: every digraph x every order x every plain/identity/diff form vector; plus the counted-only
    families (zero-shift self references, duplicate left-hand names)"""
    n, graphs = item
    orders = list(itertools.permutations(range(n)))
    for graph in graphs:
        for order in orders:
            for forms in itertools.product(FORMS, repeat=n):
                check_seq_case(n, graph, order, forms, 0, ctx.seed, res)
            for selfmask in range(1, 1 << n):
                check_seq_case(n, graph, order, ("plain",) * n, selfmask, ctx.seed, res)
            # equation 2 defines x0 again (duplicate left-hand name)
            check_seq_case(n, graph, order, ("plain",) * n, 0, ctx.seed, res, dup=[0, 1, 0])


def shard_seq_small(item, res, ctx):
    """n = 1, 2: everything"""
    for n in (1, 2):
        for graph in range(1 << len(pairs_of(n))):
            for order in itertools.permutations(range(n)):
                for forms in itertools.product(FORMS, repeat=n):
                    check_seq_case(n, graph, order, forms, 0, ctx.seed, res)


# ---------------------------------------------------------------------------
# Part 3 — Simultaneous.split_into_blocks on generated models
# ---------------------------------------------------------------------------

_NAMES = ("va", "vb", "vc", "vd", "ve")


def steady_model(n, rows, variant, seed):
    """-> (source, equation strings without blanks in row order, variable names in column order).
    Entry (i, j) is rendered as variable j with time shift ((i + 2j) mod 3) - 1; every equation also carries a shock
    and a parameter (which must not enter the incidence matrix).  variant 1 declares variables and writes equations in
    reverse order (so ids differ from our row / column indexes) and writes every equation as `dynamic !! steady` with
    the transposed pattern in the dynamic half (blocks must come from the steady halves)."""
    coef = _COEF_TABLES[seed % 3]
    names = _NAMES[:n]
    full = (1 << n) - 1

    def render(i, mask):
        terms = []
        for j in range(n):
            if (mask >> j) & 1:
                sh = (i + 2 * j) % 3 - 1
                terms.append("%s*%s%s" % (coef[(i + j) % 4], names[j], "" if sh == 0 else "[%+d]" % sh))
        return "%s + sh%d = p*%d" % (" + ".join(terms), i, 10 + i)
    eqs = []
    for i in range(n):
        if variant == 1:
            # dynamic half: the transposed pattern (its block order is the reverse one), steady half: the pattern itself
            tr = sum(1 << j for j in range(n) if (rows[j] >> i) & 1)
            eqs.append("%s !! %s" % (render(i, tr or full), render(i, rows[i])))
        else:
            eqs.append(render(i, rows[i]))
    decl = list(names)
    eq_order = list(range(n))
    if variant == 1:
        decl.reverse()
        eq_order.reverse()
    src = ("!transition-variables\n    %s\n!transition-shocks\n    %s\n!parameters\n    p\n!transition-equations\n%s\n"
           % (", ".join(decl), ", ".join("sh%d" % i for i in range(n)),
              "\n".join("    %s;" % eqs[i] for i in eq_order)))
    return src, names


_STEADY_MARK = re.compile(r"=p\*(\d+)$")
_STEADY_VAR = re.compile(r"(?<![A-Za-z0-9_])(v[a-e])(?![A-Za-z0-9_])")


def read_steady_equation(string, n, names):
    """own reading of a block's equation string: (row index from the marker constant, bitmask of variables named)"""
    m = _STEADY_MARK.search(string.replace(" ", ""))
    if m is None or not 10 <= int(m.group(1)) < 10 + n:
        return None
    mask = 0
    for v in _STEADY_VAR.findall(string):
        mask |= 1 << names.index(v)
    return int(m.group(1)) - 10, mask


def check_steady_case(n, bits, variant, seed, res):
    rows = B.rows_from_bits(n, bits)
    case = {"part": "steady", "n": n, "bits": bits, "variant": variant, "seed": seed}
    sig = {"n": n, "via": "split_into_blocks"}
    res.ev()
    src, names = steady_model(n, rows, variant, seed)
    try:
        m = ir.Simultaneous.from_string(src, linear=False, flat=True)
    except Exception as e:      # noqa: BLE001
        res.count("steady_model_rejected_" + type(e).__name__)
        return
    try:
        hbs = m.split_into_blocks(None)
        got = [(tuple(h.equations), tuple(h.quantities)) for h in hbs]
    except Exception as e:      # noqa: BLE001
        res.violation("exception", dict(sig, error=type(e).__name__), case,
                      "%s: %s on %s" % (type(e).__name__, e, _matrix_text(n, rows)))
        return
    q_ix = {s: j for j, s in enumerate(names)}
    idx = []
    for be, bq in got:
        ri = []
        for s in be:
            r = read_steady_equation(s, n, names)
            if r is None:
                res.violation("labels", sig, case, "block equation %r is not an equation of the model; blocks %r" % (s, got))
                return
            if r[1] != rows[r[0]]:
                # the block lists an equation whose variables are not the steady-state form we wrote for that row
                res.violation("labels", sig, case, "block equation %r is not the steady form of row %d (%s); blocks %r"
                              % (s, r[0], _matrix_text(n, rows), got))
                return
            ri.append(r[0])
        if any(s not in q_ix for s in bq):
            res.violation("labels", sig, case, "block quantities %r are not all variables of the model; blocks %r" % (bq, got))
            return
        idx.append((tuple(ri), tuple(q_ix[s] for s in bq)))
    bad = B.check_blocks(n, rows, idx)
    for check, detail in bad:
        res.violation(check, sig, case, "%s; matrix %s blocks %r" % (detail, _matrix_text(n, rows), got))
    if not bad:
        res.count("steady_models_checked")
        res.cls("steady_block_sizes", (n,) + tuple(len(b[0]) for b in idx))
        res.nt(("steady", n, bits, variant))


def shard_steady(item, res, ctx):
    n, lo, hi = item
    for bits in range(lo, hi):
        if not B.has_pm(B.rows_from_bits(n, bits)):
            continue
        for variant in (0, 1):
            check_steady_case(n, bits, variant, ctx.seed, res)
    if n == 3 and lo <= SAMPLE_BITS_3 < hi:
        rows = B.rows_from_bits(3, SAMPLE_BITS_3)
        src, names = steady_model(3, rows, 1, ctx.seed)
        m = ir.Simultaneous.from_string(src, linear=False, flat=True)
        res.sample({"part": "steady", "n": 3, "bits": SAMPLE_BITS_3, "variant": 1, "matrix_rows": _matrix_text(3, rows),
                    "source": src, "blocks": [[list(h.equations), list(h.quantities)] for h in m.split_into_blocks(None)]})


SAMPLE_BITS_3 = 0b110_011_001        # rows 100 / 110 / 011


def shard_dispatch(item, res, ctx):
    """one pool for shards of different kinds: item = (shard function name, payload)"""
    globals()[item[0]](item[1], res, ctx)


# ---------------------------------------------------------------------------
# driver
# ---------------------------------------------------------------------------

QUICK_ORDERS = ((0, 1, 2, 3), (3, 2, 1, 0), (2, 0, 3, 1), (1, 3, 0, 2))


def _chunks(seq, size):
    for i in range(0, len(seq), size):
        yield seq[i:i + size]


def run(ctx, total, info):
    deadline = (ctx.t0 + ctx.cap_s) if getattr(ctx, "cap_s", None) else None
    exhaustive = True
    # ---- core: everything up to 4 x 4 / 4 equations, one pool call, bigger shards first ------------------
    orders4 = QUICK_ORDERS if ctx.quick else tuple(itertools.permutations(range(4)))
    step = 128 if ctx.quick else 32
    shards = []
    if not ctx.quick:
        shards += [("shard_steady", (4, lo, lo + 256)) for lo in range(0, 1 << 16, 256)]
    shards += [("shard_seq4", (4, lo, lo + step, orders4)) for lo in range(0, 4096, step)]
    shards += [("shard_seq3", (3, list(range(lo, lo + 2)))) for lo in range(0, 64, 2)]
    shards += [("shard_blaze_range", (4, lo, lo + 512)) for lo in range(0, 1 << 16, 512)]
    shards += [("shard_blaze_range", (3, 0, 512)), ("shard_blaze_range", (2, 0, 16)), ("shard_blaze_range", (1, 0, 2))]
    shards += [("shard_steady", (3, lo, lo + 32)) for lo in range(0, 512, 32)]
    shards += [("shard_steady", (2, 0, 16)), ("shard_steady", (1, 0, 2)), ("shard_seq_small", 0)]
    engine.run_shards(__name__, "shard_dispatch", shards, ctx, total)
    # ---- Part 1, both tiers: 5 x 5 matrices already in block lower-triangular order ----------------------------
    nat = family_natural_block_triangular()
    done, n = engine.run_shards(__name__, "shard_blaze_list", [(5, [int(x) for x in ch], LABELINGS, "natural", True) for ch in _chunks(nat, 150)],
                                ctx, total, deadline=deadline)
    if done < n:
        exhaustive = False
    # ---- Part 1, thorough: 5 x 5 families ---------------------------------------------------------------------
    fam_info = {}
    if not ctx.quick:
        a, n_patterns = family_block_triangular()
        b = family_permuted_diagonal(3)
        c, dropped = family_dense(20)
        fam_info = {"block_triangular": {"base_patterns": n_patterns, "distinct_matrices": int(a.size), "labelings": list(LABELINGS)},
                    "permuted_diagonal_plus_le3": {"distinct_matrices": int(b.size), "labelings": list(LABELINGS)},
                    "dense_ge20_entries": {"distinct_matrices": int(c.size), "without_perfect_matching_dropped": dropped,
                                           "labelings": list(LABELINGS)}}
        b4 = family_permuted_diagonal(4)
        fam_info["permuted_diagonal_plus_4"] = {"distinct_matrices": int(b4.size - b.size), "labelings": ["offset"]}
        d = family_sparse_rows(2)
        fam_info["le2_entries_in_every_row_or_in_every_column"] = {
            "distinct_matrices_before_matching_filter": int(d.size), "labelings": ["offset"]}
        abc = np.unique(np.concatenate((a, b, c)))
        rest = np.setdiff1d(b4, abc)
        d_only = np.setdiff1d(d, np.union1d(abc, rest))
        fam_info["union_distinct_matrices_before_matching_filter"] = int(abc.size + rest.size + d_only.size)
        shards = [(5, [int(x) for x in ch], LABELINGS, "abc", True) for ch in _chunks(abc, 1200)]
        shards += [(5, [int(x) for x in ch], ("offset",), "b4", True) for ch in _chunks(rest, 8000)]
        shards += [(5, [int(x) for x in ch], ("offset",), "d", False) for ch in _chunks(d_only, 8000)]
        done, n = engine.run_shards(__name__, "shard_blaze_list", shards, ctx, total, deadline=deadline)
        if done < n:
            exhaustive = False
            fam_info["shards_completed"] = [done, n]
    c = total.counters
    info["space"] = {
        "blaze_n_le_4": "all 2^(n*n) matrices, n=1..4; 3 labelings for those with a perfect matching",
        "blaze_n5_natural_order_block_triangular": {"distinct_matrices": int(nat.size), "labelings": list(LABELINGS)},
        "blaze_n5_families": fam_info or "thorough only",
        "sequentialize": {"n4_digraphs": 4096, "n4_orders": len(orders4), "n3_digraphs": 64, "n3_orders": 6,
                          "n3_form_vectors": 27, "n3_selfref_masks": 7, "n3_duplicate_lhs": 1},
        "steady_blocks": "every pattern with a perfect matching, n<=%d, 2 variants (plain; reversed declarations + dynamic !! steady)" % (3 if ctx.quick else 4),
    }
    info["bound_completed"] = {"matrix_size_complete": 4, "matrix_size_families": 4 if ctx.quick else 5,
                               "equations_complete": 4}
    info["rejected_by_implementation"] = {k: v for k, v in c.items() if k.startswith("cyclic_rejected")}
    info["exhaustive"] = exhaustive
    info["floors"] = {
        "matrices_with_perfect_matching": (c["matrices_with_perfect_matching"], 30000 if ctx.quick else 700000),
        "blaze_block_size_structures": (len(total.classes.get("block_sizes", ())), 12 if ctx.quick else 20),
        "blaze_n5_matrices": (c["n5_matrices"], 500),
        "seq_hand_reorders_checked": (c["hand_reorders_checked"], 8000),
        "blaze_cases_with_a_simultaneous_block": (c["cases_with_a_simultaneous_block"], 30000),
        "seq_acyclic_reordered": (c["acyclic_reordered"], 4000 if ctx.quick else 8000),
        "seq_acyclic_already_sequential": (c["acyclic_already_sequential"], 1500),
        "seq_cyclic_rejected": (sum(v for k, v in c.items() if k.startswith("cyclic_rejected")), 8000 if ctx.quick else 40000),
        "steady_models_checked": (c["steady_models_checked"], 300 if ctx.quick else 40000),
    }


def replay(case):
    res = engine.Result()
    part = case.get("part")
    seed = int(case.get("seed", 0))
    if part == "blaze":
        check_blaze_case(case["n"], case["bits"], case["labeling"], seed, res)
    elif part == "seq":
        check_seq_case(case["n"], case["graph"], tuple(case["order"]), tuple(case["forms"]), case["selfmask"], seed, res,
                       dup=case.get("dup"))
    elif part == "steady":
        check_steady_case(case["n"], case["bits"], case["variant"], seed, res)
    return ["%s %s %s" % (v["check"], engine.sigkey(v["signature"]), v["detail"]) for v in res.violations]
