"""C17 — Sequential-model simulation makes every equation hold, also when exogenized.

Bounded exhaustive enumeration of generated `Sequential` models x input databoxes x simulation
plans x execution orders x variants, every case executed by the real `Sequential.simulate` and
judged on its OUTPUT databox by an independent reference (ref/expr trees evaluated with `math`):

Part M (models)  every model of a stated family (all 1- and 2-equation models over
                 6 LHS transforms x identity? x every subset of the RHS term list; a listed
                 3-equation family; a listed "lead" family that only `equations_dates` can
                 simulate; LHS spellings `diff(x)`, `diff(x, -1)`, `difflog(x)`), with no plan and
                 with a standard plan (every non-identity variable exogenized at two dates), both
                 orders, non-zero residual paths with one missing and one explicit-zero entry; every model
                 that has a parameter again with an OLD CALIBRATION LEFT IN THE INPUT DATABOX (an item named
                 like each parameter whose value differs from the assigned one: a plain number, a Series
                 over the span, a per-variant list) - default options, so the model's values must be used.
Part P (plans)   skeleton models x exogenized variable x EVERY non-empty subset of a 3-period
                 window x 6 plan transforms x when_data in {F,T} x data present on EVERY subset
                 of the window (quick: every subset of the exogenized dates) x {zero, non-zero}
                 input residual at the exogenized variable x both orders (x 2 variants for a listed
                 part); plus both variables of a 2-equation skeleton exogenized on every pair of
                 non-empty window subsets; plus the PLAN DATA HELD IN A DIFFERENTLY NAMED SERIES
                 (exogenize(..., name_format="{}_tune" | "tune_{}"), every plan transform x when_data x
                 listed date subsets x every presence subset x residual mode) while the variable's own /
                 the default-named series holds different present values; plus the stale-calibration
                 databoxes of part M on listed plans.

The reference also simulates the model itself (hand inversion of the six transforms), which
(i) decides, without looking at the implementation, whether an order computes every value
before it is read ("read-before-write"; invalid pairs are excluded and counted), (ii) says
which output cells must be finite, and (iii) gives the expected path (unique for a valid
order, so comparing with it asserts nothing beyond the statement).

Oracles (check names): equation_holds (transform(lhs) = rhs + residual re-evaluated on the output in
every simulated period), exogenized_value (plan transform of the output variable = plan data),
residual_unchanged (cells that are not exogenized, including when_data=True cells without data),
exogenized_missing_not_nan (when_data=False without data must not be silently simulated),
nonfinite_output (NaN/inf where the reference is finite), reference_path, orders_agree,
simulate_exception / build_exception / output_missing_name / output_variants.
"""
import itertools
import math

import numpy as np

import irispie as ir

from mc import engine
from ref import expr as E

PROPERTY = "C17"
LEVEL = "exploration"
RULE = ("Part M: every generated model (LHS transform x identity x subset of RHS terms per equation) x "
        "{no plan, standard plan} x both execution orders; Part P: skeleton x exogenized variable x every "
        "non-empty subset of a 3-period window x plan transform x when_data x every data-presence subset x "
        "{zero, non-zero} input residual x both orders, and two variables exogenized on every pair of subsets; "
        "further dimensions: plan name format {default, '{}_tune', 'tune_{}'} (plan data read from the named series, "
        "stale data under the variable's own / default name) and input databox {clean, old calibration under the "
        "parameters' names as number / Series / per-variant list}; "
        "a case is distinct by (model text, plan incl. name format, presence, residual mode, prepend, stale-parameter "
        "item, order, variants) and "
        "non-trivial when the reference says the order computes every value before it is read and the "
        "implementation was executed and judged on the output")
MANIFEST_ENTRY = dict(
    level="exploration", design="DESIGN.md section 4 / C17",
    technique="exhaustive enumeration of generated sequential models x plans x orders; every equation re-evaluated "
              "on the output databox by an independent expression evaluator, plus an independent reference simulation "
              "with read-before-write analysis",
    text="Every 1- and 2-equation model over 6 LHS transforms (pseudofunction spelling) x identity x every subset of "
         "{own lag, earlier variable, later variable lagged, later variable current, parameter, exogenous} (quick: a "
         "listed 6 912-model sub-family; thorough: all 73 728 + 202 single-equation models incl. lag 2), a listed "
         "3-equation family (126 / 4 536) and a 432-model lead family are simulated under both execution orders with "
         "non-zero residuals, with and without a plan; 24 (quick) / 198 (thorough) skeleton models are simulated under "
         "every plan that exogenizes one variable on every subset of a 3-period window with each of the 6 plan "
         "transforms, when_data on/off, data present on every subset, zero and non-zero input residuals, 1 and 2 "
         "variants, and with both variables exogenized on every pair of subsets. Every plan shard also runs with the "
         "plan data in a differently named series (name_format '{}_tune' / 'tune_{}': all 6 plan transforms x when_data "
         "x listed (thorough: all) date subsets x every presence subset of the dates x residual mode), the variable's "
         "own series (level plans) and the default-named series (other transforms) holding different present values; "
         "every model with a parameter (quick 4 032 of the 2-equation family, all plan skeletons) also runs with an old "
         "calibration left in the input databox under the parameters' names (plain number, Series over the span, "
         "per-variant list for 2 variants; values differ from the assigned ones by >= 0.05) under the default "
         "parameters_from_data=False, where the equations must hold with the model's assigned parameters "
         "(quick 108 706 simulations, thorough ~2M). In every simulated period transform(lhs) = rhs + residual is re-evaluated on the output, "
         "exogenized variables must equal the implied value, other residuals must be unchanged, and the path must "
         "equal the reference simulation; order pairs that read a value before it is written are excluded by the "
         "reference's analysis and counted.",
    note="Trusted: ref/expr.py evaluator and the 40-line reference simulator in this module. Values come from small "
         "fixed tables (rotated by the seed); spans other than 4 periods, lags beyond 2, RHS pseudofunctions and the "
         "plan option shift= are not covered; parameters_from_data=True is not part of the statement and is only "
         "recorded (observed_parameters_from_data_true_*: single-equation models, number item). The defect found here (exogenized residual = 'needed - input "
         "residual') was repaired in /repo (f603713, DESIGN.md 9.3).")
ASSUMPTIONS = [
    "an order 'computes every value before it is read' iff every LHS variable read inside the span was written earlier "
    "in that order; pairs failing this are excluded (decided by the reference alone), not judged",
    "when_data=False with a missing data point means the variable is exogenized to NaN (asserted only at that cell; "
    "cells the reference says depend on a NaN are not judged)",
    "values outside the simulated span (initial and terminal conditions) are inputs and are read from the input databox",
    "a missing input residual means 0 (documented fallback)",
    "under the default parameters_from_data=False 'the equation' is the equation with the parameter values assigned in "
    "the model, whatever the input databox holds under a parameter's name",
    "with name_format given, the plan data of variable x are the series named name_format.format(x) and nothing else",
]

NAN = float("nan")
TR = ("none", "log", "diff", "diff_log", "roc", "pct")
LAGGED = ("diff", "diff_log", "roc", "pct")
VN = ("va", "vb", "vc")
EXO = "ww"
T = 4                      # simulated periods 0..3 ; table rows TMIN..T (T = terminal condition)
TMIN = -2                  # earliest initial condition
ROWS = T - TMIN + 1
WINDOW = (0, 1, 2)
START = ir.qq(2020, 1)
TOL = 1e-9
ORDERS = ("dates_equations", "equations_dates")

# ---- value tables (rotated by the seed; never select a subset) ----------------------------
C0 = {"none": 0.6, "log": 0.2, "diff": 0.15, "diff_log": 0.03, "roc": 0.9, "pct": 1.5}
SC = {"none": 0.3, "log": 0.1, "diff": 0.1, "diff_log": 0.01, "roc": 0.04, "pct": 0.5}
MULT = {"lag": 1.0, "lag2": -0.35, "e0": 0.7, "l1": -0.5, "l0": 0.6, "exo": 0.8, "ep": 0.4, "f0": 0.3}
ROT = (1.0, 0.9, 1.1, 0.8, 1.05)
INIT = (1.1, 1.4, 0.9, 1.25, 1.6)
WV = (0.5, 0.8, 0.3, 1.1, 0.65)
RES = (0.013, -0.021, 0.017, 0.029, -0.011)
NAME_FORMATS = ("{}_tune", "tune_{}")       # custom name formats of the series that holds the plan data
PARDB = ("number", "series")                # how an old calibration sits in the input databox under a parameter's name
STALE_PAR = (0.25, 0.05, 0.11)              # stale parameter = assigned + offset (+ slope * row) (+ step * variant)
PV = {"none": (1.3, 0.1), "log": (0.2, 0.05), "diff": (0.11, 0.02), "diff_log": (0.04, 0.01),
      "roc": (1.07, -0.02), "pct": (2.5, 0.5), "flat": (0.0, 0.0)}


def _rot(seed, i):
    return ROT[(seed + i) % len(ROT)]


# ---------------------------------------------------------------------------
# structured models
# ---------------------------------------------------------------------------

def lhs_tree(tr, name):
    v = ("var", name, 0)
    if tr == "none":
        return v
    if tr == "log":
        return ("fn", "log", v)
    if tr == "flat":                 # plan transform only: the variable stays where it was, x[t] - x[t-1] = 0
        return ("pf", "diff", v, None)
    return ("pf", tr, v, None)


def lhs_text(tr, name, spelling):
    if tr == "none":
        return name
    if tr == "log":
        return "log(%s)" % name
    fn = "difflog" if (tr == "diff_log" and spelling == "alias") else tr
    if spelling == "explicit":
        return "%s(%s, -1)" % (fn, name)
    return "%s(%s)" % (fn, name)


def invert(tr, value, xlag):
    """level of the variable from the value of its transform (hand-written inverse of the six transforms)"""
    try:
        if tr == "none":
            return value
        if tr == "log":
            return math.exp(value)
        if tr == "diff" or tr == "flat":
            return xlag + value
        if tr == "diff_log":
            return xlag * math.exp(value)
        if tr == "roc":
            return xlag * value
        if tr == "pct":
            return xlag * (1.0 + value / 100.0)
    except (OverflowError, ValueError):
        return NAN
    raise KeyError(tr)


def safe_ev(tree, get, t):
    try:
        return E.ev(tree, get, t)
    except (ValueError, OverflowError, ZeroDivisionError):
        return NAN


def plan_series(ptr, name, nf=None):
    """name of the databox series that holds the plan data: the documented default (x, log_x, diff_x, ...) unless
    the plan was given a name format, then the format with the variable's name filled in"""
    if nf:
        return nf.replace("{}", name)
    return name if ptr == "none" else "%s_%s" % (ptr, name)


def pardb_kinds(nv):
    return PARDB + (("list",) if nv == 2 else ())


class Model:
    """harness-side model: trees, text, reads; knows nothing about irispie"""

    def __init__(self, spec, seed):
        self.spec = spec
        eqs = spec["eqs"]
        n = len(eqs)
        self.n = n
        self.names = VN[:n]
        self.eqs = []
        self.par_names = []
        self.uses_exo = False
        self.max_lead = 0
        for i, e in enumerate(eqs):
            name = self.names[i]
            tr = e["tr"]
            rhs = ("num", round(C0[tr] * _rot(seed, i + 2), 6))
            for k in e["terms"]:
                if k == "par":
                    p = "k%d" % (i + 1)
                    self.par_names.append(p)
                    rhs = ("+", rhs, ("par", p))
                    continue
                if k == "lag":
                    leaf = ("var", name, -1)
                elif k == "lag2":
                    leaf = ("var", name, -2)
                elif k == "e0":
                    leaf = ("var", self.names[i - 1], 0)
                elif k == "l1":
                    leaf = ("var", self.names[i + 1], -1)
                elif k == "l0":
                    leaf = ("var", self.names[i + 1], 0)
                elif k == "ep":
                    leaf = ("var", self.names[i - 1], 1)
                    self.max_lead = 1
                elif k == "f0":
                    leaf = ("var", self.names[0], 0)
                elif k == "exo":
                    leaf = ("var", EXO, 0)
                    self.uses_exo = True
                else:
                    raise KeyError(k)
                coef = round(SC[tr] * MULT[k] * _rot(seed, i), 6)
                rhs = ("+", rhs, ("*", ("num", coef), leaf))
            reads = set(E.occurrences(rhs))
            if tr in LAGGED:
                reads.add((name, -1))
            self.eqs.append(dict(name=name, tr=tr, ident=bool(e["id"]), has_par=("par" in e["terms"]), lhs=E.expand_pf(lhs_tree(tr, name)),
                                 rhs=rhs, res=None if e["id"] else "res_" + name, reads=sorted(reads),
                                 text="%s %s %s" % (lhs_text(tr, name, spec.get("spelling", "default")),
                                                    "===" if e["id"] else "=", E.render(rhs))))
        self._valid = {}

    def source(self, reverse=False):
        """reverse=True writes the equations in reversed order (the meaning is the same; the model then has to be
        put into sequential order by Sequential.sequentialize before it is simulated)"""
        out = []
        if self.par_names:
            out += ["!parameters", "    " + ", ".join(self.par_names)]
        eqs = list(reversed(self.eqs)) if reverse else self.eqs
        out += ["!equations"] + ["    %s;" % e["text"] for e in eqs]
        return "\n".join(out) + "\n"

    def key(self):
        return "|".join(e["text"] for e in self.eqs)

    def sequence(self, order):
        if order == "dates_equations":
            return [(t, i) for t in range(T) for i in range(self.n)]
        return [(t, i) for i in range(self.n) for t in range(T)]

    def valid(self, order):
        """read-before-write analysis: every LHS variable read inside the span was written earlier in this order"""
        if order not in self._valid:
            written = set()
            ok = True
            for t, i in self.sequence(order):
                for nm, sh in self.eqs[i]["reads"]:
                    if nm in self.names and 0 <= t + sh < T and (nm, t + sh) not in written:
                        ok = False
                written.add((self.names[i], t))
            self._valid[order] = ok
        return self._valid[order]

    def param_values(self, seed, v):
        out = {}
        for i, e in enumerate(self.eqs):
            p = "k%d" % (i + 1)
            if p in self.par_names:
                out[p] = round(SC[e["tr"]] * 0.9 * _rot(seed, i + 1) * (1.3 if v else 1.0), 6)
        return out


# ---------------------------------------------------------------------------
# inputs
# ---------------------------------------------------------------------------

def plan_cells(M, plan):
    """{(eq index, t): (plan transform, when_data, name format or None)}"""
    cells = {}
    if plan:
        for j, dates, ptr, wd in plan["entries"]:
            for t in dates:
                cells[(j, t)] = (ptr, bool(wd), plan.get("nf"))
    return cells


def make_inputs(M, plan, resmode, nv, seed):
    """per-variant input tables {(name, t): value}; a missing key / NaN means 'not in the databox'"""
    present = None
    if plan and plan.get("present") is not None:
        present = set(plan["present"])
    tabs = []
    for v in range(nv):
        tab = {}
        for j, name in enumerate(M.names):
            tab[(name, -1)] = INIT[(j + seed) % len(INIT)] * (1.2 if v else 1.0)
            tab[(name, -2)] = INIT[(j + seed + 2) % len(INIT)] * (0.9 if v else 1.05)
            for t in range(T + 1):
                tab[(name, t)] = 1.3 + 0.17 * t + 0.11 * j + 0.07 * v        # stale data inside the span
        if M.uses_exo:
            for t in range(T):
                tab[(EXO, t)] = WV[(t + seed) % len(WV)] + (0.2 if v else 0.0)
        for j, e in enumerate(M.eqs):
            if e["res"] is None:
                continue
            for t in range(T):
                tab[(e["res"], t)] = RES[(t + 2 * j + seed) % len(RES)] * (-1.5 if v else 1.0)
            if j == 0:
                tab[(e["res"], T - 1)] = NAN             # missing residual observation -> documented fallback 0
        if plan:
            for j, dates, ptr, wd in plan["entries"]:
                name = M.names[j]
                nf = plan.get("nf")
                sname = plan_series(ptr, name, nf)
                a, b = PV[ptr]
                if nf and ptr != "none":
                    # the plan data live in a differently named series: the default-named series is a decoy that
                    # holds different, present values (for the level transform the decoy is the variable's own
                    # stale data inside the span, written above)
                    for t in WINDOW:
                        tab[(plan_series(ptr, name), t)] = (a + b * t + 0.05 * j) * 1.07 + 0.21
                for t in WINDOW:
                    ok = present is None or t in present
                    tab[(sname, t)] = ((a + b * t + 0.05 * j) * (1.1 if v else 1.0)) if ok else NAN
                    if ptr == "flat":
                        # the flat transform reads no series: the harness-side entry is the implied change, zero
                        tab[(sname, t)] = 0.0
        if resmode == "zero":            # zero input residual at the exogenized variables inside the window
            for j, dates, ptr, wd in plan["entries"]:
                r = M.eqs[j]["res"]
                tab[(r, 0)] = 0.0
                tab[(r, 1)] = 0.0
                tab[(r, 2)] = NAN        # missing -> 0
        elif resmode == "std":           # standard plan of part M: zero at t=1, non-zero elsewhere
            for e in M.eqs:
                if e["res"]:
                    tab[(e["res"], 1)] = 0.0
        tabs.append(tab)
    return tabs


def to_databox(tabs):
    names = sorted({k[0] for k in tabs[0]})
    db = ir.Databox()
    for name in names:
        arr = np.full((ROWS, len(tabs)), NAN)
        for v, tab in enumerate(tabs):
            for t in range(TMIN, T + 1):
                arr[t - TMIN, v] = tab.get((name, t), NAN)
        if np.isnan(arr).all():
            continue
        db[name] = ir.Series(start=START + TMIN, values=arr)
    return db


def stale_parameters(M, kind, nv, seed):
    """an old calibration left in the input databox under the parameters' names: {name: databox item}; every value
    differs from the value assigned in the model (variant by variant) by at least 0.05.  The reference never sees
    these items: under the default options the model's assigned parameters are the ones that count."""
    off, slope, step = STALE_PAR
    pars = [M.param_values(seed, v) for v in range(nv)]
    items = {}
    for name in M.par_names:
        if kind == "number":
            vals = [[pars[0][name] + off for v in range(nv)]]
            items[name] = vals[0][0]
        elif kind == "list":
            vals = [[pars[v][name] + off + step * v for v in range(nv)]]
            items[name] = list(vals[0])
        elif kind == "series":
            vals = [[pars[v][name] + off + slope * (t - TMIN) + step * v for v in range(nv)] for t in range(TMIN, T + 1)]
            items[name] = ir.Series(start=START + TMIN, values=np.array(vals, dtype=float))
        else:
            raise KeyError(kind)
        if any(abs(row[v] - pars[v][name]) < 0.05 for row in vals for v in range(nv)):
            raise RuntimeError("stale parameter too close to the assigned value: %s %r" % (name, vals))
    return items


def grab(series, nv):
    """rows TMIN..T of an irispie Series as a (ROWS, nv) array, NaN where the series has no data"""
    arr = np.full((ROWS, nv), NAN)
    if series.start is None:
        return arr, True
    d = np.asarray(series.data, dtype=float)
    if d.ndim == 1:
        d = d.reshape(-1, 1)
    ok = d.shape[1] == nv
    off = series.start - (START + TMIN)
    for r in range(d.shape[0]):
        tt = off + r
        if 0 <= tt < ROWS:
            arr[tt, :] = d[r, :nv] if d.shape[1] >= nv else d[r, 0]
    return arr, ok


# ---------------------------------------------------------------------------
# reference simulation
# ---------------------------------------------------------------------------

def ref_simulate(M, order, cells, tab_in, par):
    tab = dict(tab_in)

    def get(nm, tt):
        return par[nm] if tt is None else tab.get((nm, tt), NAN)
    kinds = {}
    for t, i in M.sequence(order):
        eq = M.eqs[i]
        x = eq["name"]
        rin = 0.0
        if eq["res"]:
            rin = tab.get((eq["res"], t), NAN)
            if rin != rin:
                rin = 0.0                        # documented fallback for missing residuals
            tab[(eq["res"], t)] = rin
        rhs = safe_ev(eq["rhs"], get, t)
        xlag = tab.get((x, t - 1), NAN)
        kind = "simulated"
        pt = cells.get((i, t))
        if pt is not None and not eq["ident"]:
            ptr, wd, nf = pt
            dv = tab.get((plan_series(ptr, x, nf), t), NAN)
            if dv != dv:
                kind = "skipped_when_data" if wd else "exogenized_missing"
            else:
                kind = "exogenized"
        if kind == "exogenized":
            tab[(x, t)] = invert(ptr, dv, xlag)
            tab[(eq["res"], t)] = safe_ev(eq["lhs"], get, t) - rhs
        elif kind == "exogenized_missing":
            tab[(x, t)] = NAN
            tab[(eq["res"], t)] = NAN
        else:
            tab[(x, t)] = invert(eq["tr"], rhs + rin, xlag)
        kinds[(i, t)] = kind
    return tab, kinds


def in_range(M, ref_tab, zero_cell=None):
    for (nm, t), v in ref_tab.items():
        if (nm, t) == zero_cell and v == 0.0:
            continue                # the one cell deliberately exogenized to a level of exactly zero
        if v == v and (abs(v) > 1e4 or (nm in M.names and 0 <= t < T and abs(v) < 1e-4)):
            return False
    return True


ZERO_PLAN_DATA = {"none": 0.0, "roc": 0.0, "pct": -100.0}       # plan data that imply a level of exactly 0.0
ZERO_LHS = ("none", "diff")         # left-hand transforms that are defined at, and after, a zero level
ZERO_PTR = ("none", "diff", "roc", "pct")


def set_zero_level_data(M, case, cells, tabs, seed):
    """case["zero_at"]: the plan data of the (single) exogenized variable at that date are replaced by the value
    whose implied LEVEL is exactly 0.0 (level 0; diff = -x[t-1]; roc 0; pct -100)"""
    j, dates, ptr, wd = case["plan"]["entries"][0]
    nf = case["plan"].get("nf")
    x = M.names[j]
    t0 = case["zero_at"]
    for v, tab in enumerate(tabs):
        if ptr == "diff":
            order0 = [o for o in ORDERS if M.valid(o)][0]
            r0, _ = ref_simulate(M, order0, cells, tab, M.param_values(seed, v))
            tab[(plan_series(ptr, x, nf), t0)] = -r0[(x, t0 - 1)]
        else:
            tab[(plan_series(ptr, x, nf), t0)] = ZERO_PLAN_DATA[ptr]
    return (x, t0)


# ---------------------------------------------------------------------------
# one case = one (model, plan, presence, residual mode, variants, options) under both orders
# ---------------------------------------------------------------------------

def build_irispie_model(M, nv, seed, reverse=False):
    m = ir.Sequential.from_string(M.source(reverse=reverse))
    if reverse:
        m.sequentialize()
    p0 = M.param_values(seed, 0)
    if p0:
        m.assign(**p0)
    if nv == 2:
        m.alter_num_variants(2)
        p1 = M.param_values(seed, 1)
        if p1:
            m[1].assign(**p1)
    return m


def build_plan(m, M, plan, span):
    p = ir.SimulationPlan(m, span)
    kw = {"name_format": plan["nf"]} if plan.get("nf") else {}
    ents = plan["entries"]
    if plan.get("joint") and len(ents) >= 2 and all(e[1:] == ents[0][1:] for e in ents):
        # ONE exogenize call naming all the variables (same dates, transform, when_data)
        j0, dates, ptr, wd = ents[0]
        names = [M.names[e[0]] for e in ents]
        p.exogenize(tuple(START + t for t in dates), names if plan["joint"] == "list" else tuple(names),
                    transform=(None if ptr == "none" else ptr), when_data=bool(wd), **kw)
        return p
    for j, dates, ptr, wd in ents:
        p.exogenize(tuple(START + t for t in dates), M.names[j],
                    transform=(None if ptr == "none" else ptr), when_data=bool(wd), **kw)
    return p


def observe_parameters_from_data(M, m, case, db, span, order, tabs, cells, nv, kw, res, seed):
    """NOT part of the statement, recorded only: what parameters_from_data=True does with the stale calibration
    (number kind: one value for every variant and period, so the reference can be re-run with it)"""
    try:
        out = m.simulate(db, span, execution_order=order, when_simulates_nan="silent", parameters_from_data=True, **kw)
    except Exception as e:
        res.count("observed_parameters_from_data_true_raises_%s" % type(e).__name__)
        return
    stale = stale_parameters(M, "number", nv, seed)
    follows = True
    for v in range(nv):
        ref_tab, _ = ref_simulate(M, order, cells, tabs[v], stale)
        for name in M.names:
            if name not in out:
                follows = False
                continue
            arr, _ok = grab(out[name], nv)
            for t in range(T):
                a, b = float(arr[t - TMIN, v]), ref_tab[(name, t)]
                if b == b and not abs(a - b) <= 1e-9 * (1.0 + abs(b)):
                    follows = False
    res.count("observed_parameters_from_data_true_" + ("uses_the_databox_values" if follows else "other"))


def run_case(M, m, case, res, ctx_seed):
    """case: dict(model=spec, plan=None|{entries, present[, nf]}, resmode, nv, prepend, orders[, pardb, zero_at, reverse])"""
    plan, resmode, nv, prepend = case["plan"], case["resmode"], case["nv"], case["prepend"]
    pardb = case.get("pardb") if M.par_names else None
    cells = plan_cells(M, plan)
    tabs = make_inputs(M, plan, resmode, nv, ctx_seed)
    zero_cell = None
    if case.get("zero_at") is not None:
        zero_cell = set_zero_level_data(M, case, cells, tabs, ctx_seed)
    span = START >> (START + T - 1)
    db = None
    outs = {}
    ckey = "%s#%r#%s#%d#%d#%s#%r#%r#%r" % (M.key(), None if not plan else (plan["entries"], plan.get("present"), plan.get("nf"), plan.get("joint")), resmode, nv, prepend,
                                              "reversed" if case.get("reverse") else "", case.get("zero_at"), pardb, case.get("target"))
    seen = res.__dict__.setdefault("_c17_seen", set())

    def cls_once(name, value):
        k = (name, repr(value))
        if k not in seen:
            seen.add(k)
            res.cls(name, value)
    plan_obj = None
    observed = set()
    for order in case.get("orders", ORDERS):
        if not M.valid(order):
            res.exclude("order_reads_before_write")
            continue
        pars = [M.param_values(ctx_seed, v) for v in range(nv)]
        refs = [ref_simulate(M, order, cells, tabs[v], pars[v]) for v in range(nv)]
        if not all(in_range(M, r[0], zero_cell) for r in refs):
            res.exclude("reference_out_of_range")
            continue
        if zero_cell is not None and not all(r[0][zero_cell] == 0.0 and r[1][(M.names.index(zero_cell[0]), zero_cell[1])] == "exogenized" for r in refs):
            res.exclude("zero_level_not_exact")
            continue
        if db is None:
            db = to_databox(tabs)
            if pardb:
                for pname, item in stale_parameters(M, pardb, nv, ctx_seed).items():
                    db[pname] = item
        res.ev()

        def bad(check, detail="", **sig):
            # order / variants / when_data stay out of the signature: the engine keeps 3 cases per distinct
            # signature and 400 in total, and the known finding must not be able to crowd out anything else
            sig.pop("when_data", None)
            res.violation(check, sig, dict(case, order=order, orders=[order], seed=ctx_seed),
                          "[%s, %d variant(s)] %s" % (order, nv, detail))
        try:
            kw = {}
            if plan:
                if plan_obj is None:
                    plan_obj = build_plan(m, M, plan, span)
                kw["plan"] = plan_obj
            if not prepend:
                kw["prepend_input"] = False
            if case.get("target") == "input":
                kw["target_db"] = db
                res.count("runs_returned_through_target_db")
            out = m.simulate(db, span, execution_order=order, when_simulates_nan="silent", **kw)
        except Exception as e:          # every case of the space is a defined simulation
            bad("simulate_exception", "%s: %s" % (type(e).__name__, str(e)[:300]), error=type(e).__name__)
            continue
        # ---- output tables -------------------------------------------------------------
        arrays = {}
        shape_ok = True
        for name in list(M.names) + [e["res"] for e in M.eqs if e["res"]] + ([EXO] if M.uses_exo else []):
            if name not in out:
                bad("output_missing_name", name, name_kind=("residual" if name.startswith("res_") else "variable"))
                arrays[name] = np.full((ROWS, nv), NAN)
                continue
            arrays[name], ok = grab(out[name], nv)
            shape_ok = shape_ok and ok
        if not shape_ok:
            bad("output_variants", "a series in the output does not have %d variant column(s)" % nv)
        judged_all = True
        for v in range(nv):
            ref_tab, kinds = refs[v]
            in_tab = tabs[v]
            out_tab = dict(in_tab)                  # outside the span: inputs (initial / terminal conditions)
            for name, arr in arrays.items():
                for t in range(T):
                    out_tab[(name, t)] = float(arr[t - TMIN, v])
            par = pars[v]

            def get(nm, tt):
                return par[nm] if tt is None else out_tab.get((nm, tt), NAN)
            any_missing = any(k == "exogenized_missing" for k in kinds.values())
            for t in range(T):
                for i, eq in enumerate(M.eqs):
                    kind = kinds[(i, t)]
                    x = eq["name"]
                    tr = eq["tr"]
                    pt = cells.get((i, t))
                    rin = NAN
                    if eq["res"]:
                        rin = in_tab.get((eq["res"], t), NAN)
                        rin = 0.0 if rin != rin else rin
                    sig = dict(lhs_transform=tr, identity=eq["ident"], cell=kind,
                               input_residual=("none" if eq["ident"] else ("zero" if rin == 0.0 else "nonzero")),
                               plan_transform=(pt[0] if pt else "-"), when_data=(pt[1] if pt else "-"))
                    custom = bool(pt and pt[2]) and not eq["ident"]
                    if custom:
                        sig["plan_name_format"] = pt[2]
                    if pardb:
                        sig["stale_parameters_in_databox"] = pardb
                    if kind == "exogenized_missing":
                        res.count("cells_exogenized_missing")
                        if custom:
                            res.count("cells_exogenized_missing_custom_name")
                        if out_tab[(x, t)] == out_tab[(x, t)]:
                            bad("exogenized_missing_not_nan", "%s[%d]=%r although when_data=False and the data point "
                                "is missing" % (x, t, out_tab[(x, t)]), **sig)
                        continue
                    leaves = [(nm, t + sh) for nm, sh in eq["reads"]] + [(x, t)]
                    if eq["res"]:
                        leaves.append((eq["res"], t))
                    if any(ref_tab.get(l, NAN) != ref_tab.get(l, NAN) for l in leaves):
                        if not any_missing:
                            raise RuntimeError("reference produced NaN without a missing exogenized point: %r" % (case,))
                        res.count("cells_downstream_of_nan_not_judged")
                        judged_all = False
                        continue
                    vals = [out_tab.get(l, NAN) for l in leaves]
                    if any((q != q) or q in (float("inf"), float("-inf")) for q in vals):
                        bad("nonfinite_output", "cell %s[%d]: values %r where the reference is finite" % (x, t, vals), **sig)
                        continue
                    lhs = safe_ev(eq["lhs"], get, t)
                    rhs = safe_ev(eq["rhs"], get, t)
                    r = out_tab[(eq["res"], t)] if eq["res"] else 0.0
                    scale = 1.0 + max(abs(q) for q in vals) + abs(lhs) + abs(rhs) + (100.0 if tr == "pct" else 0.0)
                    res.count("cells_" + kind + ("" if kind != "exogenized" else "_%s_input_residual" % sig["input_residual"]))
                    if custom:
                        res.count("cells_%s_custom_name" % kind)
                        if kind == "exogenized" and pt[0] == "none":
                            res.count("cells_exogenized_custom_name_level_transform")      # own series holds stale data
                        cls_once("custom_name_lhs_x_plan_transform", [tr, pt[0], pt[1], kind])
                    if pardb and eq["has_par"]:
                        res.count("cells_parameter_equation_stale_%s_in_databox" % pardb)
                    if not (abs(lhs - rhs - r) <= TOL * scale):
                        bad("equation_holds", "%s at t=%d (variant %d): transform(lhs)=%r rhs=%r residual=%r gap=%r"
                            % (eq["text"], t, v, lhs, rhs, r, lhs - rhs - r), **sig)
                    if kind == "exogenized":
                        ptr = pt[0]
                        if (x, t) == zero_cell:
                            res.count("cells_exogenized_to_exact_zero")
                            sig["implied_level"] = "exactly zero"
                        dv = in_tab[(plan_series(ptr, x, pt[2]), t)]
                        got = safe_ev(E.expand_pf(lhs_tree(ptr, x)), get, t)
                        pscale = 1.0 + abs(dv) + abs(out_tab[(x, t)]) + (100.0 if ptr == "pct" else 0.0)
                        if not (abs(got - dv) <= TOL * pscale):
                            bad("exogenized_value", "%s(%s)[%d] = %r on the output, plan data %r" % (ptr, x, t, got, dv), **sig)
                    elif eq["res"] and not (r == rin):
                        bad("residual_unchanged", "%s[%d] = %r on the output, %r on the input" % (eq["res"], t, r, rin), **sig)
                    if not (abs(out_tab[(x, t)] - ref_tab[(x, t)]) <= TOL * scale):
                        bad("reference_path", "%s[%d] = %r, reference simulation %r" % (x, t, out_tab[(x, t)], ref_tab[(x, t)]), **sig)
            cls_once("cell_pattern", sorted(set(kinds.values())))
        outs[order] = arrays
        res.nt(engine.short_hash(ckey + order))
        if judged_all:
            res.count("cases_fully_judged")
        for (i, t), (ptr, wd, nf) in cells.items():
            cls_once("lhs_x_plan_transform", [M.eqs[i]["tr"], ptr, wd])
        if pardb:
            res.count("cases_stale_parameters_%s" % pardb)
            if case.get("observe_pfd") and pardb == "number" and order not in observed:
                observed.add(order)
                observe_parameters_from_data(M, m, case, db, span, order, tabs, cells, nv, kw, res, ctx_seed)
    cls_once("order_validity", [M.valid(o) for o in ORDERS])
    if len(outs) == 2:
        res.count("pairs_both_orders_compared")
        for name in outs[ORDERS[0]]:
            a, b = outs[ORDERS[0]][name][-TMIN:T - TMIN], outs[ORDERS[1]][name][-TMIN:T - TMIN]
            same = np.isclose(a, b, rtol=TOL, atol=TOL, equal_nan=True)
            if not same.all():
                res.violation("orders_agree", dict(name_kind=("residual" if name.startswith("res_") else "variable")),
                              dict(case, seed=ctx_seed), "%s differs between the execution orders: %r vs %r" % (name, a.tolist(), b.tolist()))


def run_model_cases(spec, cases, res, seed):
    """build the model once, run the listed cases"""
    M = Model(spec, seed)
    built = {}
    for c in cases:
        nv = c["nv"]
        if not any(M.valid(o) for o in c.get("orders", ORDERS)):
            for o in c.get("orders", ORDERS):
                res.exclude("order_reads_before_write")
            continue
        bkey = (nv, bool(c.get("reverse")))
        if c.get("reverse"):
            # written backwards, then sequentialized: only meaningful where a sequential order exists
            if not M.valid("dates_equations") or M.n < 2:
                continue
            if bkey not in built:
                try:
                    built[bkey] = build_irispie_model(M, nv, seed, reverse=True)
                    res.count("models_built_reversed_then_sequentialized")
                except Exception as e:
                    res.violation("build_exception", dict(error=type(e).__name__, reverse=True, lhs_transforms=[e_["tr"] for e_ in spec["eqs"]]),
                                  dict(c, model=spec, seed=seed), "%s: %s\n%s" % (type(e).__name__, str(e)[:300], M.source(reverse=True)))
                    built[bkey] = None
            if built[bkey] is not None:
                run_case(M, built[bkey], dict(c, model=spec), res, seed)
            continue
        if nv not in built:
            try:
                built[nv] = build_irispie_model(M, nv, seed)
                res.count("models_built")
                seq = bool(built[nv].is_sequential)
                if seq != M.valid("dates_equations"):
                    res.count("observed_is_sequential_differs_from_reference")
            except Exception as e:
                res.violation("build_exception", dict(error=type(e).__name__, lhs_transforms=[e_["tr"] for e_ in spec["eqs"]]),
                              dict(c, model=spec, seed=seed), "%s: %s\n%s" % (type(e).__name__, str(e)[:300], M.source()))
                built[nv] = None
        if built[nv] is None:
            continue
        run_case(M, built[nv], dict(c, model=spec), res, seed)
    return M


# ---------------------------------------------------------------------------
# the spaces
# ---------------------------------------------------------------------------

def subsets(items):
    out = []
    for k in range(len(items) + 1):
        out += [list(c) for c in itertools.combinations(items, k)]
    return out


TERMS1 = ("lag", "lag2", "par", "exo")               # single equation
TERMS2_FIRST = ("lag", "l1", "l0", "par", "exo")     # first of two
TERMS2_SECOND = ("lag", "e0", "par", "exo")          # second of two
LISTED_FIRST = [[], ["lag"], ["l1"], ["l0"], ["par"], ["exo"], ["lag", "l1", "par", "exo"], ["lag", "l1", "l0", "par", "exo"]]
LISTED_SECOND = [[], ["lag"], ["e0"], ["par"], ["exo"], ["lag", "e0", "par", "exo"]]


def eq_specs(term_sets):
    return [dict(tr=tr, id=ident, terms=ts) for tr in TR for ident in (False, True) for ts in term_sets]


def first_specs(full):
    return eq_specs(subsets(TERMS2_FIRST) if full else LISTED_FIRST)


def second_specs(full):
    return eq_specs(subsets(TERMS2_SECOND) if full else LISTED_SECOND)


STD_PLAN_DATES = [1, 2]


def std_plan(spec):
    entries = [[j, STD_PLAN_DATES, "none", False] for j, e in enumerate(spec["eqs"]) if not e["id"]]
    return dict(entries=entries, present=None) if entries else None


def has_parameters(spec):
    return any("par" in e["terms"] for e in spec["eqs"])


def model_cases(spec, nvs=(1,), pardb_product=True):
    """pardb_product=False (quick tier, the large listed 2-equation family): number item with no plan, Series item
    with the standard plan, instead of {no plan, standard plan} x every kind of item"""
    cases = []
    for nv in nvs:
        cases.append(dict(plan=None, resmode="nonzero", nv=nv, prepend=True))
        sp = std_plan(spec)
        if sp:
            cases.append(dict(plan=sp, resmode="std", nv=nv, prepend=(nv == 2), target="input"))
        if has_parameters(spec):
            # the same inputs with an old calibration left in the databox under the parameters' names
            for kind in pardb_kinds(nv):
                if pardb_product or kind != "series" or not sp:
                    cases.append(dict(plan=None, resmode="nonzero", nv=nv, prepend=True, pardb=kind,
                                      observe_pfd=(kind == "number" and len(spec["eqs"]) == 1)))
                if sp and (pardb_product or kind != "number"):
                    cases.append(dict(plan=sp, resmode="std", nv=nv, prepend=(nv == 2), pardb=kind))
    # the same model written backwards and put in order by sequentialize(), simulated without and with the plan
    if len(spec["eqs"]) >= 2:
        cases.append(dict(plan=None, resmode="nonzero", nv=1, prepend=True, reverse=True))
        sp = std_plan(spec)
        if sp:
            cases.append(dict(plan=sp, resmode="std", nv=1, prepend=False, reverse=True))
    return cases


THREE_PATTERNS = [
    [["lag", "l1", "par", "exo"], ["lag", "e0", "l1", "par", "exo"], ["lag", "e0", "par", "exo"]],
    [["exo"], ["e0"], ["e0"]],
    [["l1"], ["l1"], ["lag"]],
    [["lag"], ["lag", "l0"], ["e0"]],
    [["lag", "exo"], ["ep", "lag"], ["ep", "e0"]],
    [["lag"], ["par"], ["f0", "lag"]],
    [["lag", "lag2"], ["e0", "lag2"], ["e0", "lag"]],
]
THREE_IDENT = [(False, False, False), (False, False, True), (False, True, False)]
LEAD_SECOND = [["ep"], ["ep", "lag"], ["ep", "e0"]]


def three_specs(quick):
    out = []
    if quick:
        combos = [(TR[i], TR[(i + 1) % 6], TR[(i + 3) % 6]) for i in range(6)]
    else:
        combos = list(itertools.product(TR, repeat=3))
    for trs in combos:
        for idents in THREE_IDENT:
            for pat in THREE_PATTERNS:
                out.append(dict(eqs=[dict(tr=trs[i], id=idents[i], terms=pat[i]) for i in range(3)]))
    return out


def lead_specs():
    out = []
    for tr0 in TR:
        for t0 in (["lag"], ["exo"]):
            for tr1 in TR:
                for id1 in (False, True):
                    for t1 in LEAD_SECOND:
                        out.append(dict(eqs=[dict(tr=tr0, id=False, terms=t0), dict(tr=tr1, id=id1, terms=t1)]))
    return out


def single_specs():
    out = [dict(eqs=[e]) for e in eq_specs(subsets(TERMS1))]
    for sp in ("explicit", "alias"):
        for tr in (LAGGED if sp == "explicit" else ("diff_log",)):
            for ident in (False, True):
                out.append(dict(eqs=[dict(tr=tr, id=ident, terms=["lag", "par", "exo"])], spelling=sp))
    return out


# ---- part P skeletons ---------------------------------------------------------------------

def skeletons(quick):
    """(context name, spec, index of the exogenized variable)"""
    out = []
    for tx in TR:
        out.append(("A", dict(eqs=[dict(tr=tx, id=False, terms=["lag", "par", "exo"])]), 0))
        out.append(("A2", dict(eqs=[dict(tr=tx, id=False, terms=["lag", "lag2", "par", "exo"])]), 0))
    for ix, tx in enumerate(TR):
        tys = [TR[(ix + 2) % 6]] if quick else TR
        for ty in tys:
            # x first, feedback from y lagged (only dates_equations is valid)
            out.append(("B1", dict(eqs=[dict(tr=tx, id=False, terms=["lag", "l1", "par", "exo"]),
                                        dict(tr=ty, id=False, terms=["lag", "e0", "par"])]), 0))
            # x first, no feedback (both orders valid); in the quick tier this skeleton is exercised by the
            # two-variable plans (skeletons_two) only
            if not quick:
                out.append(("B2", dict(eqs=[dict(tr=tx, id=False, terms=["lag", "par", "exo"]),
                                            dict(tr=ty, id=False, terms=["lag", "e0"])]), 0))
            # x second, reads y at 0 (both orders valid)
            out.append(("C", dict(eqs=[dict(tr=ty, id=False, terms=["lag", "exo"]),
                                       dict(tr=tx, id=False, terms=["lag", "e0", "par"])]), 1))
            if not quick:
                # x second, y reads x lagged (only dates_equations is valid)
                out.append(("C2", dict(eqs=[dict(tr=ty, id=False, terms=["lag", "l1", "exo"]),
                                            dict(tr=tx, id=False, terms=["lag", "e0", "par"])]), 1))
                # an identity reads the exogenized variable
                out.append(("BI", dict(eqs=[dict(tr=tx, id=False, terms=["lag", "par", "exo"]),
                                            dict(tr=ty, id=True, terms=["lag", "e0"])]), 0))
        if not quick:
            ty, tz = TR[(ix + 1) % 6], TR[(ix + 4) % 6]
            out.append(("D", dict(eqs=[dict(tr=ty, id=False, terms=["lag", "l1", "exo"]),
                                       dict(tr=tx, id=False, terms=["lag", "e0", "l1", "par"]),
                                       dict(tr=tz, id=True, terms=["e0", "f0"])]), 1))
    return out


WINDOW_SUBSETS = [s for s in subsets(list(WINDOW)) if s]
PRESENT_SUBSETS = subsets(list(WINDOW))
NF_DATES_QUICK = [[1], [0, 2], [0, 1, 2]]
PARDB_DATES_QUICK = [[0], [1, 2], [0, 1, 2]]
TWO_EXTRA_DATES = [([0, 1], [1, 2]), ([2], [0, 1, 2]), ([0, 1, 2], [1])]


def plan_cases(j, ptr, wd, nv, prepend, quick, lhs_tr=None):
    """quick: data presence on every subset OF THE EXOGENIZED DATES (presence elsewhere in the window cannot
    matter unless the implementation reads the wrong date); thorough: every subset of the whole window"""
    out = []
    for dates in WINDOW_SUBSETS:
        for present in PRESENT_SUBSETS:
            if quick and not set(present) <= set(dates):
                continue
            for resmode in ("zero", "nonzero"):
                out.append(dict(plan=dict(entries=[[j, dates, ptr, wd]], present=present), resmode=resmode, nv=nv, prepend=prepend))
    if lhs_tr in ZERO_LHS and ptr in ZERO_PTR:
        # the same plans with the last exogenized date carrying data whose implied level is exactly 0.0
        for dates in WINDOW_SUBSETS:
            for resmode in ("zero", "nonzero"):
                out.append(dict(plan=dict(entries=[[j, dates, ptr, wd]], present=None), resmode=resmode, nv=nv,
                                prepend=prepend, zero_at=max(dates)))
    # ---- plan data held in a differently named series (name_format=...) -------------------------------
    # every presence subset of the exogenized dates x residual mode; first format: quick a listed set of date subsets,
    # thorough every date subset; second format: quick the whole window (one or all data points present, non-zero input residual), thorough
    # the listed date subsets.  The variable's own series (level plans) and the default-named series (other plan
    # transforms) hold different, present values at every date of the window.
    for k, nf in enumerate(NAME_FORMATS):
        if quick:
            date_sets = NF_DATES_QUICK if k == 0 else [list(WINDOW)]
        else:
            date_sets = WINDOW_SUBSETS if k == 0 else NF_DATES_QUICK
        for dates in date_sets:
            for present in PRESENT_SUBSETS:
                if not set(present) <= set(dates):
                    continue
                if quick and k > 0 and len(present) not in (1, len(dates)):
                    continue
                for resmode in (("nonzero",) if (quick and k > 0) else ("zero", "nonzero")):
                    out.append(dict(plan=dict(entries=[[j, dates, ptr, wd]], present=present, nf=nf), resmode=resmode,
                                    nv=nv, prepend=prepend))
        if lhs_tr in ZERO_LHS and ptr in ZERO_PTR:
            out.append(dict(plan=dict(entries=[[j, list(WINDOW), ptr, wd]], present=None, nf=nf), resmode="nonzero",
                            nv=nv, prepend=prepend, zero_at=WINDOW[-1]))
    # ---- an old calibration left in the input databox (every skeleton has a parameter) ----------------
    for kind in pardb_kinds(nv):
        for dates in (PARDB_DATES_QUICK if quick else WINDOW_SUBSETS):
            for resmode in ("zero", "nonzero"):
                out.append(dict(plan=dict(entries=[[j, dates, ptr, wd]], present=None), resmode=resmode, nv=nv,
                                prepend=prepend, pardb=kind))
        # ... together with a custom name format and a missing data point
        out.append(dict(plan=dict(entries=[[j, list(WINDOW), ptr, wd]], present=[0, 2], nf=NAME_FORMATS[0]), resmode="nonzero",
                        nv=nv, prepend=prepend, pardb=kind))
    return out


def plan_cases_flat(j, nv, prepend):
    """plans that consist of 'flat' points only (the variable keeps its previous value; no plan data are read)"""
    return [dict(plan=dict(entries=[[j, dates, "flat", False]], present=None), resmode=resmode, nv=nv, prepend=prepend)
            for dates in WINDOW_SUBSETS for resmode in ("zero", "nonzero")]


def plan_cases_two(ptr, wd, nv, prepend):
    """both variables of a 2-equation skeleton exogenized, each on every non-empty subset of the window"""
    out = []
    for d0 in WINDOW_SUBSETS:
        for d1 in WINDOW_SUBSETS:
            for resmode in ("zero", "nonzero"):
                out.append(dict(plan=dict(entries=[[0, d0, ptr, wd], [1, d1, ptr, wd]], present=None),
                                resmode=resmode, nv=nv, prepend=prepend))
    # both variables on the same dates through ONE exogenize call (names as a list / as a tuple), and the same runs
    # returned through target_db = the input databox (which holds items under every name the simulation writes)
    for d0 in WINDOW_SUBSETS:
        for resmode in ("zero", "nonzero"):
            for joint in ("list", "tuple"):
                out.append(dict(plan=dict(entries=[[0, d0, ptr, wd], [1, d0, ptr, wd]], present=None, joint=joint),
                                resmode=resmode, nv=nv, prepend=prepend, target=("input" if joint == "tuple" else None)))
    # a listed set of pairs again with the plan data in differently named series / with an old calibration in the databox
    for d0, d1 in TWO_EXTRA_DATES:
        for resmode in ("zero", "nonzero"):
            for nf in NAME_FORMATS:
                out.append(dict(plan=dict(entries=[[0, d0, ptr, wd], [1, d1, ptr, wd]], present=None, nf=nf),
                                resmode=resmode, nv=nv, prepend=prepend))
            for kind in pardb_kinds(nv):
                out.append(dict(plan=dict(entries=[[0, d0, ptr, wd], [1, d1, ptr, wd]], present=None),
                                resmode=resmode, nv=nv, prepend=prepend, pardb=kind))
    return out


def skeletons_two(quick):
    out = []
    for ix, tx in enumerate(TR):
        for ty in ([TR[(ix + 2) % 6]] if quick else TR):
            out.append(("B2x2", dict(eqs=[dict(tr=tx, id=False, terms=["lag", "par", "exo"]),
                                          dict(tr=ty, id=False, terms=["lag", "e0"])])))
            if not quick:
                out.append(("B1x2", dict(eqs=[dict(tr=tx, id=False, terms=["lag", "l1", "par", "exo"]),
                                              dict(tr=ty, id=False, terms=["lag", "e0", "par"])])))
    return out


# ---------------------------------------------------------------------------
# shards
# ---------------------------------------------------------------------------

def shard_models(item, res, ctx):
    kind = item[0]
    if kind == "two":            # one first-equation spec x every second-equation spec
        _, full, i0, nvs = item
        f = first_specs(full)[i0]
        specs = [dict(eqs=[f, s]) for s in second_specs(full)]
    elif kind == "list":
        _, specs, nvs = item
    else:
        raise KeyError(kind)
    for k, spec in enumerate(specs):
        run_model_cases(spec, model_cases(spec, nvs, pardb_product=not (ctx.quick and kind == "two")), res, ctx.seed)
        if k == 0:
            res.sample({"part": "M", "model": Model(spec, ctx.seed).source(), "cases": "no plan + standard plan, both orders", "variants": list(nvs)})


def shard_plans(item, res, ctx):
    context, spec, j, ptr, wd, nv, prepend = item
    if ptr == "flat":
        cases = plan_cases_flat(j, nv, prepend)
        run_model_cases(spec, cases, res, ctx.seed)
        res.count("flat_only_plan_cases", len(cases))
        return
    cases = plan_cases(j, ptr, wd, nv, prepend, ctx.quick, lhs_tr=spec["eqs"][j]["tr"])
    M = run_model_cases(spec, cases, res, ctx.seed)
    if ptr == "pct" and wd:
        res.sample({"part": "P", "context": context, "model": M.source(), "exogenized": M.names[j], "plan_transform": ptr,
                    "when_data": wd, "variants": nv, "cases": "%d (date subset x presence subset x residual mode, incl. %d with "
                    "the plan data in a custom-named series and %d with an old calibration in the databox) x orders"
                    % (len(cases), sum(1 for c in cases if c["plan"].get("nf")), sum(1 for c in cases if c.get("pardb")))})


def shard_plans_two(item, res, ctx):
    context, spec, ptr, wd, nv, prepend = item
    cases = plan_cases_two(ptr, wd, nv, prepend)
    M = run_model_cases(spec, cases, res, ctx.seed)
    if ptr == "diff" and not wd:
        res.sample({"part": "P2", "context": context, "model": M.source(), "exogenized": list(M.names), "plan_transform": ptr,
                    "when_data": wd, "variants": nv, "cases": "%d (date subset x date subset x residual mode) x orders" % len(cases)})


def run(ctx, total, info):
    quick = ctx.quick
    shards_m = []
    # ---- part M ------------------------------------------------------------------------
    nfirst = len(first_specs(not quick))
    for i0 in range(nfirst):
        shards_m.append(("two", not quick, i0, (1,)))
    if not quick:                # the listed sub-family again with two variants
        for i0 in range(len(first_specs(False))):
            shards_m.append(("two", False, i0, (2,)))
    singles = single_specs()
    shards_m.append(("list", singles, (1, 2)))
    leads = lead_specs()
    for k in range(0, len(leads), 72):
        shards_m.append(("list", leads[k:k + 72], (1,) if quick else (1, 2)))
    threes = three_specs(quick)
    for k in range(0, len(threes), 36):
        shards_m.append(("list", threes[k:k + 36], (1,)))
    if quick:                    # two variants on a listed part of the 2-equation family
        two_v = [dict(eqs=[f, s]) for f in eq_specs([["lag", "l1", "par", "exo"], ["lag", "par"]])
                 for s in eq_specs([["lag", "e0", "par", "exo"]])]
        for k in range(0, len(two_v), 48):
            shards_m.append(("list", two_v[k:k + 48], (2,)))
    # ---- part P ------------------------------------------------------------------------
    shards_p = []
    for context, spec, j in skeletons(quick):
        for ptr in TR:
            for wd in (False, True):
                if not (quick and context == "A2"):
                    shards_p.append((context, spec, j, ptr, wd, 1, False))
                if context == "A2" or (not quick and context in ("A", "B2", "C", "D")):
                    shards_p.append((context, spec, j, ptr, wd, 2, True))
    for context, spec, j in skeletons(quick):
        if context != "A2":
            shards_p.append((context, spec, j, "flat", False, 1, False))
    shards_p2 = []
    for context, spec in skeletons_two(quick):
        for ptr in TR:
            for wd in ((False,) if quick else (False, True)):
                shards_p2.append((context, spec, ptr, wd, 1, False))
    engine.run_shards(__name__, "shard_plans", shards_p, ctx, total)
    engine.run_shards(__name__, "shard_plans_two", shards_p2, ctx, total)
    engine.run_shards(__name__, "shard_models", shards_m, ctx, total)
    c = total.counters
    info["exhaustive"] = True
    info["space"] = {
        "two_equation_models": len(first_specs(not quick)) * len(second_specs(not quick)),
        "single_equation_models": len(singles), "lead_family_models": len(leads), "three_equation_models": len(threes),
        "plan_skeletons": len(skeletons(quick)), "plan_shards": len(shards_p),
        "two_variable_plan_skeletons": len(skeletons_two(quick)), "two_variable_plan_shards": len(shards_p2),
        "two_variable_plans_per_skeleton": len(plan_cases_two("none", False, 1, False)) * len(TR) * (1 if quick else 2), "model_shards": len(shards_m),
        "plans_per_skeleton_variable": len(plan_cases(0, "none", False, 1, False, quick)) * 2 * len(TR),
        "simulated_periods": T, "window": list(WINDOW),
        "plan_name_formats": list(NAME_FORMATS), "stale_parameter_items": list(PARDB) + ["list (2 variants)"],
        "models_with_parameters_two_equation": sum(1 for f in first_specs(not quick) for s_ in second_specs(not quick)
                                                   if has_parameters(dict(eqs=[f, s_]))),
    }
    info["bound_completed"] = "all listed families" if quick else "all 1- and 2-equation models; listed 3-equation and lead families"
    pairs = len(total.classes.get("lhs_x_plan_transform", ()))
    measured = {
        "evaluations": total.evaluations,
        "distinct_nontrivial": len(total.nontrivial),
        "models_built": c["models_built"],
        "cases_fully_judged": c["cases_fully_judged"],
        "cells_exogenized_zero_input_residual": c["cells_exogenized_zero_input_residual"],
        "cells_exogenized_nonzero_input_residual": c["cells_exogenized_nonzero_input_residual"],
        "cells_skipped_when_data": c["cells_skipped_when_data"],
        "cells_exogenized_missing": c["cells_exogenized_missing"],
        "cells_exogenized_to_exact_zero": c["cells_exogenized_to_exact_zero"],
        "cells_simulated": c["cells_simulated"],
        "pairs_both_orders_compared": c["pairs_both_orders_compared"],
        "lhs_x_plan_transform_x_when_data_classes": pairs,
        "order_validity_classes": len(total.classes.get("order_validity", ())),
        "excluded_order_pairs": total.excluded["order_reads_before_write"],
        # plan data held in a differently named series (name_format=...)
        "cells_exogenized_custom_name": c["cells_exogenized_custom_name"],
        "cells_exogenized_custom_name_level_transform": c["cells_exogenized_custom_name_level_transform"],
        "cells_skipped_when_data_custom_name": c["cells_skipped_when_data_custom_name"],
        "cells_exogenized_missing_custom_name": c["cells_exogenized_missing_custom_name"],
        "custom_name_lhs_x_plan_transform_x_when_data_x_cell_classes": len(total.classes.get("custom_name_lhs_x_plan_transform", ())),
        # an old calibration left in the input databox under the parameters' names
        "cases_stale_parameters_number": c["cases_stale_parameters_number"],
        "cases_stale_parameters_series": c["cases_stale_parameters_series"],
        "cases_stale_parameters_list": c["cases_stale_parameters_list"],
        "cells_parameter_equation_stale_number_in_databox": c["cells_parameter_equation_stale_number_in_databox"],
        "cells_parameter_equation_stale_series_in_databox": c["cells_parameter_equation_stale_series_in_databox"],
    }
    required = QUICK_FLOORS if quick else THOROUGH_FLOORS
    info["floors"] = {k: (measured[k], required[k]) for k in required}
    info["floors"]["flat_only_plan_cases"] = (c["flat_only_plan_cases"], 150)
    info["floors"]["runs_returned_through_target_db"] = (c["runs_returned_through_target_db"], 4000)
    info["floors"]["models_reversed_then_sequentialized"] = (c["models_built_reversed_then_sequentialized"], 2500 if quick else 20000)


# vacuity floors: at most 50-60 % of what the unchanged tree measures (quick: 108 706 evaluations, 6 740 models built,
# 79 700 + 86 180 exogenized cells with zero / non-zero input residual, 31 248 when_data cells without data,
# 31 248 exogenized-to-missing cells, 560 312 simulated cells, 45 333 order pairs, 34 888 excluded order pairs)
QUICK_FLOORS = {
    "evaluations": 30000, "distinct_nontrivial": 30000, "models_built": 4000, "cases_fully_judged": 20000,
    "cells_exogenized_zero_input_residual": 15000, "cells_exogenized_nonzero_input_residual": 15000,
    "cells_skipped_when_data": 10000, "cells_exogenized_missing": 10000, "cells_simulated": 125000,
    "cells_exogenized_to_exact_zero": 1000,
    "pairs_both_orders_compared": 11000, "lhs_x_plan_transform_x_when_data_classes": 60,
    "order_validity_classes": 3, "excluded_order_pairs": 7000,
    # new dimensions (measured: 28 176 exogenized cells read from a custom-named series, 4 800 of them level plans,
    # 13 752 + 13 752 skipped / missing cells, 108 classes; 10 068 + 10 068 + 2 082 cases and 59 376 + 59 376
    # parameter-equation cells with a stale number / Series / list under the parameter's name)
    "cells_exogenized_custom_name": 15000, "cells_exogenized_custom_name_level_transform": 2500,
    "cells_skipped_when_data_custom_name": 7500, "cells_exogenized_missing_custom_name": 7500,
    "custom_name_lhs_x_plan_transform_x_when_data_x_cell_classes": 90,
    "cases_stale_parameters_number": 5000, "cases_stale_parameters_series": 5000, "cases_stale_parameters_list": 1000,
    "cells_parameter_equation_stale_number_in_databox": 30000, "cells_parameter_equation_stale_series_in_databox": 30000,
}
THOROUGH_FLOORS = {     # measured: 914 748 evaluations, 51 524 models, 647 202 + 647 202 exogenized cells, 5 938 860 simulated cells
    "evaluations": 500000, "distinct_nontrivial": 500000, "models_built": 28000, "cases_fully_judged": 380000,
    "cells_exogenized_zero_input_residual": 350000, "cells_exogenized_nonzero_input_residual": 350000,
    "cells_skipped_when_data": 200000, "cells_exogenized_missing": 200000, "cells_simulated": 3200000,
    "cells_exogenized_to_exact_zero": 1000,
    "pairs_both_orders_compared": 190000, "lhs_x_plan_transform_x_when_data_classes": 60,
    "order_validity_classes": 3, "excluded_order_pairs": 180000,
    # new dimensions: not measured on a full run; every one is a superset of the quick space many times over
    # (12 x the plan shards with 3 x the custom-name plans each, 14 x the models with parameters), floors = 5 x quick floors
    "cells_exogenized_custom_name": 75000, "cells_exogenized_custom_name_level_transform": 12500,
    "cells_skipped_when_data_custom_name": 37500, "cells_exogenized_missing_custom_name": 37500,
    "custom_name_lhs_x_plan_transform_x_when_data_x_cell_classes": 90,
    "cases_stale_parameters_number": 25000, "cases_stale_parameters_series": 25000, "cases_stale_parameters_list": 5000,
    "cells_parameter_equation_stale_number_in_databox": 150000, "cells_parameter_equation_stale_series_in_databox": 150000,
}


def replay(case):
    res = engine.Result()
    seed = int(case.get("seed", 0))
    c = {k: case[k] for k in ("plan", "resmode", "nv", "prepend", "reverse", "zero_at", "pardb", "observe_pfd", "target") if k in case}
    if "orders" in case:
        c["orders"] = case["orders"]
    run_model_cases(case["model"], [c], res, seed)
    return ["%s %s %s" % (v["check"], engine.sigkey(v["signature"]), v["detail"]) for v in res.violations]
