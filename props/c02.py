"""C02 — Jacobians from algorithmic differentiation equal the true derivatives.

Complete enumeration of families of expression trees (ref/c02space.py) x all 16 log-status assignments of
(x, y, z, w) x up to 3 evaluation points chosen by the reference inside the tree's domain and away from its kinks.
Trees are packed ~24 per generated model (`v_k = tree_k`, the first lead-free ones again as measurement
equations `o_j = tree*(1+u_j)`), together with four fixed closing equations that carry the shocks and give the
model lags and leads of 2 (two terminal columns in the stacked-time oracle).

Oracles (all against ref.expr derivatives, self-checked against Richardson differences on every tree):
 (a) Simultaneous.systemize(): A, B, D, F, G, J entry by entry (value, row, column, zero elsewhere);
 (b) the steady evaluators built by solve_steady (captured by replacing the solver entry): eval_func against
     the reference residuals, eval_jacob against the reference derivatives w.r.t. (log-)levels and changes,
     flat and non-flat, at points with non-zero changes;
 (c) the stacked-time evaluator built by simulate(method="stacked_time") (captured by replacing
     neqs.damped_newton): eval_func against the reference residuals, eval_jacob analytically with
     terminal="data", and against a Richardson difference of eval_func with terminal="first_order";
 (d) the same stacked-time evaluator over 3 periods with non-zero anticipated shocks
     - asked for its Jacobian more than once: one evaluator (terminal="first_order") is evaluated at a sequence of
       points - Z (every unknown of a non-log variable among x, y, z, w exactly 0.0, so that many derivatives,
       also in the terminal-condition columns, are exactly zero), G (the data), F (3 x G: other branches of
       maximum, also in the terminal values) - in the orders Z,G,F and G,Z,F, a fresh evaluator per order, and
       EVERY evaluation is compared with the reference at that point;
     - under a SimulationPlan: every plan of the complete space {x, y, z, w} x {every date of the frame} that
       exogenizes the variable (anticipated; unanticipated in the first period) and endogenizes the shock of its
       closing equation, with terminal "data" and "first_order"; the unknowns are identified by behaviour (which
       data entry each element of the solver's vector is written to) and must be exactly: all variable points
       minus the exogenized one plus the shock; the Jacobian w.r.t. these unknowns (the same variable at later
       dates, the terminal condition, the shock) is compared with the reference.
A tree whose model raises at build or evaluation is *rejected* (allowed by the property) and counted per operator.
"""
import contextlib
import io
import math
import os

import numpy as np

import irispie as ir
from irispie.steadiers import solver_dispatcher as _SD
import irispie.stacked_time.simulators as _STS

from mc import engine
from ref import expr as E
from ref import c02space as S

PROPERTY = "C02"
LEVEL = "exploration"
RULE = ("every tree of the stated families over leaves {x, y[-1], z[+1], w[-2], p, 2, 0.5}, 9 unary and 8 binary operators "
        "(D12: all 462 trees of depth <= 2; D3U: 4095 unary(depth-2 tree); thorough also D3L/D3R: 2 x 25480 "
        "binary(depth-2 tree, leaf) / binary(leaf, depth-2 tree) and D3V: 215168 binary(t1, t2) with t1, t2 depth-2 trees over "
        "variable leaves) x all 16 log-status assignments of (x, y, z, w) x the first 3 of 8 fixed candidate points that the "
        "reference finds admissible (inside the domain, >= 0.1 from kinks, positive for log-variables); trees are packed 24 "
        "(D3V: 48) per generated model, a model that raises is bisected down to single trees (a single tree that raises is "
        "'rejected'); distinct non-trivial case = (family, tree index, log assignment) of a tree that contains a variable and "
        "was accepted by systemize(), i.e. had its Jacobian rows compared; oracle (d) on the D12 packs (quick: 8 log assignments "
        "revisited, 2 under plans; thorough: all 16) and the D3U packs (quick: revisited under the all-non-log assignment; thorough: 4 "
        "assignments, both; D3L/D3R revisited under the all-non-log assignment): evaluation sequences Z,G,F and G,Z,F on one "
        "evaluator each, and all 16 plans (4 exogenized variables x 3 dates anticipated + 4 x first date unanticipated) x 2 terminals")
MANIFEST_ENTRY = dict(level="exploration", design="DESIGN.md section 4 / C02",
    technique="exhaustive enumeration of expression trees x log-status assignments x reference-chosen evaluation points; "
              "systemize / steady-evaluator / stacked-time Jacobians compared entry by entry with textbook forward-mode "
              "derivatives that are self-checked against Richardson differences on every row; the stacked-time evaluator is also "
              "re-evaluated at sequences of points (exact zeros first / in the middle) and under every single-point "
              "exogenize/endogenize plan of a 3-period frame",
    text="For every tree of depth <= 2 and every unary(depth-2) tree (quick), plus every binary(depth-2, leaf), "
         "binary(leaf, depth-2) tree and every binary(t1, t2) of depth-2 trees over variable leaves (thorough), over leaves "
         "{x, y[-1], z[+1], w[-2], p, 2, 0.5} and operators {+ - * / ^ unary-, log exp sqrt logistic abs normal_cdf normal_pdf "
         "maximum minimum, user f(.) g(.,.)}, under all 16 log-status assignments and at up to 3 admissible points with "
         "non-zero steady changes: every entry of A, B, D, F, G, J from systemize() equals the true partial derivative "
         "(w.r.t. the logarithm for log-variables) in the row of the equation and the column of the occurrence and is zero "
         "elsewhere, or the tree is rejected by an exception. The same packs go through the flat and non-flat steady "
         "evaluators (eval_func = reference residuals at t and t+1, eval_jacob = reference derivatives w.r.t. (log-)levels "
         "and changes) and the stacked-time evaluator over 3 periods with time-varying data (analytic Jacobian with "
         "terminal='data'; Richardson difference of eval_func for the rows that read the first-order terminal value): all "
         "16 assignments for D12 (quick) and D12/D3U/D3L/D3R (thorough), 4 assignments for D3U in quick, systemize only for D3V. "
         "Stacked-time evaluator asked repeatedly (terminal='first_order', 3 periods, non-zero anticipated shocks): the points Z (all "
         "unknowns of non-log x, y, z, w exactly 0), G (data), F (3 x data) in the orders Z,G,F and G,Z,F on one evaluator each, every "
         "evaluation compared (rows that read terminal values against a Richardson difference of eval_func, the others analytically): "
         "D12 under 8 (quick) / 16 (thorough) log assignments, D3U under 1 / 4, D3L and D3R under 1 (thorough). Stacked-time evaluator "
         "under a plan: for D12 under 2 (quick) / 16 (thorough) log assignments and D3U under 4 (thorough), each of the 16 plans "
         "{x, y, z, w} x {date 1, 2, 3} exogenized anticipated (+ date 1 unanticipated) with the shock of the variable's closing "
         "equation endogenized at the same date, terminal 'data' and 'first_order': the unknowns are exactly the variable points "
         "minus the exogenized one plus the shock, and every Jacobian row equals the reference derivative w.r.t. those unknowns.",
    note="Trusted: ref/expr.py + ref/c02space.py (plain math; two independent rule sets and a Richardson difference must "
         "agree on every row before it is used). The two defects this check exposed (non-flat steady Jacobian rows for t+k taken at t; "
         "maximum dropping the derivative of a non-constant second argument) were repaired in /repo; their violation "
         "classes keep a narrow signature. The closing equations give every model lags of 2 and leads of 2 on several "
         "variables, so the first-order terminal correction spans two terminal columns. Not covered: depth-3 trees with a "
         "composite argument that contains p or a number on both sides, points off the 8-point table, more than one "
         "shift per variable inside a tree, the C/H vectors and the dynamic-identity rows (not in the statement); plans with "
         "several exogenized points, a shock endogenized at another date than the exogenized point, unanticipated points after "
         "the first period (they start a new frame), frames longer than 3 periods.")
ASSUMPTIONS = [
    "evaluation points come from a fixed table of 8 candidates (rotated by the seed), plus, in oracle (d), the two points derived "
    "from them (Z: unknowns of non-log variables exactly 0; F: 3 x the data); derivatives at other points are not examined",
    "an occurrence that is both an element of x(t) and of x(t-1) (e.g. w[-1]) may be reported in A or in B, not in both",
    "user context functions are differentiated by finite differences in irispie: compared at relative 1e-6 instead of 1e-9",
    "the rows of dynamic identities appended to A and B, and the vectors C and H, are not examined here (not in the statement)",
    "steady and stacked-time evaluators are built once per model and keep the parameter value of the pack's first point; the other "
    "points supply the variable values (admissibility re-checked by the reference)",
    "trees of shapes that were always rejected when probed (abs/normal_cdf/normal_pdf/minimum of a non-number, number^variable, "
    "maximum(number, variable)) are run one per model under every log assignment of their own variables (D3V: under the "
    "all-non-log assignment) and under all 16 only if one of those is accepted",
    "rows of the stacked-time Jacobian that read the first-order terminal value are compared with a Richardson difference of "
    "irispie's own eval_func (itself compared with the reference residuals), column by column for x, y, z, w and along one "
    "weighted direction per period for the v_k columns",
    "oracle (d) identifies the unknowns of the stacked-time solver by behaviour: the evaluator is given the initial guess plus a "
    "distinct increment per element and the entries of its data array (one row per quantity, one column per period from two "
    "periods before the start) that change by that increment (in logs for log-variables) name the unknown",
    "oracle (d): rows that are inadmissible (domain, kink distance, magnitude) at a point of a sequence are skipped at that point only "
    "(counted under stacked_seq_point_inadmissible); the terminal values of terminal='first_order' are part of the point and are read "
    "back from the data array after each evaluation; an unanticipated plan point is enumerated for the first period only",
]

PACK = 24
NMEAS = 6
RTOL = 1e-9
RTOL_USER = 1e-6
ATOL = 1e-12
ALL_LOGS = tuple("".join(b) for b in __import__("itertools").product("01", repeat=4))


# ---------------------------------------------------------------------------
# implementation side of the user context functions (numpy, vectorised)
# ---------------------------------------------------------------------------
def _user_f(a):
    return np.arctan(a) + 0.3 * a * a


def _user_g(a, b):
    return a * np.tanh(b) + 0.5 * b * b


CONTEXT = {"f": _user_f, "g": _user_g}


def totuple(x):
    return tuple(totuple(i) for i in x) if isinstance(x, (list, tuple)) else x


def logs_dict(bits):
    return {n: b == "1" for n, b in zip(S.VARNAMES, bits)}


# ---------------------------------------------------------------------------
# closing equations (fixed; they carry the shocks and make the model square and solvable)
# ---------------------------------------------------------------------------
def _v(n, s=0):
    return ("var", n, s)


def _c(c):
    return ("num", c)


CLOSING = (
    ("x", ("+", ("+", ("*", _c(0.8), _v("x", -1)), _c(0.3)), ("*", _v("sx"), _v("y")))),
    ("y", ("+", ("+", ("*", _c(0.5), _v("y", -1)), _c(0.4)), ("*", ("-", ("fn", "exp", _v("sy")), _c(1)), _v("x", -1)))),
    ("z", ("+", ("+", ("+", ("+", ("*", _c(0.3), _v("z", 1)), ("*", _c(0.25), _v("z", -1))), ("*", _c(0.15), _v("x", -1))),
                 _c(0.4)), _v("sz"))),
    ("w", ("+", ("+", ("+", ("+", ("*", _c(0.6), _v("w", -1)), ("*", _c(0.2), _v("w", -2))), ("*", _c(0.05), _v("y", 2))),
                 _c(0.1)), ("*", _v("sw"), _v("z")))),
)
TSHOCKS = ("sx", "sy", "sz", "sw")
MAX_LEAD = 2        # y[+2] in the closing equation of w: two terminal columns in the stacked-time oracle


def has_lead(tr):
    return any(s > 0 for _, s in E.occurrences(tr))


def uses_user(tr):
    return bool({"f", "g"} & S.opkinds(tr))


def _pure_number(tr):
    k = tr[0]
    if k == "num":
        return True
    if k in ("par", "var") or (k == "fn" and tr[1] in E.USER):
        return False
    return all(_pure_number(a) for a in (tr[2:] if k == "fn" else tr[1:]))


def suspect(tr):
    """performance hint only: trees of these shapes were rejected when probed one by one, so they are run as
    single-tree models straight away instead of poisoning a pack.  The verdict never depends on the hint: a
    suspected tree that is accepted is checked like any other, an unsuspected tree that raises is found by bisection."""
    k = tr[0]
    if k in ("num", "par", "var"):
        return False
    args = tr[2:] if k == "fn" else tr[1:]
    if any(suspect(a) for a in args):
        return True
    if k == "fn":
        name = tr[1]
        if name in ("abs", "normal_cdf", "normal_pdf") and not _pure_number(args[0]):
            return True
        if name == "minimum" and not (_pure_number(args[0]) and _pure_number(args[1])):
            return True
        if name == "maximum" and _pure_number(args[0]) and not _pure_number(args[1]):
            return True
    if k == "^" and _pure_number(args[0]) and not _pure_number(args[1]):
        return True
    return False


def floor_active_vars(tr, get, t=0, out=None):
    """names of variables that occur inside the second argument of a maximum/minimum node that is the active
    branch at the point (structural fact about the input, used only to label violations)"""
    out = set() if out is None else out
    k = tr[0]
    if k in ("num", "par", "var"):
        return out
    args = tr[2:] if k == "fn" else tr[1:]
    if k == "fn" and tr[1] in ("maximum", "minimum"):
        try:
            a, b = E.ev(args[0], get, t), E.ev(args[1], get, t)
            if (tr[1] == "maximum" and b > a) or (tr[1] == "minimum" and b < a):
                out.update(n for n, _ in E.occurrences(args[1]))
        except Exception:
            pass
    for a in args:
        floor_active_vars(a, get, t, out)
    return out


def freeze_active_floors(tr, get, t=0):
    """the tree with every maximum/minimum whose *second* argument is the active branch at the point replaced by
    that argument's value as a constant (and the inactive second arguments frozen likewise).  Its derivative is
    what one gets by treating the second argument of maximum/minimum as a constant; used only to label violations."""
    k = tr[0]
    if k in ("num", "par", "var"):
        return tr
    if k == "fn" and tr[1] in ("maximum", "minimum"):
        va, vb = E.ev(tr[2], get, t), E.ev(tr[3], get, t)
        if (tr[1] == "maximum" and vb > va) or (tr[1] == "minimum" and vb < va):
            return ("num", vb)
        return ("fn", tr[1], freeze_active_floors(tr[2], get, t), ("num", vb))
    if k == "fn":
        return ("fn", tr[1]) + tuple(freeze_active_floors(a, get, t) for a in tr[2:])
    return (k,) + tuple(freeze_active_floors(a, get, t) for a in tr[1:])


def alt_floor_dropped(eq, get, t):
    """{occurrence: derivative of -lhs + rhs} with the second arguments of maximum/minimum treated as constants"""
    kind, lhs, rhs, slot = eq
    try:
        frozen = freeze_active_floors(rhs, get, t)
        out = {occ: E.evd(frozen, get, occ, t)[1] for occ in E.occurrences(rhs)}
    except Exception:
        return None
    out[(lhs, 0)] = out.get((lhs, 0), 0.0) - 1.0
    return out


# ---------------------------------------------------------------------------
# reference rows
# ---------------------------------------------------------------------------
class HarnessError(Exception):
    pass


def row_ref(tree, get, t):
    """(value, {occurrence: (derivative, magnitude)}) of a tree at time t; the derivative rules of ref.expr are
    cross-checked against the second implementation in c02space and against a Richardson difference."""
    value = E.ev(tree, get, t)
    if not (isinstance(value, (int, float)) and math.isfinite(value)) or abs(value) > 1e12:
        # an evaluation point at which the tree itself is not a finite moderate number (e.g. explosive terminal values
        # read back from the implementation): nothing can be said about derivatives there
        raise S.Inadmissible("non-finite or astronomically large value")
    out = {}
    for occ in sorted(E.occurrences(tree)):
        v1, d1 = E.evd(tree, get, occ, t)
        v2, d2, mag = S.evd_mag(tree, get, occ, t)
        scale = max(mag, abs(d1), 1.0)
        if not (abs(v1 - value) <= 1e-12 * max(1.0, abs(value)) and abs(d1 - d2) <= 1e-12 * scale):
            raise HarnessError("reference rules disagree on %s wrt %r: %r vs %r" % (E.render(tree), occ, d1, d2))
        n0, t0 = occ[0], t + occ[1]

        def fh(h, n0=n0, t0=t0):
            def g2(name, tt):
                v = get(name, tt)
                return v + h if (tt is not None and name == n0 and tt == t0) else v
            return E.ev(tree, g2, t)
        dr = E.richardson(fh, 0.0, h=2e-4)
        # a difference quotient of a value v carries a rounding error of about eps*|v|/h: at evaluation points where
        # some other term of the tree is astronomically large (an explosive first-order continuation read back from
        # the data array) it says nothing about this derivative, and the two rule sets remain as the cross-check
        if not abs(dr - d1) <= 2e-5 * scale + 1e-10 * abs(value):
            raise HarnessError("Richardson self-check failed on %s wrt %r at t=%d: rule %r, difference %r"
                               % (E.render(tree), occ, t, d1, dr))
        out[occ] = (d1, mag)
    return value, out


class Pack:
    """one generated model program: closing equations + v_k = tree_k (+ measurement twins)"""

    def __init__(self, trees, bits):
        self.trees = [totuple(t) for t in trees]
        self.bits = bits
        self.logs = logs_dict(bits)
        n = len(self.trees)
        self.vnames = ["v%d" % k for k in range(n)]
        self.meas = [k for k in range(n) if not has_lead(self.trees[k])][:NMEAS]
        self.onames = ["o%d" % j for j in range(len(self.meas))]
        self.unames = ["u%d" % j for j in range(len(self.meas))]
        # auxiliary variables: name -> (level, change, is_log)
        self.aux = {}
        for k, v in enumerate(self.vnames):
            lg = k % 2 == 1
            self.aux[v] = (1.3 + 0.01 * k, 1.03 if lg else 0.07, lg)
        for j, o in enumerate(self.onames):
            lg = j % 2 == 1
            self.aux[o] = (1.7 + 0.01 * j, 0.98 if lg else -0.05, lg)
        self.islog = dict(self.logs)
        self.islog.update({n: a[2] for n, a in self.aux.items()})
        # equations: (kind, lhs, rhs tree, tree slot or None)
        self.teqs = [("T", lhs, rhs, None) for lhs, rhs in CLOSING]
        self.teqs += [("T", v, tr, k) for k, (v, tr) in enumerate(zip(self.vnames, self.trees))]
        self.meqs = [("M", o, ("*", self.trees[k], ("+", _c(1), _v(u))), k)
                     for o, u, k in zip(self.onames, self.unames, self.meas)]

    def source(self):
        lv = [n for n in S.VARNAMES if self.logs[n]] + [n for n in self.vnames + self.onames if self.aux[n][2]]
        s = "!transition-variables\n  " + ", ".join(S.VARNAMES + tuple(self.vnames)) + "\n"
        if lv:
            s += "!log-variables\n  " + ", ".join(lv) + "\n"
        s += "!parameters\n  p\n!transition-shocks\n  " + ", ".join(TSHOCKS) + "\n!transition-equations\n"
        for _, lhs, rhs, _ in self.teqs:
            s += "  %s = %s;\n" % (lhs, E.render(rhs))
        if self.meqs:
            s += "!measurement-variables\n  " + ", ".join(self.onames) + "\n"
            s += "!measurement-shocks\n  " + ", ".join(self.unames) + "\n!measurement-equations\n"
            for _, lhs, rhs, _ in self.meqs:
                s += "  %s = %s;\n" % (lhs, E.render(rhs))
        return s

    def getter(self, pt):
        """value of every name on the steady path through the candidate point"""
        logs, aux = self.logs, self.aux

        def get(name, t):
            if t is None:
                return pt[name]
            if name in S.SHIFT:
                return S.path_value(pt, logs, name, t)
            if name in aux:
                lev, ch, lg = aux[name]
                return lev * ch ** t if lg else lev + ch * t
            return 0.0
        return get

    def assignment(self, pt):
        out = dict(S.level_change(pt, self.logs))
        out.update({n: (a[0], a[1]) for n, a in self.aux.items()})
        out["p"] = pt["p"]
        return out


class Refs:
    """reference rows of the tree slots of one pack, backed by a shard-wide dict keyed by tree id so that the 16
    log-status assignments share the (log-independent) tree rows"""

    def __init__(self, pack, ids, shared):
        self.pack, self.ids, self.shared = pack, ids, shared

    def tree(self, slot, ckey, tau, get, t, check=False):
        """(value, {occ: (d, mag)}) of tree `slot`; with check=True returns None when the reference finds the
        point inadmissible for the tree"""
        key = (self.ids[slot] if self.ids else slot, ckey, tau)
        if key not in self.shared:
            tr = self.pack.trees[slot]
            val = None
            try:
                if check:
                    S.check_value(tr, get, t)
                val = row_ref(tr, get, t)
            except (S.Inadmissible, ValueError, OverflowError, ZeroDivisionError):
                if not check:
                    raise
            self.shared[key] = val
        return self.shared[key]


def eq_ref(eq, get, t, tree_ref=None):
    """reference residual and derivatives of one equation `lhs = rhs` stored as -lhs + rhs, at time t:
    (residual, {occurrence: (derivative, magnitude)}).  tree_ref: precomputed row_ref of the tree of a tree slot."""
    kind, lhs, rhs, slot = eq
    if tree_ref is not None:
        value, d = tree_ref
        d = dict(d)
        if kind == "M":            # o = tree*(1+u) at u = 0
            d[(rhs[2][2][1], 0)] = (value, abs(value))
    else:
        value, d = row_ref(rhs, get, t)
        d = dict(d)
    d0, m0 = d.get((lhs, 0), (0.0, 0.0))
    d[(lhs, 0)] = (d0 - 1.0, m0 + 1.0)
    return value - get(lhs, t), d


# ---------------------------------------------------------------------------
# comparison helpers
# ---------------------------------------------------------------------------
def _tol(exp, mag, user):
    if user:
        return RTOL_USER * max(mag, abs(exp), 1.0)
    return ATOL + RTOL * max(mag, abs(exp))


class Reporter:
    def __init__(self, res, pack, pts_idx, seed, ids=None):
        self.res, self.pack, self.pts_idx, self.seed, self.ids = res, pack, pts_idx, seed, ids
        self.bad_slots = set()
        self.stage = None

    def case(self, **extra):
        c = {"trees": self.pack.trees, "logs": self.pack.bits, "points": list(self.pts_idx), "seed": self.seed}
        if self.ids is not None:
            c["ids"] = self.ids
        c.update(extra)
        return c

    def row_label(self, eq):
        kind, lhs, rhs, slot = eq
        if slot is None:
            return ["closing"]
        return sorted(S.opkinds(self.pack.trees[slot])) or ["leaf"]

    def value(self, check, eq, detail, floor_dropped=False, taken_at_t=False, **sig):
        """a wrong Jacobian value; the two labelled classes get one signature each"""
        if floor_dropped:
            self.bad(check, eq, detail, ops=["any"], eqkind="any", second_argument_of_maximum_treated_as_constant=True)
        elif taken_at_t:
            self.bad(check, eq, detail, ops=["any"], eqkind="any", mode="nonflat", block="t+k",
                     equals_derivative_taken_at_t=True)
        else:
            self.bad(check, eq, detail, second_argument_of_maximum_treated_as_constant=False, **sig)

    def bad(self, check, eq, detail, case_extra=None, **sig):
        slot = eq[3] if eq is not None else None
        s = {"ops": self.row_label(eq) if eq is not None else ["model"], "eqkind": eq[0] if eq is not None else "-"}
        s.update(sig)
        if slot is not None:
            self.bad_slots.add(slot)
        full = dict(s)
        full["check"] = check
        self.res.violation(check, s, self.case(slot=slot, equation=("%s = %s" % (eq[1], E.render(eq[2]))) if eq else None,
                                               stage=self.stage, signature=engine.jsonable(full), **(case_extra or {})), detail)


# ---------------------------------------------------------------------------
# oracle (a): systemize()
# ---------------------------------------------------------------------------
def oracle_systemize(model, pack, pt, ci, rep, refs, rows_ok):
    """compare A, B, D, F, G, J at the steady path through the point; rows_ok: tree slots admissible at this point"""
    res = rep.res
    get = pack.getter(pt)
    system = model.systemize()
    sv = model._invariant.dynamic_descriptor.system_vectors
    q2n = model.create_qid_to_name()
    tv = [(q2n[t.qid], t.shift) for t in sv.transition_variables]
    col_tv = {t: i for i, t in enumerate(tv)}
    col_ts = {q2n[t.qid]: i for i, t in enumerate(sv.transition_shocks)}
    col_mv = {q2n[t.qid]: i for i, t in enumerate(sv.measurement_variables)}
    col_ms = {q2n[t.qid]: i for i, t in enumerate(sv.measurement_shocks)}
    nT, nM = len(pack.teqs), len(pack.meqs)
    mats = {k: np.array(getattr(system, k), dtype=float) for k in "ABDFGJ"}
    shapes = {"A": (None, len(tv)), "B": (None, len(tv)), "D": (None, len(col_ts)),
              "F": (nM, len(col_mv)), "G": (nM, len(tv)), "J": (nM, len(col_ms))}
    for k, (r, c) in shapes.items():
        m = mats[k]
        if m.ndim != 2 or m.shape[1] != c or (r is not None and m.shape[0] != r) or (r is None and m.shape[0] < nT):
            rep.bad("systemize_shape", None, "%s has shape %r" % (k, m.shape), matrix=k)
            return
    # an occurrence that is an element of x(t) and of x(t-1): fold B into A (only one of the two may be used)
    A, B = mats["A"][:nT].copy(), mats["B"][:nT].copy()
    for (n, s), i in col_tv.items():
        j = col_tv.get((n, s + 1))
        if j is not None:
            both = (A[:, i] != 0) & (B[:, j] != 0)
            if both.any():
                rep.bad("systemize_split", pack.teqs[int(np.argmax(both))], "occurrence %s[%d] in A and in B" % (n, s), matrix="AB")
            A[:, i] = A[:, i] + B[:, j]
            B[:, j] = 0.0
    got = {"A": A, "B": B, "D": mats["D"][:nT], "F": mats["F"], "G": mats["G"], "J": mats["J"]}
    seen = {k: np.zeros(v.shape, dtype=bool) for k, v in got.items()}

    for r, eq in enumerate(pack.teqs + pack.meqs):
        kind, lhs, rhs, slot = eq
        if slot is not None and slot not in rows_ok:
            for k in ("ABD" if kind == "T" else "FGJ"):
                seen[k][r - (nT if kind == "M" else 0), :] = True
            continue
        rr = r if kind == "T" else r - nT
        _, d = eq_ref(eq, get, 0, refs.tree(slot, ci, 0, get, 0) if slot is not None else None)
        user = uses_user(rhs)
        res.ev()
        floor_vars = None
        for (n, s), (dv, mag) in d.items():
            if n == "p":
                continue
            vf = get(n, s) if pack.islog.get(n) else 1.0
            exp, mag = dv * vf, mag * abs(vf)
            if kind == "T":
                if n in col_ts:
                    k, c = "D", col_ts[n]
                elif (n, s) in col_tv:
                    k, c = "A", col_tv[(n, s)]
                elif (n, s + 1) in col_tv:
                    k, c = "B", col_tv[(n, s + 1)]
                else:
                    rep.bad("systemize_no_column", eq, "no column for %s[%d] in %r" % (n, s, tv), matrix="AB")
                    continue
            else:
                if n in col_mv:
                    k, c = "F", col_mv[n]
                elif n in col_ms:
                    k, c = "J", col_ms[n]
                elif (n, s) in col_tv:
                    k, c = "G", col_tv[(n, s)]
                else:
                    rep.bad("systemize_no_column", eq, "no column for %s[%d] in %r" % (n, s, tv), matrix="G")
                    continue
            seen[k][rr, c] = True
            g = got[k][rr, c]
            res.count("entries_a")
            if not abs(g - exp) <= _tol(exp, mag, user):
                if floor_vars is None:
                    floor_vars = alt_floor_dropped(eq, get, 0) or {}
                alt = floor_vars.get((n, s))
                rep.value("systemize_value", eq, "%s[%d,%d] d/d%s%s[%d] = %r, reference %r (point %d, logs %s)"
                          % (k, rr, c, "log " if pack.islog.get(n) else "", n, s, g, exp, ci, pack.bits),
                          floor_dropped=alt is not None and alt * vf != exp and abs(g - alt * vf) <= _tol(alt * vf, mag, user),
                          matrix=k, wrt_log=bool(pack.islog.get(n)))
    for k, m in got.items():
        extra = (m != 0) & ~seen[k]
        if extra.any():
            rr, c = [int(i[0]) for i in np.nonzero(extra)]
            eq = (pack.teqs if k in "ABD" else pack.meqs)[rr]
            rep.bad("systemize_misplaced", eq, "%s[%d,%d] = %r where no occurrence of the equation lives"
                    % (k, rr, c, m[rr, c]), matrix=k)


# ---------------------------------------------------------------------------
# oracle (b): steady evaluators
# ---------------------------------------------------------------------------
@contextlib.contextmanager
def _patched(obj, name, new):
    old = getattr(obj, name)
    setattr(obj, name, new)
    try:
        yield
    finally:
        setattr(obj, name, old)


def capture_steady(model, flat):
    cap = {}

    def solver(steady_evaluator, init_guess, solver_settings=None, **kw):
        cap["ev"] = steady_evaluator
        cap["init"] = np.array(init_guess, dtype=float)
        return init_guess, True, None
    with _patched(_SD, "neqs_levenberg", solver), contextlib.redirect_stdout(io.StringIO()):
        model.steady(flat=flat, split_into_blocks=False, solver="neqs_levenberg")
    return cap.get("ev"), cap.get("init")


def _tolvec(exp, mag, user):
    if user:
        return RTOL_USER * np.maximum(np.maximum(mag, np.abs(exp)), 1.0)
    return ATOL + RTOL * np.maximum(mag, np.abs(exp))


def _common_p(get, p_model):
    def g2(name, t):
        return p_model if t is None else get(name, t)
    return g2


def oracle_steady(model, pack, pts, rep, refs, flat):
    """eval_func / eval_jacob of the (non-)flat steady evaluator at every point of the pack.  The evaluator is
    built once (the way solve_steady builds it) and holds the parameter value of the pack's first point, so the
    other points are the candidate's variable values with that parameter value (admissibility re-checked)."""
    res = rep.res
    tag = "flat" if flat else "nonflat"
    ev, init = capture_steady(model, flat)
    if ev is None:
        rep.bad("steady_not_captured", None, "solve_steady(flat=%r) did not reach the solver" % flat, mode=tag)
        return
    q2n = model.create_qid_to_name()
    lev_names = [q2n[q] for q in ev.extract_levels(init)[1]]
    chg_names = [] if flat else [q2n[q] for q in ev.extract_changes(init)[1]]
    all_names = lev_names + chg_names
    eqs = pack.teqs + pack.meqs
    ne = len(eqs)
    taus = (0,) if flat else (0, 1)
    c0, p_model = pts[0][0], pts[0][1]["p"]
    lg = pack.islog
    col_l = {n: i for i, n in enumerate(lev_names)}
    col_c = {n: len(lev_names) + i for i, n in enumerate(chg_names)}
    for pi, (ci, pt) in enumerate(pts):
        if flat:
            # constant paths at the occurrence values of the candidate point
            occ = {n: pt[n][0] for n in S.VARNAMES}

            def get(name, t, occ=occ, aux=pack.aux):
                if t is None:
                    return p_model
                if name in occ:
                    return occ[name]
                return aux[name][0] if name in aux else 0.0
            level = {n: occ[n] for n in S.VARNAMES}
            level.update({n: a[0] for n, a in pack.aux.items()})
            change = {}
        else:
            get = _common_p(pack.getter(pt), p_model)
            asg = pack.assignment(pt)
            level = {n: asg[n][0] for n in lev_names}
            change = {n: asg[n][1] for n in chg_names}
        guess = np.array([math.log(level[n]) if lg.get(n) else level[n] for n in lev_names]
                         + [math.log(change[n]) if lg.get(n) else change[n] for n in chg_names], dtype=float)
        ckey = ci if ci == c0 else ("p%d" % c0, ci)
        rr = {}
        skipped = False
        for tau in taus:
            for r, eq in enumerate(eqs):
                slot = eq[3]
                tref = None
                if slot is not None:
                    tref = refs.tree(slot, ckey, tau, get, tau, check=ci != c0)
                    if tref is None:
                        skipped = True
                        continue
                rr[(tau, r)] = eq_ref(eq, get, tau, tref)
        if skipped:
            res.exclude("steady_row_inadmissible_with_common_p")
            if not flat:        # the non-flat equator refuses non-finite residuals: the whole point is skipped
                continue
        func = np.array(ev.eval_func(guess), dtype=float).ravel()
        jac = np.array(ev.eval_jacob(guess), dtype=float)
        if func.shape != (ne * len(taus),) or jac.shape != (ne * len(taus), len(guess)):
            rep.bad("steady_shape", None, "func %r jacobian %r, expected %d rows x %d columns"
                    % (func.shape, jac.shape, ne * len(taus), len(guess)), mode=tag)
            return
        for (tau, r), (resid, d) in rr.items():
            eq = eqs[r]
            user = uses_user(eq[2])
            row = tau * ne + r
            res.ev()
            if not abs(func[row] - resid) <= 1e-10 * max(1.0, abs(resid), abs(get(eq[1], tau))):
                rep.bad("steady_func", eq, "%s eval_func row %d (time %d) = %r, reference residual %r (point %d, logs %s)"
                        % (tag, row, tau, func[row], resid, ci, pack.bits), mode=tag, block="t" if tau == 0 else "t+k")
                continue
            def assemble(dd, at, shift_base):
                """row of the steady Jacobian from occurrence derivatives dd = {occ: d} taken at time `at`;
                the change columns carry the factor (shift_base + shift)"""
                out = np.zeros(len(guess))
                for (n, s), dv in dd.items():
                    if n not in col_l:
                        continue
                    vf = get(n, at + s) if lg.get(n) else 1.0
                    out[col_l[n]] += dv * vf
                    if n in col_c:
                        out[col_c[n]] += dv * vf * (shift_base + s)
                return out
            exp = assemble({o: v[0] for o, v in d.items()}, tau, tau)
            mag = np.abs(assemble({o: v[1] for o, v in d.items()}, tau, tau))
            for (n, s), (dv, mg) in d.items():      # magnitudes: absolute values of every term
                if n in col_c:
                    mag[col_c[n]] = max(mag[col_c[n]], mg * abs(get(n, tau + s) if lg.get(n) else 1.0) * abs(tau + s))
            tol = _tolvec(exp, mag, user)
            res.count("entries_b", len(guess))
            badc = np.nonzero(~(np.abs(jac[row] - exp) <= tol))[0]
            if not len(badc):
                continue
            c = int(badc[0])
            name = all_names[c]
            detail = ("%s eval_jacob[%d, %s of %s] = %r, reference %r (time %d, point %d, logs %s)"
                      % (tag, row, "level" if c < len(lev_names) else "change", name, jac[row, c], exp[c], tau, ci, pack.bits))

            def same(alt):
                return alt is not None and bool(np.all(np.abs(jac[row] - alt) <= tol + 1e-9 * np.abs(alt)))
            # label two classes precisely: (i) a lower-block row that is exactly [A, B + k*A] with the derivatives
            # A, B taken at time t instead of t+k; (ii) the second argument of maximum treated as a constant
            at_t = None
            if tau == 1 and (0, r) in rr:
                at_t = assemble({o: v[0] for o, v in rr[(0, r)][1].items()}, 0, 1)
            fl = alt_floor_dropped(eq, get, tau)
            fl_row = assemble(fl, tau, tau) if fl is not None else None
            fl_at_t = None
            if tau == 1:
                fl0 = alt_floor_dropped(eq, get, 0)
                fl_at_t = assemble(fl0, 0, 1) if fl0 is not None else None
            if same(at_t):
                rep.value("steady_jacobian", eq, detail, taken_at_t=True)
            elif same(fl_row) or same(fl_at_t):
                rep.value("steady_jacobian", eq, detail, floor_dropped=True)
            else:
                rep.value("steady_jacobian", eq, detail, mode=tag, block="t" if tau == 0 else "t+k",
                          wrt="level" if c < len(lev_names) else "change", wrt_log=bool(lg.get(name)))


# ---------------------------------------------------------------------------
# oracle (c): stacked-time evaluator
# ---------------------------------------------------------------------------
class _Captured(Exception):
    pass


def capture_stacked(model, db, span, terminal, plan=None):
    cap = {}

    def newton(eval_func=None, eval_jacob=None, init_guess=None, iter_printer=None, args=(), **kw):
        cap.update(eval_func=eval_func, eval_jacob=eval_jacob, init=np.array(init_guess, dtype=float), args=args)
        raise _Captured()
    try:
        with _patched(_STS._nq, "damped_newton", newton), contextlib.redirect_stdout(io.StringIO()):
            if plan is None:
                model.simulate(db, span, method="stacked_time", initial_guess="data", terminal=terminal)
            else:
                model.simulate(db, span, method="stacked_time", initial_guess="data", terminal=terminal, plan=plan)
    except _Captured:
        pass
    return cap


def _filler(name_index, t):
    return 0.83 + 0.0371 * ((5 * name_index + 3 * t) % 17) + 0.0013 * name_index


def oracle_stacked(model, pack, pts, rep, refs, terminal):
    """simulate T = len(pts) periods; period t sees, in the tree rows, the variable values of candidate point t
    (the parameter keeps the value of the pack's first point; admissibility re-checked)"""
    res = rep.res
    T = len(pts)
    names = list(S.VARNAMES) + pack.vnames
    lg = pack.islog
    # data table: name -> {t: value}, t = -1 .. T+1 (periods 1 .. T simulated, T+1 .. T+MAX_LEAD terminal)
    table = {}
    for i, n in enumerate(names):
        table[n] = {t: _filler(i, t) for t in range(-1, T + MAX_LEAD + 1)}
    for ti, (ci, pt) in enumerate(pts):
        for n in S.VARNAMES:
            table[n][1 + ti + S.SHIFT[n]] = pt[n][0]
    for n in S.VARNAMES:
        if lg.get(n) and any(v <= 0 for v in table[n].values()):
            raise HarnessError("non-positive data for a log-variable")
    start = ir.ii(1)
    db = ir.Databox()
    for n in names:
        db[n] = ir.Series(start=start - 2, values=tuple(table[n][t] for t in range(-1, T + MAX_LEAD + 1)))
    c0, p_model = pts[0][0], pts[0][1]["p"]
    cap = capture_stacked(model, db, start >> start + T - 1, terminal)
    if "eval_func" not in cap:
        rep.bad("stacked_not_captured", None, "simulate(stacked_time, terminal=%s) did not reach the solver" % terminal,
                terminal=terminal)
        return
    guess, data = cap["init"], cap["args"][0]
    nq = len(names)
    if guess.shape != (nq * T,) or data.ndim != 2 or data.shape[1] != T + 2 + MAX_LEAD:
        rep.bad("stacked_shape", None, "guess %r data %r, expected %d unknowns and %d columns"
                % (guess.shape, data.shape, nq * T, T + 2 + MAX_LEAD), terminal=terminal)
        return
    mine = np.array([math.log(table[n][t]) if lg.get(n) else table[n][t] for t in range(1, T + 1) for n in names])
    if not np.allclose(guess, mine, rtol=1e-12, atol=1e-12):
        rep.bad("stacked_layout", None, "initial guess is not the data in (period, variable) order", terminal=terminal)
        return
    func = np.array(cap["eval_func"](guess, data), dtype=float).ravel()
    jac = cap["eval_jacob"](guess, data)
    jac = np.array(jac.toarray() if hasattr(jac, "toarray") else jac, dtype=float)
    eqs = pack.teqs
    ne = len(eqs)
    if func.shape != (ne * T,) or jac.shape != (ne * T, nq * T):
        rep.bad("stacked_shape", None, "func %r jacobian %r" % (func.shape, jac.shape), terminal=terminal)
        return
    if terminal == "first_order":
        # the terminal values (periods T+1 .. T+MAX_LEAD) are produced by the implementation's first-order
        # continuation: they are part of the evaluation point and are read back from the data array
        # (column 0 of the data array is period -1)
        n2q = model.create_name_to_qid()
        for n in S.VARNAMES:
            for k in range(1, MAX_LEAD + 1):
                table[n][T + k] = float(data[n2q[n], T + k + 1])
    col = {(n, t): (t - 1) * nq + i for t in range(1, T + 1) for i, n in enumerate(names)}

    def get(name, t):
        if t is None:
            return p_model
        return table[name][t] if name in table else 0.0

    # Richardson difference quotients of eval_func (terminal="first_order" only): one per column of x, y, z, w,
    # and one direction per period that moves all v_k of that period together with distinct weights
    directions = []
    if terminal == "first_order":
        for t in range(1, T + 1):
            for n in S.VARNAMES:
                e = np.zeros(len(guess))
                e[col[(n, t)]] = 1.0
                directions.append(e)
            e = np.zeros(len(guess))
            for k, v in enumerate(pack.vnames):
                e[col[(v, t)]] = 1.0 + 0.1 * k
            directions.append(e)
        fdq = []
        for e in directions:
            def fh(h, e=e):
                return np.array(cap["eval_func"](guess + h * e, data), dtype=float).ravel()
            fdq.append(E.richardson(fh, 0.0, h=2e-4))
        cap["eval_func"](guess, data)
        D = np.array(directions).T            # unknowns x directions
        FD = np.array(fdq).T                  # rows x directions
    for ti, (ci, pt) in enumerate(pts):
        t = 1 + ti
        for r, eq in enumerate(eqs):
            kind, lhs, rhs, slot = eq
            reads_terminal = terminal == "first_order" and any(t + s > T for _, s in E.occurrences(rhs))
            if slot is None:
                try:
                    resid, d = eq_ref(eq, get, t)
                except S.Inadmissible:
                    res.exclude("stacked_terminal_point_inadmissible")
                    continue
            elif reads_terminal:
                try:
                    S.check_value(rhs, get, t)
                except (S.Inadmissible, ValueError, OverflowError, ZeroDivisionError):
                    res.exclude("stacked_terminal_point_inadmissible")
                    continue
                try:
                    resid, d = eq_ref(eq, get, t)
                except S.Inadmissible:
                    res.exclude("stacked_terminal_point_inadmissible")
                    continue
            else:
                tref = refs.tree(slot, ci if ci == c0 else ("p%d" % c0, ci), 0, get, t, check=ci != c0)
                if tref is None:
                    res.exclude("stacked_point_inadmissible_with_common_p")
                    continue
                resid, d = eq_ref(eq, get, t, tref)
            user = uses_user(rhs)
            row = (t - 1) * ne + r
            res.ev()
            if not abs(func[row] - resid) <= 1e-10 * max(1.0, abs(resid), abs(get(lhs, t))):
                rep.bad("stacked_func", eq, "eval_func row %d (period %d) = %r, reference residual %r (logs %s, terminal %s)"
                        % (row, t, func[row], resid, pack.bits, terminal), terminal=terminal)
                continue
            exp = np.zeros(jac.shape[1])
            mag = np.zeros(jac.shape[1])
            for (n, s), (dv, mg) in d.items():
                c = col.get((n, t + s))
                if c is None:
                    continue
                vf = get(n, t + s) if lg.get(n) else 1.0
                exp[c] += dv * vf
                mag[c] += mg * abs(vf)
            res.count("entries_c", jac.shape[1])
            sig = None
            if terminal == "data" or not any(t + s > T for _, s in d):
                # no terminal value enters this row: the Jacobian row is the analytic one
                badc = np.nonzero(~(np.abs(jac[row] - exp) <= _tolvec(exp, mag, user)))[0]
                if len(badc):
                    c = int(badc[0])
                    sig = (names[c % nq], 1 + c // nq, jac[row, c], exp[c], "analytic")
            else:
                # the row reads the first-order terminal value: compare J*direction with the difference quotient
                scale = max(1.0, float(np.max(np.abs(FD[row]))), float(np.max(mag)))
                jd = jac[row] @ D
                badd = np.nonzero(~(np.abs(jd - FD[row]) <= 2e-5 * scale))[0]
                res.count("rows_terminal_fd")
                if len(badd):
                    k = int(badd[0])
                    c = int(np.argmax(np.abs(directions[k])))
                    sig = (names[c % nq], 1 + c // nq, jd[k], FD[row, k], "difference quotient of eval_func")
            if sig is not None:
                n, tt, gotv, refv, how = sig
                detail = ("eval_jacob[row %d (period %d), %s at period %d] = %r, reference (%s) %r (logs %s, terminal %s)"
                          % (row, t, n, tt, gotv, how, refv, pack.bits, terminal))
                fl = alt_floor_dropped(eq, get, t)
                dropped = False
                if fl is not None:
                    alt = np.zeros(jac.shape[1])
                    for (n2, s2), dv in fl.items():
                        c2 = col.get((n2, t + s2))
                        if c2 is not None:
                            alt[c2] += dv * (get(n2, t + s2) if lg.get(n2) else 1.0)
                    if how == "analytic":
                        dropped = bool(np.all(np.abs(jac[row] - alt) <= _tolvec(alt, mag, user)))
                    else:
                        # rows with the terminal correction: the columns of periods before the last one carry no
                        # correction; the class is recognised there and by the tree having an active second argument
                        early = np.arange(jac.shape[1]) < max(T - 2, 0) * nq
                        dropped = bool(floor_active_vars(rhs, get, t)) and \
                            bool(np.all(np.abs(jac[row] - alt)[early] <= _tolvec(alt, mag, user)[early]))
                rep.value("stacked_jacobian", eq, detail, floor_dropped=dropped, terminal=terminal,
                          wrt_log=bool(lg.get(n)), last_period=bool(t == T), reference=how)


# ---------------------------------------------------------------------------
# oracle (d): the stacked-time evaluator asked more than once, and under a simulation plan
# ---------------------------------------------------------------------------
SEQ_T = S.SEQ_T         # periods of the frame in the stages of oracle (d); period t sees candidate point (t-1) mod #points
SHOCK_OF = dict(zip(S.VARNAMES, TSHOCKS))      # the shock in the closing equation of each of x, y, z, w
SEQUENCES = S.SEQUENCES
plan_cases = S.plan_cases


def _shock_value(k, t):
    return (0.06 + 0.02 * k) * (1.0 if (t + k) % 2 else -1.0) + 0.004 * t


def _seq_table(pack, pts, T):
    names = list(S.VARNAMES) + pack.vnames
    table = {n: {t: _filler(i, t) for t in range(-1, T + MAX_LEAD + 1)} for i, n in enumerate(names)}
    for ti in range(T):
        ci, pt = pts[ti % len(pts)]
        for n in S.VARNAMES:
            table[n][1 + ti + S.SHIFT[n]] = pt[n][0]
    return names, table


def identify_unknowns(cap, model, T):
    """which (name, period) each element of the solver's vector of unknowns stands for, found by behaviour: the
    evaluator is given the initial guess with a distinct small increment in every element and the entries of the
    data array it writes them into are read off.  Returns a list of (name, period) or None."""
    guess, data = cap["init"], cap["args"][0]
    step = 1e-5
    delta = step * (1.0 + np.arange(len(guess)))
    cap["eval_func"](guess.copy(), data)
    base = np.array(data, dtype=float)
    cap["eval_func"](guess + delta, data)
    probe = np.array(data, dtype=float)
    cap["eval_func"](guess.copy(), data)
    q2n = model.create_qid_to_name()
    logly = model.create_qid_to_logly()
    out = [None] * len(guess)
    for q in range(data.shape[0]):
        for c in range(2, T + 2):               # the columns of the simulated periods 1 .. T
            a, b = base[q, c], probe[q, c]
            if not (np.isfinite(a) and np.isfinite(b)) or a == b:
                continue
            if logly.get(q):
                if not (a > 0 and b > 0):
                    return None
                d = math.log(b / a)
            else:
                d = b - a
            if abs(d) < 0.5 * step:
                continue
            j = int(round(d / step)) - 1
            if not (0 <= j < len(guess)) or out[j] is not None or abs(d - delta[j]) > 1e-9 * max(1.0, abs(a)):
                return None
            out[j] = (q2n[q], c - 1)
    return None if any(o is None for o in out) else out


def oracle_stacked_seq(model, pack, pts, rep, terminal, plan_case=None, sequences=(("G",),), fresh=True):
    """The stacked-time evaluator over SEQ_T periods with non-zero anticipated shocks, optionally under a plan that
    exogenizes one variable at one date and endogenizes the shock of its closing equation; for every sequence of
    evaluation points the SAME evaluator (a fresh one per sequence) is asked for residuals and Jacobian at every
    point in turn, and every answer is compared with the reference at that point."""
    res = rep.res
    T = SEQ_T
    lg = pack.islog
    names, base = _seq_table(pack, pts, T)
    for n in S.VARNAMES:
        if lg.get(n) and any(v <= 0 for v in base[n].values()):
            raise HarnessError("non-positive data for a log-variable")
    shocks = {s: {t: _shock_value(k, t) for t in range(1, T + 1)} for k, s in enumerate(TSHOCKS)}
    start = ir.ii(1)
    span = start >> start + T - 1
    db = ir.Databox()
    for n in names:
        db[n] = ir.Series(start=start - 2, values=tuple(base[n][t] for t in range(-1, T + MAX_LEAD + 1)))
    for s in TSHOCKS:
        db["ant_" + s] = ir.Series(start=start, values=tuple(shocks[s][t] for t in range(1, T + 1)))
    plan = None
    kind = exo = date = shock = None
    psig = dict(terminal=terminal, plan=None)
    if plan_case is not None:
        kind, exo, date = plan_case
        shock = SHOCK_OF[exo]
        plan = ir.SimulationPlan(model, span)
        if kind == "anticipated":
            plan.exogenize_anticipated(start + date - 1, exo)
            plan.endogenize_anticipated(start + date - 1, "ant_" + shock)
        else:
            plan.exogenize_unanticipated(start + date - 1, exo)
            plan.endogenize_unanticipated(start + date - 1, shock)
            extra = 0.045
            db[shock] = ir.Series(start=start + date - 1, values=(extra,))
            shocks[shock][date] += extra
        psig = dict(terminal=terminal, plan=kind)
    p_model = pts[0][1]["p"]
    eqs = pack.teqs
    ne = len(eqs)
    n2q = model.create_name_to_qid()

    def capture():
        cap = capture_stacked(model, db, span, terminal, plan=plan)
        if "eval_func" not in cap:
            rep.bad("stacked_not_captured", None, "simulate(stacked_time, terminal=%s, plan=%r) did not reach the solver"
                    % (terminal, plan_case), **psig)
            return None
        data = cap["args"][0]
        if cap["init"].shape != (len(names) * T,) or data.ndim != 2 or data.shape[1] != T + 2 + MAX_LEAD:
            rep.bad("stacked_shape", None, "guess %r data %r, expected %d unknowns and %d columns"
                    % (cap["init"].shape, data.shape, len(names) * T, T + 2 + MAX_LEAD), **psig)
            return None
        return cap

    cap = capture()
    if cap is None:
        return
    unknowns = identify_unknowns(cap, model, T)
    if unknowns is None:
        rep.bad("stacked_layout", None, "the unknowns of the solver could not be identified with entries of the data array",
                **psig)
        return
    # what the unknowns must be: every variable in every period, minus the exogenized point, plus the endogenized shock
    want = {(n, t) for n in names for t in range(1, T + 1)}
    shock_unknown = None
    if plan_case is not None:
        want.discard((exo, date))
        shock_unknown = (("ant_" + shock) if kind == "anticipated" else shock, date)
        want.add(shock_unknown)
    if set(unknowns) != want:
        rep.bad("stacked_unknowns", None, "unknowns %r, expected %r" % (sorted(set(unknowns) - want), sorted(want - set(unknowns))),
                **psig)
        return
    # column of (name, period); the endogenized shock is filed under the name of the shock in the equations
    col = {}
    for j, (n, t) in enumerate(unknowns):
        col[(shock, t) if (n, t) == shock_unknown else (n, t)] = j
    nu = len(unknowns)
    init = cap["init"]

    def point_table(label):
        tb = {n: dict(v) for n, v in base.items()}
        tb.update({s: dict(v) for s, v in shocks.items()})
        for n in S.VARNAMES:
            for t in range(1, T + 1):
                if (n, t) not in col:
                    continue                      # exogenized: stays at the data
                tb[n][t] = S.seq_point_value(label, base[n][t], bool(lg.get(n)))
        return tb

    def guess_of(tb):
        g = np.array(init, dtype=float)
        for (n, t), j in col.items():
            if n in TSHOCKS:
                continue                          # the shock unknown keeps the value it has in the data
            g[j] = math.log(tb[n][t]) if lg.get(n) else tb[n][t]
        return g

    g0 = guess_of(point_table("G"))
    if not np.allclose(init, g0, rtol=1e-12, atol=1e-12):
        rep.bad("stacked_layout", None, "initial guess is not the data at the identified unknowns", **psig)
        return
    for si, seq in enumerate(sequences):
        if fresh or si > 0:
            cap = capture()
            if cap is None:
                return
        data = cap["args"][0]
        term_zero = {}          # row -> was every terminal-column derivative of the row exactly zero so far / ever non-zero
        for ei, label in enumerate(seq):
            tb = point_table(label)
            guess = guess_of(tb)
            jac = cap["eval_jacob"](guess.copy(), data)
            jac = np.array(jac.toarray() if hasattr(jac, "toarray") else jac, dtype=float)
            func = np.array(cap["eval_func"](guess.copy(), data), dtype=float).ravel()
            esig = dict(psig, evaluation=ei, sequence="".join(seq))
            if func.shape != (ne * T,) or jac.shape != (ne * T, nu):
                rep.bad("stacked_shape", None, "func %r jacobian %r" % (func.shape, jac.shape), **esig)
                return
            if terminal == "first_order":
                for n in S.VARNAMES:
                    for k in range(1, MAX_LEAD + 1):
                        tb[n][T + k] = float(data[n2q[n], T + k + 1])

            def get(name, t, tb=tb):
                if t is None:
                    return p_model
                return tb[name].get(t, 0.0) if name in tb else 0.0

            # reference rows first: which rows are admissible at this point, which read a terminal value
            rows = []
            for t in range(1, T + 1):
                for r, eq in enumerate(eqs):
                    kind_, lhs, rhs, slot = eq
                    if slot is not None:
                        try:
                            S.check_value(rhs, get, t)
                        except (S.Inadmissible, ValueError, OverflowError, ZeroDivisionError):
                            res.exclude("stacked_seq_point_inadmissible:" + label)
                            continue
                    try:
                        resid, d = eq_ref(eq, get, t)
                    except S.Inadmissible:
                        res.exclude("stacked_seq_point_inadmissible:" + label)
                        continue
                    rows.append((t, r, eq, resid, d))
            need_fd = terminal == "first_order" and any(t + s > T for t, r, eq, resid, d in rows for _, s in d)
            if need_fd:
                directions = []
                for t in range(1, T + 1):
                    for n in S.VARNAMES + TSHOCKS:
                        if (n, t) in col:
                            e = np.zeros(nu)
                            e[col[(n, t)]] = 1.0
                            directions.append(e)
                    e = np.zeros(nu)
                    for k, v in enumerate(pack.vnames):
                        e[col[(v, t)]] = 1.0 + 0.1 * k
                    directions.append(e)
                fdq = []
                for e in directions:
                    def fh(h, e=e):
                        return np.array(cap["eval_func"](guess + h * e, data), dtype=float).ravel()
                    fdq.append(E.richardson(fh, 0.0, h=2e-4))
                cap["eval_func"](guess.copy(), data)
                D = np.array(directions).T
                FD = np.array(fdq).T
            for t, r, eq, resid, d in rows:
                kind_, lhs, rhs, slot = eq
                user = uses_user(rhs)
                row = (t - 1) * ne + r
                res.ev()
                if not abs(func[row] - resid) <= 1e-10 * max(1.0, abs(resid), abs(get(lhs, t))):
                    rep.bad("stacked_func", eq, "eval_func row %d (period %d) = %r, reference residual %r (logs %s, terminal %s, "
                            "plan %r, point %s of %s)" % (row, t, func[row], resid, pack.bits, terminal, plan_case, label, "".join(seq)),
                            **esig)
                    continue
                exp = np.zeros(nu)
                mag = np.zeros(nu)
                tz = True
                for (n, s), (dv, mg) in d.items():
                    if t + s > T and n in S.VARNAMES and dv != 0.0:
                        tz = False
                    c = col.get((n, t + s))
                    if c is None:
                        continue
                    vf = get(n, t + s) if lg.get(n) else 1.0
                    exp[c] += dv * vf
                    mag[c] += mg * abs(vf)
                res.count("entries_d", nu)
                reads = terminal == "first_order" and any(t + s > T for _, s in d)
                sig = None
                if not reads:
                    badc = np.nonzero(~(np.abs(jac[row] - exp) <= _tolvec(exp, mag, user)))[0]
                    if len(badc):
                        c = int(badc[0])
                        sig = (unknowns[c], jac[row, c], exp[c], "analytic")
                else:
                    # the terminal-column derivatives of this row at this evaluation vs. earlier ones on this evaluator
                    was = term_zero.get(row)
                    if was is not None and was != tz:
                        res.count("rows_terminal_zero_then_nonzero" if was else "rows_terminal_nonzero_then_zero")
                        res.cls("zero_flip_trees", (rep.ids[slot] if (rep.ids and slot is not None) else E.render(rhs)))
                    term_zero[row] = tz
                    scale = max(1.0, float(np.max(np.abs(FD[row]))), float(np.max(mag)))
                    jd = jac[row] @ D
                    badd = np.nonzero(~(np.abs(jd - FD[row]) <= 2e-5 * scale))[0]
                    res.count("rows_terminal_fd_d")
                    if len(badd):
                        k = int(badd[0])
                        c = int(np.argmax(np.abs(directions[k])))
                        sig = (unknowns[c], jd[k], FD[row, k], "difference quotient of eval_func")
                if ei > 0:
                    res.count("rows_revisited")
                if plan_case is not None:
                    res.count("rows_under_plan")
                    if any(n == exo and t + s > date for (n, s) in d if s > 0):
                        res.count("rows_lead_of_exogenized_after_its_date")
                if sig is not None:
                    (n, tt), gotv, refv, how = sig
                    detail = ("eval_jacob[row %d (period %d), %s at period %d] = %r, reference (%s) %r (logs %s, terminal %s, "
                              "plan %r, point %s = evaluation %d of %s on one evaluator)"
                              % (row, t, n, tt, float(gotv), how, float(refv), pack.bits, terminal, plan_case, label, ei + 1,
                                 "".join(seq)))
                    rep.bad("stacked_jacobian", eq, detail, wrt_log=bool(lg.get(n)), last_period=bool(t == T), reference=how,
                            case_extra={"plan_case": list(plan_case) if plan_case is not None else None, "terminal": terminal},
                            **esig)


# ---------------------------------------------------------------------------
# running one pack
# ---------------------------------------------------------------------------
def build(pack):
    return ir.Simultaneous.from_string(pack.source(), context=dict(CONTEXT))


_SKIPPED = "skipped"
STAGES = ("a", "b_nonflat", "c_data", "c_first_order", "b_flat")
SEQ_STAGES = ("d_revisit", "d_plan")
STAGE_NAMES = {"a": "systemize", "b_nonflat": "steady_nonflat", "c_data": "stacked_terminal_data",
               "c_first_order": "stacked_terminal_first_order", "b_flat": "steady_flat",
               "d_revisit": "stacked_revisited", "d_plan": "stacked_under_plan"}


def run_pack(trees, bits, pts_idx, seed, res, shared=None, ids=None, stages=STAGES, count=True, only=None):
    """Run the requested oracle stages on one pack.  Returns {stage: None | exception raised by the implementation}
    (the caller bisects the stages that raised).  only: (plan case, terminal) to restrict stage d_plan to (replay)."""
    pack = Pack(trees, bits)
    pts = [(ci, S.point(ci, seed)) for ci in pts_idx]
    rep = Reporter(res, pack, pts_idx, seed, ids)
    refs = Refs(pack, ids, {} if shared is None else shared)
    rows_ok = set(range(len(pack.trees)))       # a pack only holds trees admissible at all its points
    out = {}
    try:
        model = build(pack)
    except Exception as e:
        return {st: e for st in stages}
    for st in stages:
        rep.stage = st
        try:
            model.assign(**pack.assignment(pts[0][1]))
            if st == "a":
                for ci, pt in pts:
                    model.assign(**pack.assignment(pt))
                    oracle_systemize(model, pack, pt, ci, rep, refs, rows_ok)
            elif st == "b_nonflat":
                oracle_steady(model, pack, pts, rep, refs, flat=False)
            elif st == "b_flat":
                oracle_steady(model, pack, pts, rep, refs, flat=True)
            elif st == "c_data":
                oracle_stacked(model, pack, pts, rep, refs, "data")
            elif st in ("c_first_order",) + SEQ_STAGES:
                try:
                    with contextlib.redirect_stdout(io.StringIO()):
                        model.solve()
                except Exception as e:
                    # no first-order solution at the assigned point: nothing to terminate with (not a rejection)
                    res.count("first_order_solution_failed:" + type(e).__name__)
                    out[st] = _SKIPPED
                    continue
                if st == "c_first_order":
                    oracle_stacked(model, pack, pts, rep, refs, "first_order")
                elif st == "d_revisit":
                    # one evaluator asked at a sequence of points, a fresh evaluator for every sequence
                    oracle_stacked_seq(model, pack, pts, rep, "first_order", None, SEQUENCES, fresh=True)
                    res.count("revisit_sessions", len(SEQUENCES))
                else:
                    for pc in plan_cases():
                        for terminal in ("data", "first_order"):
                            if only is not None and only != (pc, terminal):
                                continue
                            oracle_stacked_seq(model, pack, pts, rep, terminal, pc, (("G",),), fresh=False)
                            res.count("plan_cases_run")
                            res.cls("plan_cases", (pc, terminal))
            out[st] = None
        except HarnessError:
            raise
        except Exception as e:
            out[st] = e
    if count:
        for st in stages:
            if out[st] is None:
                res.count("accepted_trees:" + STAGE_NAMES[st], len(pack.trees))
        if "a" in stages and out["a"] is None:
            for k, tr in enumerate(pack.trees):
                for op in sorted(S.opkinds(tr)) or ["leaf"]:
                    res.count("accepted_with:" + op)
                    res.cls("accepted_ops", op)
                if S.has_var(tr):
                    res.nt(("acc", ids[k] if ids else E.render(tr), bits))
    return out


def run_group(items, bits, pts_idx, seed, res, shared, stages):
    """items: list of (tree id, tree).  Runs them as one pack; the stages in which the implementation raises are
    bisected down to single trees.  A single tree whose model raises is a tree rejected in that stage.
    Returns the number of trees accepted by systemize()."""
    trees = [t for _, t in items]
    ids = [i for i, _ in items]
    out = run_pack(trees, bits, pts_idx, seed, res, shared=shared, ids=ids, stages=stages)
    failed = tuple(st for st in stages if out[st] is not None and out[st] is not _SKIPPED)
    n_ok = len(items) if ("a" in stages and out["a"] is None) else 0
    if not failed:
        return n_ok
    if len(items) == 1:
        tr = trees[0]
        for st in failed:
            exc = out[st]
            if st == "a":
                for op in sorted(S.opkinds(tr)) or ["leaf"]:
                    res.count("rejected_with:" + op)
                    res.cls("rejected_ops", op)
            res.count("rejected_trees:" + STAGE_NAMES[st])
            res.cls("reject_errors", "%s: %s: %s" % (STAGE_NAMES[st], type(exc).__name__, str(exc)[:60]))
            res.ev()
        return n_ok
    res.count("packs_bisected")
    h = len(items) // 2
    return n_ok + (run_group(items[:h], bits, pts_idx, seed, res, shared, failed)
                   + run_group(items[h:], bits, pts_idx, seed, res, shared, failed))


# ---------------------------------------------------------------------------
# shards
# ---------------------------------------------------------------------------
def _quiet():
    import warnings
    np.seterr(all="ignore")
    warnings.showwarning = lambda *a, **k: None


def shard_trees(item, res, ctx):
    """one block of trees of one family x all 16 log-status assignments.
    item = (family, lo, hi, deep_logs, suspects, pack, (revisit_logs, plan_logs)): deep_logs = log assignments that
    also get oracles (b), (c); revisit_logs / plan_logs = log assignments that also get the two stages of oracle (d)
    (one evaluator asked at a sequence of points / the evaluator under every plan of plan_cases());
    suspects = "own" | "zero" (which assignments a tree of a shape expected to be rejected is probed under first)."""
    family, lo, hi, deep_logs, suspects, pack_size = item[:6]
    revisit_logs, plan_logs = (tuple(item[6][0]), tuple(item[6][1])) if len(item) > 6 else ((), ())

    def stages_for(bits):
        return ((STAGES if bits in deep_logs else STAGES[:1]) + (SEQ_STAGES[:1] if bits in revisit_logs else ())
                + (SEQ_STAGES[1:] if bits in plan_logs else ()))
    _quiet()
    seed = ctx.seed
    pts = [S.point(c, seed) for c in range(S.NPTS)]
    order = [(c + seed) % S.NPTS for c in range(S.NPTS)]
    trees = [((family, i), S.family_tree(family, i)) for i in range(lo, hi)]
    masks = {}
    for tid, tr in trees:
        masks[tid] = [c for c in order if S.admissible(tr, pts[c])]
        if not masks[tid]:
            res.exclude("tree_without_admissible_point")
    shared = {}
    pos = {bits: {c for c in range(S.NPTS) if S.positive_ok(pts[c], logs_dict(bits))} for bits in ALL_LOGS}

    def usable(tid, bits):
        return tuple([c for c in masks[tid] if c in pos[bits]][:3])

    def single(tid, tr, bits):
        u = usable(tid, bits)
        if not u:
            res.exclude("no_admissible_point_for_log_assignment")
            return 0
        return run_group([(tid, tr)], bits, u, seed, res, shared, stages_for(bits))

    # trees of shapes expected to be rejected: one model per tree, first under every log-status assignment of the
    # variables the tree contains, the others non-log ("own"; "zero": only the all-non-log assignment); if any of
    # those is accepted, under all 16
    for tid, tr in trees:
        if not masks[tid] or not suspect(tr):
            continue
        own = {n for n, _ in E.occurrences(tr)} if suspects == "own" else set()
        first = [b for b in ALL_LOGS if all(x == "0" or n in own for x, n in zip(b, S.VARNAMES))]
        rest = [b for b in ALL_LOGS if b not in first]
        if sum(single(tid, tr, bits) for bits in first):
            for bits in rest:
                single(tid, tr, bits)
        else:
            res.count("expected_rejections_not_repeated_for_other_logs", len(rest))
    for bits in ALL_LOGS:
        groups = {}
        for tid, tr in trees:
            if not masks[tid] or suspect(tr):
                continue
            u = usable(tid, bits)
            if not u:
                res.exclude("no_admissible_point_for_log_assignment")
                continue
            groups.setdefault(u, []).append((tid, tr))
        for u, items in sorted(groups.items()):
            res.cls("point_sets", u)
            for k in range(0, len(items), pack_size):
                run_group(items[k:k + pack_size], bits, u, seed, res, shared, stages_for(bits))
    if lo == 0:
        res.sample({"family": family, "first_tree": E.render(trees[0][1]), "last_tree": E.render(trees[-1][1]),
                    "trees_in_block": hi - lo, "log_assignments": 16, "log_assignments_with_steady_and_stacked_oracles": len(deep_logs)})


SOME_LOGS = ("0000", "1111", "0101", "1010")
REVISIT_LOGS = SOME_LOGS + ("1000", "0100", "0010", "0001")
PLAN_LOGS = ("0101", "1010")    # every variable is exogenized once as a log-variable and once as a non-log variable
ZERO_LOGS = ("0000",)       # no log-variable among x, y, z, w: the point Z of oracle (d) has the most exact zeros
# vacuity floors: about half of what the unchanged tree measures (seed 0)
# oracle (d): about half of the smallest of seeds 0, 1, 2 in the quick tier; the thorough tier runs a superset of these stages, so the same numbers are (loose)
# lower bounds there
SEQ_FLOORS = {"entries_d": 7000000, "rows_revisited": 40000, "rows_terminal_fd_d": 10000, "revisit_sessions": 400,
              "rows_terminal_zero_then_nonzero": 150, "rows_terminal_nonzero_then_zero": 75,
              "plan_cases_run": 700, "rows_under_plan": 44000, "rows_lead_of_exogenized_after_its_date": 2500,
              "accepted_trees:stacked_revisited": 2600, "accepted_trees:stacked_under_plan": 370}
SEQ_CLASS_FLOORS = {"zero_flip_trees": 45, "plan_cases": 32}     # plan_cases: all 16 plans x 2 terminals must have run
FLOORS = {
    "quick": dict(nontrivial=15000, entries_a=300000, entries_b=5000000, entries_c=4000000, rows_terminal_fd=2500,
                  stage_a=21000, stage_deep=7500, seq=SEQ_FLOORS,
                  ops={"+": 2800, "-": 2700, "*": 2800, "/": 2800, "^const": 1100, "log": 3100, "exp": 3300, "sqrt": 3100}),
    "thorough": dict(nontrivial=1200000, entries_a=17000000, entries_b=190000000, entries_c=160000000, rows_terminal_fd=120000,
                     stage_a=1250000, stage_deep=290000, seq=SEQ_FLOORS,
                     ops={"+": 400000, "-": 390000, "*": 400000, "/": 400000, "^const": 26000, "log": 66000, "exp": 66000, "sqrt": 66000}),
}


def plan_for(ctx):
    """(family, block size, log assignments that get oracles (b) and (c), suspects policy, pack size,
    (log assignments that get oracle (d) 'revisited', log assignments that get oracle (d) 'under a plan'))"""
    if ctx.quick:
        return [("D12", 66, ALL_LOGS, "own", PACK, (REVISIT_LOGS, PLAN_LOGS)), ("D3U", 65, SOME_LOGS, "own", PACK, (ZERO_LOGS, ()))]
    return [("D12", 66, ALL_LOGS, "own", PACK, (ALL_LOGS, ALL_LOGS)), ("D3U", 195, ALL_LOGS, "own", PACK, (SOME_LOGS, SOME_LOGS)),
            ("D3L", 196, ALL_LOGS, "own", PACK, (ZERO_LOGS, ())), ("D3R", 196, ALL_LOGS, "own", PACK, (ZERO_LOGS, ())),
            ("D3V", 656, (), "zero", 2 * PACK, ((), ()))]


def run(ctx, total, info):
    os.makedirs("/verif/.work", exist_ok=True)
    plan = plan_for(ctx)
    shards = []
    for family, block, deep_logs, suspects, pack_size, seq_logs in plan:
        n = S.family_size(family)
        for lo in range(0, n, block):
            shards.append((family, lo, min(n, lo + block), tuple(deep_logs), suspects, pack_size,
                           (tuple(seq_logs[0]), tuple(seq_logs[1]))))
    shards.sort(key=lambda s: -(s[2] - s[1]) * (1 + len(s[3]) + len(s[6][0]) + 5 * len(s[6][1])))
    engine.run_shards(__name__, "shard_trees", shards, ctx, total)
    c = total.counters
    info["families"] = {f: {"trees": S.family_size(f), "log_assignments_systemize": 16,
                            "log_assignments_steady_and_stacked": len(dl),
                            "log_assignments_stacked_revisited": len(sl[0]),
                            "log_assignments_stacked_under_plan": len(sl[1])} for f, _, dl, _, _, sl in plan}
    info["candidate_points"] = S.NPTS
    info["rejected_by_implementation"] = {k.split(":", 1)[1]: v for k, v in sorted(c.items()) if k.startswith("rejected_with:")}
    info["accepted"] = {k.split(":", 1)[1]: v for k, v in sorted(c.items()) if k.startswith("accepted_with:")}
    info["exhaustive"] = True
    fl = FLOORS[ctx.tier]
    floors = {"nontrivial_tree_x_logs": (len(total.nontrivial), fl["nontrivial"]),
              "entries_systemize": (c.get("entries_a", 0), fl["entries_a"]),
              "entries_steady": (c.get("entries_b", 0), fl["entries_b"]),
              "entries_stacked": (c.get("entries_c", 0), fl["entries_c"]),
              "rows_terminal_fd": (c.get("rows_terminal_fd", 0), fl["rows_terminal_fd"])}
    for op, v in fl["ops"].items():
        floors["accepted_with:" + op] = (c.get("accepted_with:" + op, 0), v)
    for st in STAGES:
        k = "accepted_trees:" + STAGE_NAMES[st]
        floors[k] = (c.get(k, 0), fl["stage_a"] if st == "a" else fl["stage_deep"])
    for k, v in fl["seq"].items():
        floors[k] = (c.get(k, 0), v)
    for k, v in SEQ_CLASS_FLOORS.items():
        floors["distinct:" + k] = (len(total.classes.get(k, ())), v)
    info["plans"] = {"cases": len(plan_cases()), "terminals": ["data", "first_order"], "periods": SEQ_T,
                     "evaluation_sequences": ["".join(q) for q in SEQUENCES]}
    info["floors"] = floors


def replay(case):
    """re-run the pack of one stored violation (the stage it was found in) and report the violations with the same
    signature and equation"""
    res = engine.Result()
    _quiet()
    trees = [totuple(t) for t in case["trees"]]
    stages = (case["stage"],) if case.get("stage") in STAGES + SEQ_STAGES else STAGES
    only = None
    if case.get("plan_case") is not None and case.get("terminal") is not None:     # stage d_plan: that plan only
        kind, name, date = case["plan_case"]
        only = ((str(kind), str(name), int(date)), str(case["terminal"]))
    with contextlib.redirect_stdout(io.StringIO()):
        excs = run_pack(trees, case["logs"], tuple(case["points"]), int(case.get("seed", 0)), res, stages=stages, count=False,
                        only=only)
    want = case.get("signature")
    out = ["%s %s :: %s :: %s" % (v["check"], engine.sigkey(v["signature"]), v["case"].get("equation"), v["detail"])
           for v in res.violations
           if want is None or (v["signature"] == want and v["case"].get("slot") == case.get("slot"))]
    for st, exc in excs.items():
        if exc is not None and exc is not _SKIPPED:
            print("note: stage %s raised %s: %s (a rejection, allowed by the property)" % (STAGE_NAMES[st], type(exc).__name__, exc))
    return out
