"""C06 — nonlinear simulations satisfy the equations; match first order when linear.

Enumeration: 9 generated models (non-linear backward-looking in level and log form, two
lags, exogenous variable, Euler-type with a lead, three linear models with leads) x input
patterns (every single shock / anticipated shock at dates 1..3, exogenous path, initial
condition; all pairs) x span length x method x terminal x initial_guess.  Oracle: the
harness's own expression trees (ref/expr) evaluated on each frame's own path.
"""
import contextlib
import io
import itertools

import numpy as np
import irispie as ir

from mc import engine
from ref import expr as E

PROPERTY = "C06"
LEVEL = "exploration"
RULE = ("models x input patterns with at most 2 non-zero inputs (thorough: all pairs, and all triples of a sub-basis) (shock i unanticipated/anticipated at date 1..3, exogenous "
        "path, initial-condition cell) x span length {1,2,4,6} x method {stacked_time, period_by_period for backward-looking} "
        "x terminal {first_order, data} x initial_guess {first_order, data}; distinct non-trivial = (model, inputs, "
        "length, method, terminal, guess) for runs that report success")
MANIFEST_ENTRY = dict(level="exploration", design="DESIGN.md section 4 / C06",
    technique="bounded-exhaustive enumeration of generated non-linear/linear models x input patterns (deviation bound 2) x solver configurations; frame-wise residual substitution into the harness's own expression trees, first-order differential on linear models",
    text="For 9 generated models every input pattern with <= 2 non-zero inputs over dates 1..3 (quick: all singles + listed pairs; thorough: all pairs) x span lengths {1,2,4,6} x methods x terminal x initial_guess is simulated; for every run that reports success and for EACH frame (information set) every transition equation, evaluated by the harness's own expression trees on that frame's path, holds in every simulated column (leads beyond the span read from the terminal condition in force: first-order continuation of the returned end state, or the input data); the final databox equals the last frame covering each date; shocks, exogenous variables, initial conditions and measurement variables are returned unchanged; on linear models the result equals the first-order simulation of the same inputs; a two-variant model equals the two single-variant models; models with the same equation text but different user context functions, simulated back to back in one process, each satisfy their own equations.",
    note="Trusted: ref/expr evaluator; the first-order simulator for terminal continuation and the linear differential (C01). Runs that report failure (exception) are counted, not gated; every model must succeed on the zero-input case (floor).")
ASSUMPTIONS = ["the first-order simulator is correct (C01)"]

START = ir.qq(2020, 1)


def V(n, s=0):
    return ("var", n, s)


def Pm(n):
    return ("par", n)


def num(c):
    return ("num", c)


def models():
    """each: dict(name, vars, log, shocks, exog, params, eqs=[(lhs, rhs)], linear, guess)"""
    M = []
    # 1. non-linear backward-looking AR in levels
    M.append(dict(name="nl_ar_level", vars=["x"], log=[], shocks=["e"], exog=[], params={"a": 0.6, "b": 0.8, "c": 0.5},
                  eqs=[(V("x"), ("+", ("+", ("*", Pm("a"), ("^", V("x", -1), Pm("b"))), Pm("c")), V("e")))], linear=False, guess={"x": 1.2}))
    # 2. log-variable AR towards a parameterised level
    M.append(dict(name="nl_ar_log", vars=["x"], log=["x"], shocks=["e"], exog=[], params={"rho": 0.7, "xbar": 2.0},
                  eqs=[(V("x"), ("*", ("*", ("^", V("x", -1), Pm("rho")), ("^", Pm("xbar"), ("-", num(1), Pm("rho")))), ("fn", "exp", V("e"))))],
                  linear=False, guess={"x": 2.0}))
    # 3. two variables, two lags, product term
    M.append(dict(name="nl_two_lags", vars=["x", "y"], log=[], shocks=["e", "u"], exog=[], params={"a": 0.5, "b": 0.2, "c": 0.3},
                  eqs=[(V("x"), ("+", ("+", ("+", ("*", Pm("a"), V("x", -1)), ("*", Pm("b"), V("x", -2))), num(0.3)), V("e"))),
                       (V("y"), ("+", ("+", ("*", Pm("c"), ("*", V("y", -1), V("x"))), num(0.4)), V("u")))], linear=False, guess={"x": 1.0, "y": 0.6}))
    # 4. exogenous variable
    M.append(dict(name="nl_exogenous", vars=["x"], log=[], shocks=["e"], exog=["z"], params={"a": 0.5},
                  eqs=[(V("x"), ("+", ("+", ("*", Pm("a"), V("x", -1)), ("fn", "sqrt", ("+", num(1), ("*", V("z"), V("z"))))), V("e")))],
                  linear=False, guess={"x": 2.0, "z": 0.0}))
    # 5. Euler-type growth model with a lead (log variables)
    M.append(dict(name="nl_euler", vars=["c", "k"], log=["c", "k"], shocks=["e"], exog=[], params={"alpha": 0.3, "beta": 0.95, "delta": 0.1},
                  eqs=[(("/", num(1), V("c")), ("*", ("/", Pm("beta"), V("c", 1)), ("+", ("*", Pm("alpha"), ("^", V("k"), ("-", Pm("alpha"), num(1)))), ("-", num(1), Pm("delta"))))),
                       (V("k"), ("-", ("+", ("*", ("fn", "exp", V("e")), ("^", V("k", -1), Pm("alpha"))), ("*", ("-", num(1), Pm("delta")), V("k", -1))), V("c")))],
                  linear=False, guess={"c": 1.0, "k": 3.0}))
    # 6. forward-looking non-linear single equation
    M.append(dict(name="nl_forward", vars=["p"], log=[], shocks=["e"], exog=[], params={"a": 0.4, "b": 0.3},
                  eqs=[(V("p"), ("+", ("+", ("+", ("*", Pm("a"), V("p", -1)), ("*", Pm("b"), ("fn", "log", ("+", num(1), ("fn", "exp", V("p", 1)))))), num(0.1)), V("e")))],
                  linear=False, guess={"p": 0.5}))
    # 7-9. linear models with leads
    M.append(dict(name="lin_nk", vars=["y", "pi", "r"], log=[], shocks=["ey", "epi", "er"], exog=[], params={"a": 0.6, "b": 0.3, "k": 0.1, "rho": 0.7, "phi": 2.0, "ssr": 1.0},
                  eqs=[(V("y"), ("+", ("-", ("+", ("*", Pm("a"), V("y", -1)), ("*", ("-", num(1), Pm("a")), V("y", 1))), ("*", Pm("b"), ("-", ("-", V("r"), V("pi", 1)), Pm("ssr")))), V("ey"))),
                       (V("pi"), ("+", ("+", ("+", ("*", num(0.5), V("pi", -1)), ("*", num(0.45), V("pi", 1))), ("*", Pm("k"), V("y"))), V("epi"))),
                       (V("r"), ("+", ("+", ("*", Pm("rho"), V("r", -1)), ("*", ("-", num(1), Pm("rho")), ("+", Pm("ssr"), ("*", Pm("phi"), V("pi", 1))))), V("er")))],
                  linear=True, guess={}))
    M.append(dict(name="lin_lead2", vars=["x"], log=[], shocks=["e"], exog=[], params={"a": 0.5, "b": 0.2},
                  eqs=[(V("x"), ("+", ("+", ("+", ("+", ("*", Pm("a"), V("x", -1)), ("*", Pm("b"), V("x", 1))), ("*", num(0.1), V("x", 2))), num(0.3)), V("e")))],
                  linear=True, guess={}))
    M.append(dict(name="lin_backward", vars=["x", "y"], log=[], shocks=["e", "u"], exog=[], params={"a": 0.7},
                  eqs=[(V("x"), ("+", ("+", ("*", Pm("a"), V("x", -1)), num(0.3)), V("e"))),
                       (V("y"), ("+", ("+", ("*", num(0.4), V("y", -1)), ("*", num(0.5), V("x", -1))), V("u")))],
                  linear=True, guess={}))
    # 10. a lead together with a log-variable that occurs at lag 2 (its lag sits in the state vector of the
    #     first-order terminal condition)
    M.append(dict(name="nl_lead_loglag2", vars=["x", "a"], log=["a"], shocks=["u", "e"], exog=[], params={"beta": 0.6, "abar": 1.5, "r1": 0.5, "r2": 0.2},
                  eqs=[(V("x"), ("+", ("-", ("+", ("*", Pm("beta"), V("x", 1)), ("fn", "log", V("a"))), ("fn", "log", Pm("abar"))), V("u"))),
                       (V("a"), ("*", ("*", ("*", ("^", Pm("abar"), ("-", ("-", num(1), Pm("r1")), Pm("r2"))), ("^", V("a", -1), Pm("r1"))), ("^", V("a", -2), Pm("r2"))), ("fn", "exp", V("e"))))],
                  linear=False, guess={"x": 0.0, "a": 1.5}))
    # 11. an equation whose left-hand side is bounded (x/(1+x^2) <= 1/2): a large shock leaves a period without
    #     any solution while later periods are solvable again - a run either reports failure or satisfies the equations
    M.append(dict(name="nl_bounded", vars=["k", "x"], log=[], shocks=["e"], exog=[], params={"rho": 0.3},
                  eqs=[(V("k"), ("+", ("*", Pm("rho"), V("k", -1)), V("e"))),
                       (("/", V("x"), ("+", num(1), ("*", V("x"), V("x")))), ("+", ("+", num(0.3), V("k")), ("*", num(0.1), ("-", V("x", -1), num(1.0 / 3.0)))))],
                  linear=False, guess={"k": 0.0, "x": 1.0 / 3.0},
                  extra_singles=[("u", "e", 2, 0.5), ("u", "e", 3, -0.5), ("u", "e", 1, 0.5)]))
    # 12. longest lead 2 with TWO current-dated variables: the first-order terminal condition is a genuine
    #     (variables x leads) block, not a single row or a single column (round-8 seed C06_m)
    M.append(dict(name="lin_lead2_two", vars=["x", "y"], log=[], shocks=["e", "u"], exog=[], params={"a": 0.6, "b": 0.3, "c": 0.5},
                  eqs=[(V("x"), ("+", ("+", ("+", ("*", Pm("a"), V("x", -1)), ("*", Pm("b"), V("y", 2))), num(0.1)), V("e"))),
                       (V("y"), ("+", ("+", ("+", ("*", Pm("c"), V("y", -1)), ("*", num(0.2), V("x"))), num(0.2)), V("u")))],
                  linear=True, guess={}))
    for md in M:
        md["measurement"] = True
    return M


def source(md):
    L = ["!transition-variables", "    " + ", ".join(md["vars"])]
    if md["log"]:
        L += ["!log-variables", "    " + ", ".join(md["log"])]
    L += ["!transition-shocks", "    " + ", ".join(md["shocks"])]
    if md["exog"]:
        L += ["!exogenous-variables", "    " + ", ".join(md["exog"])]
    L += ["!parameters", "    " + ", ".join(md["params"])]
    L += ["!transition-equations"]
    for lhs, rhs in md["eqs"]:
        L.append("    %s = %s;" % (E.render(lhs), E.render(rhs)))
    # a measurement variable that the non-linear methods must leave alone
    L += ["!measurement-variables", "    obs", "!measurement-equations", "    obs = %s;" % md["vars"][0]]
    return "\n".join(L) + "\n"


def build(md):
    with contextlib.redirect_stdout(io.StringIO()):
        m = ir.Simultaneous.from_string(source(md), linear=md["linear"], flat=True)
        m.assign(**md["params"])
        if md["guess"]:
            m.assign(**md["guess"])
        m.steady()
        m.solve()
    return m


def max_lag(md):
    return max([0] + [-s for lhs, rhs in md["eqs"] for tr in (lhs, rhs) for (_, s) in E.occurrences(tr) if s < 0])


def max_lead(md):
    return max([0] + [s for lhs, rhs in md["eqs"] for tr in (lhs, rhs) for (_, s) in E.occurrences(tr) if s > 0])


def input_singles(md):
    out = []
    amp = 0.05
    for i, s in enumerate(md["shocks"]):
        for d in (1, 2, 3):
            out.append(("u", s, d, amp * (1 + 0.5 * i)))
            out.append(("a", s, d, -amp * (1 + 0.3 * d)))
    for z in md["exog"]:
        out.append(("z", z, 2, 0.4))
        out.append(("z", z, 0, 0.3))        # d == 0: the whole path
    for v in md["vars"]:
        out.append(("x", v, 1, 0.06))
    out += list(md.get("extra_singles", ()))
    # missing values in cells that are NOT unknowns of the simulation: the measurement variable unobserved in a period
    # (must come back as it went in), a hole in an exogenous path (the run must not report success with an invented value)
    out.append(("o", "obs", 2, float("nan")))
    for z in md["exog"]:
        out.append(("zn", z, 2, float("nan")))
    return out


def forced_patterns(md):
    """input patterns that are always run: two different transition shocks hit in the same later period with values
    that cancel exactly (+a and -a)"""
    if len(md["shocks"]) < 2:
        return []
    s0, s1 = md["shocks"][:2]
    return [(("u", s0, 3, 0.1), ("u", s1, 3, -0.1)), (("u", s0, 2, 0.05), ("u", s1, 2, -0.05), ("a", s0, 3, 0.04))]


def residuals(md, get, t):
    params = md["params"]

    def g(n, tt):
        if tt is None:
            return params[n]
        if n in md["shocks"]:
            return get(n, tt) + get("ant_" + n, tt)
        return get(n, tt)
    return [E.ev(rhs, g, t) - E.ev(lhs, g, t) for lhs, rhs in md["eqs"]]


def run_case(md, m, inputs, n_per, method, terminal, guess, res, fo_cache=None):
    name = md["name"]
    L, F = max_lag(md), max_lead(md)
    span = START >> (START + n_per - 1)
    case = {"model": name, "inputs": [list(i) for i in inputs], "n_per": n_per, "method": method, "terminal": terminal, "guess": guess}

    def bad(check, detail, **extra):
        sig = {"model": name, "method": method, "terminal": terminal, "guess": guess, "n_inputs": len(inputs)}
        sig.update({k: v for k, v in extra.items() if k in ("error", "what")})
        res.violation(check, sig, case, "%s %s/%s/%s N=%d inputs=%r: %s" % (name, method, terminal, guess, n_per, inputs, detail))
    ext = START >> (START + n_per - 1 + F + 2)
    db = ir.Databox.steady(m, ext)
    for (kind, n_, d, a) in inputs:
        if d > n_per and kind in "ua":
            return None
        if kind == "u":
            db[n_][START + d - 1] = a
        elif kind == "a":
            db["ant_" + n_][START + d - 1] = a
        elif kind == "z":
            if d == 0:
                db[n_][START >> (START + n_per - 1)] = a
            elif d <= n_per:
                db[n_][START + d - 1] = a
        elif kind == "x":
            p = START - d
            db[n_][p] = db[n_].get_data(p)[0, 0] * (1 + a)
        elif kind in ("o", "zn"):
            if d > n_per:
                return None
            db[n_][START + d - 1] = float("nan")
    res.ev()
    kw = dict(method=method, return_info=True, remove_terminal=False)
    if method == "stacked_time":
        kw.update(terminal=terminal, initial_guess=guess)
    buf = io.StringIO()
    out = None
    # default solver settings first; the third-party Newton solver reports "cannot make further progress" when the
    # residual is already zero but the last step was not tiny, so a failed run is retried with the step criterion off
    for attempt, settings in enumerate((None, {"step_tolerance": float("inf")})):
        try:
            with contextlib.redirect_stdout(buf):
                out, info = m.simulate(db, span, **(kw if settings is None else dict(kw, solver_settings=settings)))
            res.count("success_default_settings" if attempt == 0 else "success_func_tolerance_only")
            break
        except Exception as e:
            msg = str(e)
            if "failed to complete" in msg or "Cannot make" in msg or "converge" in msg.lower():
                res.count("reported_failure_default_settings" if attempt == 0 else "reported_failure")
                continue
            if any(i_[0] == "zn" for i_ in inputs):
                # a hole in an exogenous path: any refusal to run is "does not report success"
                res.count("missing_exogenous_input_refused")
                return None
            bad("exception", "%s: %s" % (type(e).__name__, msg[:300]), error=type(e).__name__)
            return None
    if out is None:
        return None
    res.count("success_" + method)
    res.nt((name, tuple(inputs), n_per, method, terminal, guess))
    frames = info["frames"]
    fdbs = info["frame_databoxes"]
    res.cls("num_frames", (name, len(frames)))
    names_all = md["vars"] + md["shocks"] + ["ant_" + s for s in md["shocks"]] + md["exog"]
    lo, hi = -L, n_per - 1 + F

    def arr(box, n_):
        if n_ not in box:
            return np.zeros(hi - lo + 1)
        a = box[n_].get_data_from_until((START + lo, START + hi))[:, 0].astype(float)
        return np.nan_to_num(a) if (n_ in md["shocks"] or n_.startswith("ant_")) else a
    A_in = {n_: arr(db, n_) for n_ in names_all}
    A_out = {n_: arr(out, n_) for n_ in names_all}
    # ---- frame-wise residuals ----------------------------------------------------------------
    prev_path = A_in
    final_expected = {v: A_in[v].copy() for v in md["vars"]}
    for k, (fr, fdb) in enumerate(zip(frames, fdbs)):
        f0 = fr.start - START
        f1 = fr.simulation_end - START
        A = {n_: arr(fdb, n_) for n_ in names_all}
        # leads beyond the simulated columns: the terminal condition in force
        cont = None
        if F and method == "stacked_time":
            if terminal == "first_order":
                try:
                    db_c = fdb.copy()
                    # lags deeper than one period reach back before a one-period frame: the frame databox holds the
                    # frame's own span only, earlier periods come from the previous frames / the input
                    for v in md["vars"]:
                        pv = prev_path[v].copy()
                        pv[f0 - lo: f1 + 1 - lo] = A[v][f0 - lo: f1 + 1 - lo]
                        db_c[v] = ir.Series(start=START + lo, values=tuple(float(q) for q in pv[: f1 + 1 - lo]))
                    for s in md["shocks"]:
                        for nm in (s, "ant_" + s):
                            if nm in db_c:
                                db_c[nm][(START + f1 + 1) >> (START + f1 + F)] = 0.0
                    with contextlib.redirect_stdout(io.StringIO()):
                        c_ = m.simulate(db_c, (START + f1 + 1) >> (START + f1 + F), method="first_order")
                    cont = {v: c_[v].get_data_from_until((START + f1 + 1, START + f1 + F))[:, 0] for v in md["vars"]}
                except Exception as e:
                    bad("exception", "first-order continuation: %s: %s" % (type(e).__name__, str(e)[:200]), error=type(e).__name__)
                    return None
            else:
                cont = {v: A_in[v][f1 + 1 - lo: f1 + 1 - lo + F] for v in md["vars"]}

        def get(n_, t):
            if t > f1 and n_ in md["vars"]:
                if cont is None:
                    return np.nan
                return cont[n_][t - f1 - 1]
            if t < f0 and n_ in md["vars"]:
                return prev_path[n_][t - lo]      # lags before the frame: previous frame's path / input initial condition
            return A[n_][t - lo]
        worst, where = 0.0, None
        for t in range(f0, f1 + 1):
            r = residuals(md, get, t)
            for i, v in enumerate(r):
                if not (abs(v) <= worst):
                    worst, where = (abs(v) if v == v else np.inf), (i, t)
        scale = max(1.0, max(np.nanmax(np.abs(A[v])) for v in md["vars"]))
        if not (worst <= 1e-7 * scale):
            bad("equation_residual", "frame %d (%s): residual %.3e in equation %d at t=%d" % (k, fr, worst, where[0], where[1]), what="frame%d" % min(k, 1))
        # unanticipated shocks after the frame start are not known in this information set
        for s in md["shocks"]:
            if np.any(A[s][f0 + 1 - lo: f1 + 1 - lo] != 0):
                bad("future_surprise_visible", "frame %d sees unanticipated %s after its first period" % (k, s), what="pruning")
        for v in md["vars"]:
            final_expected[v][f0 - lo: f1 + 1 - lo] = A[v][f0 - lo: f1 + 1 - lo]
        prev_path = dict(prev_path)
        for v in md["vars"]:
            pv = prev_path[v].copy()
            pv[f0 - lo: f1 + 1 - lo] = A[v][f0 - lo: f1 + 1 - lo]
            prev_path[v] = pv
    # ---- final databox ------------------------------------------------------------------------------
    for v in md["vars"]:
        a, b = A_out[v][: n_per + L], final_expected[v][: n_per + L]
        if not np.allclose(a, b, rtol=1e-12, atol=1e-12, equal_nan=True):
            bad("final_databox", "%s: output %s, frames %s" % (v, np.round(a, 8).tolist(), np.round(b, 8).tolist()), what="final")
    for n_ in md["shocks"] + ["ant_" + s for s in md["shocks"]] + md["exog"]:
        if not np.allclose(A_out[n_][L: L + n_per], A_in[n_][L: L + n_per], rtol=0, atol=1e-13):
            bad("input_changed", "%s differs from its input" % n_, what="input")
    for v in md["vars"]:
        if not np.allclose(A_out[v][:L], A_in[v][:L], rtol=1e-13, atol=1e-13, equal_nan=True):
            bad("input_changed", "initial condition of %s changed" % v, what="initial")
    o_in = db["obs"].get_data_from_until((START, START + n_per - 1))[:, 0]
    o_out = out["obs"].get_data_from_until((START, START + n_per - 1))[:, 0] if "obs" in out else None
    if o_out is None or not np.allclose(o_in, o_out, rtol=1e-13, atol=1e-13, equal_nan=True):
        bad("measurement_changed", "measurement variable is not returned as it was input", what="measurement")
    # ---- linear models: equal to first order -------------------------------------------------------------
    if md["linear"] and (method != "stacked_time" or terminal == "first_order"):
        try:
            with contextlib.redirect_stdout(io.StringIO()):
                fo = m.simulate(db, span, method="first_order")
            res.ev()
            for v in md["vars"]:
                a = out[v].get_data_from_until((START, START + n_per - 1))[:, 0]
                b = fo[v].get_data_from_until((START, START + n_per - 1))[:, 0]
                if not np.allclose(a, b, rtol=1e-8, atol=1e-8):
                    bad("differs_from_first_order", "%s: %s vs first order %s" % (v, np.round(a, 8).tolist(), np.round(b, 8).tolist()), what="linear")
                    break
        except Exception as e:
            bad("exception", "first-order reference: %s: %s" % (type(e).__name__, str(e)[:200]), error=type(e).__name__)
    return True


def check_variants(md, m, res):
    """two variants (different parameter value, different shocks) through the non-linear simulators == the two
    single-variant models"""
    import copy
    pname = list(md["params"])[0]
    md_b = copy.deepcopy(md)
    md_b["params"][pname] = md["params"][pname] * 0.95
    m_b = build(md_b)
    with contextlib.redirect_stdout(io.StringIO()):
        m2 = m.copy()
        m2.alter_num_variants(2)
        m2.assign(**{pname: [md["params"][pname], md_b["params"][pname]]})
        m2.steady()
        m2.solve()
    n_per = 4
    span = START >> (START + n_per - 1)
    F = max_lead(md)
    ext = START >> (START + n_per - 1 + F + 2)
    shk = md["shocks"][0]
    methods = ["stacked_time"] + (["period_by_period"] if F == 0 else [])
    for method in methods:
        case = {"model": md["name"], "inputs": [["variants"]], "n_per": n_per, "method": method, "terminal": "first_order", "guess": "first_order"}

        def bad(check, detail, **extra):
            res.violation(check, {"model": md["name"], "method": method, "what": "variants"}, case, "%s %s variants: %s" % (md["name"], method, detail))
        try:
            dbs = [ir.Databox.steady(m, ext), ir.Databox.steady(m_b, ext)]
            dbs[0][shk][START] = 0.05
            dbs[1][shk][START + 1] = -0.04
            dbs[1]["ant_" + shk][START + 2] = 0.03
            kw = dict(method=method, solver_settings={"step_tolerance": float("inf")})
            with contextlib.redirect_stdout(io.StringIO()):
                outs = [m.simulate(dbs[0], span, **kw), m_b.simulate(dbs[1], span, **kw)]
                db2 = ir.Databox.steady(m2, ext)
                for n_ in (shk, "ant_" + shk):
                    cols = np.column_stack([np.nan_to_num(dbs[k][n_].get_data_from_until((START, START + n_per - 1))[:, 0]) if n_ in dbs[k] else np.zeros(n_per) for k in range(2)])
                    db2[n_] = ir.Series(start=START, values=cols)
                out2 = m2.simulate(db2, span, **kw)
            res.ev(3)
            res.nt((md["name"], "variants", method))
            res.count("variant_runs")
            for v in md["vars"]:
                a2 = out2[v].get_data_from_until((START, START + n_per - 1))
                for k in range(2):
                    col = a2[:, k] if a2.shape[1] > 1 else a2[:, 0]
                    b = outs[k][v].get_data_from_until((START, START + n_per - 1))[:, 0]
                    if not np.allclose(col, b, rtol=1e-7, atol=1e-8):
                        bad("variant_mismatch", "%s variant %d: two-variant run %s, single-variant model %s" % (v, k, np.round(col, 8).tolist(), np.round(b, 8).tolist()))
                        break
        except Exception as e:
            msg = str(e)
            if "failed to complete" in msg or "Cannot make" in msg:
                res.count("reported_failure")
                continue
            bad("exception", "%s: %s" % (type(e).__name__, msg[:300]))


CONTEXT_SRC = """
!transition-variables
    y, c
!transition-shocks
    e
!parameters
    a
!transition-equations
    y = a*y[-1] + 0.3 + e;
    c = resp(y) + 0.2*c[-1];
"""


def check_context_pair(res):
    """two models with the SAME equation text but different user functions in their contexts, simulated one after the
    other in one process: each must satisfy its own equations (state shared through the equation text would not)"""
    funcs = {"A": (lambda v: v), "B": (lambda v: v - 0.5 * (v - 1.0) ** 2), "C": (lambda v: 0.5 * v + 0.1 * v * v)}
    a = 0.6
    models_ = {}
    for k, fn in funcs.items():
        with contextlib.redirect_stdout(io.StringIO()):
            m = ir.Simultaneous.from_string(CONTEXT_SRC, context={"resp": fn}, flat=True)
            m.assign(a=a, y=0.75, c=0.9)
            m.steady()
            m.solve()
        models_[k] = m
    n_per = 4
    span = START >> (START + n_per - 1)
    for method in ("stacked_time", "period_by_period"):
        for order in (("A", "B", "C"), ("C", "A", "B")):
            for k in order:
                m, fn = models_[k], funcs[k]
                case = {"model": "context_pair_%s" % k, "inputs": [["context", list(order)]], "n_per": n_per, "method": method, "terminal": "first_order", "guess": "first_order"}
                res.ev()
                try:
                    db = ir.Databox.steady(m, START >> (START + n_per + 1))
                    db["e"][START] = 0.2
                    db["e"][START + 2] = -0.1
                    db["y"][START - 1] = db["y"].get_data(START - 1)[0, 0] * 1.2
                    with contextlib.redirect_stdout(io.StringIO()):
                        out = m.simulate(db, span, method=method, solver_settings={"step_tolerance": float("inf")})
                    yv = out["y"].get_data_from_until((START - 1, START + n_per - 1))[:, 0]
                    cv = out["c"].get_data_from_until((START - 1, START + n_per - 1))[:, 0]
                    ev = np.nan_to_num(out["e"].get_data_from_until((START - 1, START + n_per - 1))[:, 0])
                    r1 = yv[1:] - (a * yv[:-1] + 0.3 + ev[1:])
                    r2 = cv[1:] - (np.array([fn(v) for v in yv[1:]]) + 0.2 * cv[:-1])
                    res.nt(("context_pair", k, method, order))
                    res.count("context_pair_runs")
                    w = max(np.max(np.abs(r1)), np.max(np.abs(r2)))
                    if not (w <= 1e-7):
                        res.violation("equation_residual", {"model": "context_pair", "method": method, "what": "own_context_function"}, case,
                                      "model %s (simulated in the order %s) %s: residuals y %.3e, c %.3e with its own resp()" % (k, order, method, np.max(np.abs(r1)), np.max(np.abs(r2))))
                except Exception as e:
                    msg = str(e)
                    if "failed to complete" in msg or "Cannot make" in msg:
                        res.count("reported_failure")
                        continue
                    res.violation("exception", {"model": "context_pair", "method": method, "error": type(e).__name__}, case, "%s: %s" % (type(e).__name__, msg[:300]))


def configs(md, quick):
    backward = max_lead(md) == 0
    out = []
    for n_per in (1, 2, 4, 6):
        out.append((n_per, "stacked_time", "first_order", "first_order"))
    out.append((4, "stacked_time", "data", "first_order"))
    out.append((4, "stacked_time", "first_order", "data"))
    out.append((6, "stacked_time", "data", "data"))
    if backward:
        out.append((4, "period_by_period", "-", "-"))
        out.append((1, "period_by_period", "-", "-"))
    return out


def triples(md):
    """deviation bound 3 (thorough): every triple of a sub-basis - every unanticipated and anticipated input of the
    first two shocks, the last initial-condition cell, an exogenous path if there is one, the model's own large inputs"""
    S = input_singles(md)
    u = [s for s in S if s[0] == "u"]
    a = [s for s in S if s[0] == "a"]
    x = [s for s in S if s[0] == "x"]
    z = [s for s in S if s[0] == "z"]
    two = md["shocks"][:2]
    sub = [q for q in u if q[1] in two] + [q for q in a if q[1] in two] + x[-1:] + z[:1] + list(md.get("extra_singles", ()))[:2]
    sub = list(dict.fromkeys(sub))
    return [t for t in itertools.combinations(sub, 3)
            if len({(q[0], q[1], q[2]) for q in t}) == 3]


def shard(item, res, ctx):
    if item["part"] == "context":
        check_context_pair(res)
        res.sample({"part": "context", "models": "same equation text, three different resp() functions, two simulation orders"})
        return
    md = [x for x in models() if x["name"] == item["model"]][0]
    m = build(md)
    S = input_singles(md)
    if item["part"] == "singles":
        check_variants(md, m, res)
        patterns = [()] + [(s,) for s in S] + forced_patterns(md)
    elif item["part"] == "triples":
        patterns = triples(md)[item["lo"]: item["hi"]]
    else:
        pairs = list(itertools.combinations(S, 2))
        if ctx.quick:
            pairs = [p for p in pairs if p[0][0] == "u" and p[0][2] in (1, 3) and not (p[1][0] == "u" and p[1][1] == p[0][1] and p[1][2] == p[0][2])][: 40]
        patterns = pairs[item["lo"]: item["hi"]]
    cfgs = configs(md, ctx.quick)
    if item["part"] == "pairs" and ctx.quick:
        cfgs = [c for c in cfgs if c[0] in (4, 6) and c[2] != "data"][:3]
    for inp in patterns:
        for (n_per, method, terminal, guess) in cfgs:
            try:
                ok = run_case(md, m, inp, n_per, method, terminal, guess, res)
                if inp == () and ok:
                    res.count("zero_input_success_" + md["name"])
            except Exception as e:
                import traceback
                res.violation("harness_or_api_exception", {"model": md["name"], "error": type(e).__name__},
                              {"model": md["name"], "inputs": [list(i) for i in inp], "n_per": n_per, "method": method, "terminal": terminal, "guess": guess},
                              traceback.format_exc()[-900:])
    res.sample({"model": md["name"], "part": item["part"], "patterns": len(patterns), "configs": len(cfgs)})


def run(ctx, total, info):
    shards = []
    for md in models():
        shards.append({"model": md["name"], "part": "singles"})
        n_pairs = len(list(itertools.combinations(input_singles(md), 2)))
        if ctx.quick:
            shards.append({"model": md["name"], "part": "pairs", "lo": 0, "hi": 40})
        else:
            for lo in range(0, n_pairs, 25):
                shards.append({"model": md["name"], "part": "pairs", "lo": lo, "hi": lo + 25})
            for lo in range(0, len(triples(md)), 10):
                shards.append({"model": md["name"], "part": "triples", "lo": lo, "hi": lo + 10})
    shards.append({"part": "context", "model": "context_pair"})
    engine.run_shards(__name__, "shard", shards, ctx, total)
    c = total.counters
    info["exhaustive"] = True
    info["bound_completed"] = 2 if ctx.quick else 3
    info["floors"] = {"successful_runs": (len(total.nontrivial), 700), "stacked_time": (c.get("success_stacked_time", 0), 650),
                      "period_by_period": (c.get("success_period_by_period", 0), 50), "variant_runs": (c.get("variant_runs", 0), 9),
                      "context_pair_runs": (c.get("context_pair_runs", 0), 8)}
    for md in models():
        info["floors"]["zero_input_" + md["name"]] = (c.get("zero_input_success_" + md["name"], 0), 4)


def replay(case):
    res = engine.Result()
    if case["model"].startswith("context_pair"):
        check_context_pair(res)
        return ["%s %s %s" % (v["check"], engine.sigkey(v["signature"]), v["detail"]) for v in res.violations]
    md = [x for x in models() if x["name"] == case["model"]][0]
    m = build(md)
    run_case(md, m, [tuple(i) for i in case["inputs"]], case["n_per"], case["method"], case["terminal"], case["guess"], res)
    return ["%s %s %s" % (v["check"], engine.sigkey(v["signature"]), v["detail"]) for v in res.violations]
