"""C05 — steady state returned by solve_steady satisfies the steady-state equations.

Enumeration: 9 generated models (stationary non-linear, linear with constant, unit root with
drift, balanced growth with log-variables, mixed log/level growth, `!!` steady variant,
block-recursive, measurement block) x parameter grid x starting guesses x flat / linear
flags x split_into_blocks x steady plans (none, fix_level / fix_change of every variable,
every listed exogenize/endogenize swap, listed fix_level + endogenize plans) x variants {1, 3}.  Oracle: the harness's own
expression trees (ref/expr) evaluated on the path implied by the reported levels and changes.
"""
import contextlib
import io
import itertools

import numpy as np
import irispie as ir

from mc import engine
from ref import expr as E

PROPERTY = "C05"
LEVEL = "exploration"
RULE = ("models x parameter points x starting guesses x (flat, linear) flags x split_into_blocks x steady plans x variants; "
        "distinct non-trivial = (model, parameter point, guess, flags, blocks, plan, variants) for solves that complete")
MANIFEST_ENTRY = dict(level="exploration", design="DESIGN.md section 4 / C05",
    technique="bounded-exhaustive enumeration of generated models x parameter grid x guesses x flags x block splitting x steady plans x variants; residual substitution of the reported steady path into the harness's own expression trees",
    text="For 10 generated models x 2 (quick) / 3 (thorough) parameter points x 2 / 3 starting guesses x admissible (flat, linear) flags x split_into_blocks on/off x every plan of the listed family (none; fix_level and fix_change of each variable; each listed exogenize/endogenize swap whose Jacobian the harness finds non-singular) x {1, 3 variants}: whenever solve_steady completes, the path built from the reported levels and changes (constant, linear, geometric for log-variables) satisfies every steady equation (the `!!` variant where given) at dates -3..3 by the harness's own evaluator; fixed and exogenized names keep exactly their assigned values; endogenized parameters change and the equations hold with them; block-split and one-system solutions agree where the steady state is unique; variant k equals a fresh single-variant solve.",
    note="Trusted: ref/expr evaluator. Non-convergence (exception) is counted, not gated; every model must converge for at least one listed guess (floor). Newton basins beyond the listed guesses are not explored.")
ASSUMPTIONS = ["the equality tolerance of the model (1e-12 default solver tolerance) maps to 1e-7 relative residual on the steady path"]


def V(n, s=0):
    return ("var", n, s)


def Pm(n):
    return ("par", n)


def num(c):
    return ("num", c)


def add(*xs):
    out = xs[0]
    for x in xs[1:]:
        out = ("+", out, x)
    return out


def mul(*xs):
    out = xs[0]
    for x in xs[1:]:
        out = ("*", out, x)
    return out


def models(tier="quick"):
    """dict(name, vars, mvars, log, shocks, params (list of dicts = grid), eqs [(lhs, rhs, steady_rhs|None)], meqs,
            linear_ok, flat_ok (list of admissible flat flags), guesses (list of dicts), unique (steady state unique?),
            swaps [(var, param)])"""
    M = []
    M.append(dict(name="ces", vars=["k", "y", "c"], log=[], shocks=["e"],
                  params=[{"A": 1.0, "alpha": 0.3, "delta": 0.1, "s": 0.2}, {"A": 1.5, "alpha": 0.5, "delta": 0.05, "s": 0.3}],
                  eqs=[(V("k"), add(mul(("-", num(1), Pm("delta")), V("k", -1)), mul(Pm("s"), V("y"))), None),
                       (V("y"), add(mul(Pm("A"), ("^", V("k", -1), Pm("alpha"))), V("e")), None),
                       (V("c"), ("-", V("y"), mul(Pm("s"), V("y"))), None)],
                  linear_ok=False, flat_ok=[True, False], guesses=[{"k": 2.0, "y": 1.0, "c": 1.0}, {"k": 8.0, "y": 3.0, "c": 2.0}], unique=True,
                  swaps=[("y", "A"), ("k", "s"), ("c", "delta")], fix_endo=[(("y",), "A"), (("k",), "s")]))
    M.append(dict(name="ces_log", vars=["k", "y", "c"], log=["k", "y", "c"], shocks=["e"],
                  params=[{"A": 1.0, "alpha": 0.3, "delta": 0.1, "s": 0.2}],
                  eqs=[(V("k"), add(mul(("-", num(1), Pm("delta")), V("k", -1)), mul(Pm("s"), V("y"))), None),
                       (V("y"), mul(Pm("A"), ("^", V("k", -1), Pm("alpha")), ("fn", "exp", V("e"))), None),
                       (V("c"), ("-", V("y"), mul(Pm("s"), V("y"))), None)],
                  linear_ok=False, flat_ok=[True, False], guesses=[{"k": 2.0, "y": 1.0, "c": 1.0}, {"k": 5.0, "y": 2.0, "c": 0.5}], unique=True,
                  swaps=[("y", "A"), ("k", "s")]))
    M.append(dict(name="linear_const", vars=["x", "y"], log=[], shocks=["e"],
                  params=[{"a": 0.7, "b": 0.4, "c": 0.6, "d": -0.2}, {"a": -0.3, "b": 0.9, "c": 1.0, "d": 0.5}],
                  eqs=[(V("x"), add(mul(Pm("a"), V("x", -1)), Pm("c"), V("e")), None),
                       (V("y"), add(mul(Pm("b"), V("y", 1)), V("x"), Pm("d")), None)],
                  linear_ok=True, flat_ok=[True, False], guesses=[{}, {"x": 5.0, "y": -3.0}], unique=True, swaps=[("x", "c"), ("y", "d")]))
    M.append(dict(name="linear_logs", vars=["x", "z"], mvars=["oz"], log=["z", "oz"], shocks=["e"],
                  params=[{"rho": 0.6, "xs": 2.0, "a": 0.5, "b": 0.1}, {"rho": 0.3, "xs": -1.0, "a": 0.8, "b": 0.05}],
                  eqs=[(V("x"), add(mul(Pm("rho"), V("x", 1)), mul(("-", num(1), Pm("rho")), Pm("xs")), V("e")), None),
                       (("fn", "log", V("z")), add(mul(Pm("a"), ("fn", "log", V("z", -1))), mul(Pm("b"), V("x")), num(0.02)), None)],
                  meqs=[(("fn", "log", V("oz")), add(("fn", "log", V("z")), mul(num(0.5), ("fn", "log", V("z", -2))), num(0.1)))],
                  linear_ok=True, flat_ok=[True, False], guesses=[{"x": 1.0, "z": 1.0, "oz": 1.0}, {"x": 3.0, "z": 2.0, "oz": 0.5}], unique=True, swaps=[("x", "xs")]))
    M.append(dict(name="unit_root_drift", vars=["x", "y"], mvars=["obs", "obs2"], log=[], shocks=["e"],
                  params=[{"g": 0.5, "a": 0.5}, {"g": -0.2, "a": 0.8}],
                  eqs=[(V("x"), add(V("x", -1), Pm("g"), V("e")), None),
                       (V("y"), add(V("x"), mul(Pm("a"), ("-", V("y", -1), V("x", -1))), num(1.0)), None)],
                  meqs=[(V("obs"), add(mul(num(2.0), V("x")), num(1.0))), (V("obs2"), add(mul(num(0.5), V("y")), V("x", -1)))],
                  linear_ok=True, flat_ok=[False], guesses=[{}, {"x": 3.0, "y": 4.0}], unique=False, swaps=[]))
    M.append(dict(name="balanced_growth", vars=["a", "h", "y", "c"], log=["a", "h", "y", "c"], shocks=["e"],
                  params=[{"gr": 1.02, "theta": 0.6, "hbar": 0.3, "rho": 0.5}, {"gr": 0.99, "theta": 0.4, "hbar": 1.2, "rho": 0.8}],
                  eqs=[(V("a"), mul(V("a", -1), Pm("gr"), ("fn", "exp", V("e"))), None),
                       (V("h"), mul(("^", Pm("hbar"), ("-", num(1), Pm("rho"))), ("^", V("h", -1), Pm("rho"))), None),
                       (V("y"), mul(V("a"), ("^", V("h"), Pm("theta"))), None),
                       (V("c"), mul(num(0.8), V("y")), None)],
                  linear_ok=False, flat_ok=[False], guesses=[{"a": 1.0, "h": 0.5, "y": 1.0, "c": 1.0}, {"a": 2.0, "h": 1.0, "y": 2.0, "c": 1.5}], unique=False, swaps=[],
                  fix_endo=[(("a", "y"), "theta"), (("a", "h"), "hbar")]))
    M.append(dict(name="mixed_growth", vars=["x", "z", "w"], log=["z"], shocks=["e"],
                  params=[{"g": 0.3, "gz": 0.01}, {"g": -0.1, "gz": 0.05}],
                  eqs=[(V("x"), add(V("x", -1), Pm("g"), V("e")), None),
                       (V("z"), mul(V("z", -1), ("fn", "exp", Pm("gz"))), None),
                       (V("w"), add(V("x"), ("fn", "log", V("z"))), None)],
                  linear_ok=False, flat_ok=[False], guesses=[{"x": 1.0, "z": 1.0, "w": 1.0}, {"x": -2.0, "z": 3.0, "w": 0.0}], unique=False, swaps=[]))
    M.append(dict(name="steady_variant", vars=["x", "y"], log=[], shocks=["e"],
                  params=[{"rho": 0.8, "xbar": 1.5}, {"rho": 0.2, "xbar": -0.5}],
                  eqs=[(V("x"), add(mul(Pm("rho"), V("x", -1)), mul(("-", num(1), Pm("rho")), Pm("xbar")), V("e")), Pm("xbar")),
                       (V("y"), add(mul(V("x"), V("x")), mul(num(0.1), V("y", -1))), None)],
                  linear_ok=False, flat_ok=[True, False], guesses=[{"x": 1.0, "y": 1.0}, {"x": 3.0, "y": 5.0}], unique=True, swaps=[("x", "xbar")]))
    M.append(dict(name="block_recursive", vars=["a", "b", "c", "d"], log=["c"], shocks=["e"],
                  params=[{"p": 2.0, "q": 0.5}, {"p": 1.2, "q": 0.3}],
                  eqs=[(V("a"), add(Pm("p"), V("e")), None),
                       (V("b"), add(V("a"), num(1.0), mul(num(0.1), V("b"))), None),
                       (V("c"), ("-", mul(V("b"), V("a")), mul(Pm("q"), V("c"))), None),
                       (V("d"), add(("fn", "log", V("c")), mul(num(0.3), V("d", -1))), None)],
                  linear_ok=False, flat_ok=[True, False], guesses=[{"a": 1.0, "b": 1.0, "c": 1.0, "d": 1.0}, {"a": 3.0, "b": 4.0, "c": 5.0, "d": 2.0}], unique=True,
                  swaps=[("a", "p"), ("c", "q")]))
    M.append(dict(name="measurement", vars=["x"], mvars=["obs", "obs2"], log=["obs2"], shocks=["e"],
                  params=[{"a": 0.5, "c": 1.0}, {"a": 0.9, "c": 0.2}],
                  eqs=[(V("x"), add(mul(Pm("a"), V("x", -1)), Pm("c"), V("e")), None)],
                  meqs=[(V("obs"), add(mul(num(2.0), V("x")), num(1.0))), (V("obs2"), ("fn", "exp", mul(num(0.5), V("x"))))],
                  linear_ok=False, flat_ok=[True, False], guesses=[{"x": 1.0, "obs": 1.0, "obs2": 1.0}, {"x": 4.0, "obs": 2.0, "obs2": 3.0}], unique=True, swaps=[("x", "c")]))
    for md in M:
        md.setdefault("mvars", [])
        md.setdefault("meqs", [])
        md.setdefault("fix_endo", [])
        if tier != "quick":
            # thorough: a third parameter point (between the listed ones, or a perturbation) and a third starting guess
            p0, p1 = md["params"][0], md["params"][-1]
            md["params"] = md["params"] + [{k: round(0.35 * p0[k] + 0.65 * p1[k], 6) if p0 is not p1 else round(p0[k] * 0.9, 6) for k in p0}]
            g = md["guesses"][-1]
            md["guesses"] = md["guesses"] + [{k: v * 1.4 + 0.1 for k, v in g.items()}]
    return M


def source(md):
    L = ["!transition-variables", "    " + ", ".join(md["vars"])]
    if md["log"]:
        L += ["!log-variables", "    " + ", ".join(md["log"])]
    L += ["!transition-shocks", "    " + ", ".join(md["shocks"])]
    L += ["!parameters", "    " + ", ".join(md["params"][0])]
    L += ["!transition-equations"]
    for lhs, rhs, srhs in md["eqs"]:
        s = "    %s = %s" % (E.render(lhs), E.render(rhs))
        if srhs is not None:
            s += " !! %s = %s" % (E.render(lhs), E.render(srhs))
        L.append(s + ";")
    if md["mvars"]:
        L += ["!measurement-variables", "    " + ", ".join(md["mvars"]), "!measurement-equations"]
        for lhs, rhs in md["meqs"]:
            L.append("    %s = %s;" % (E.render(lhs), E.render(rhs)))
    return "\n".join(L) + "\n"


def steady_equations(md):
    out = [(lhs, srhs if srhs is not None else rhs) for lhs, rhs, srhs in md["eqs"]]
    out += list(md["meqs"])
    return out


def path_residuals(md, levels, changes, params):
    """max |rhs - lhs| over dates -3..3 on the path implied by levels and changes, and the scale"""
    logset = set(md["log"])
    allv = md["vars"] + md["mvars"]

    def get(n, t):
        if t is None:
            return params[n]
        if n in md["shocks"]:
            return 0.0
        lv, ch = levels[n], changes[n]
        return lv * ch ** t if n in logset else lv + ch * t
    worst, where, scale = 0.0, None, 1.0
    for t in range(-3, 4):
        for i, (lhs, rhs) in enumerate(steady_equations(md)):
            try:
                a, b = E.ev(lhs, get, t), E.ev(rhs, get, t)
            except (ValueError, ZeroDivisionError, OverflowError):
                return np.inf, (i, t), 1.0
            scale = max(scale, abs(a), abs(b))
            r = abs(b - a)
            if not (r <= worst):
                worst, where = (r if r == r else np.inf), (i, t)
    return worst, where, scale


def jacobian_ok(md, params, unknown_param, fixed_var, levels):
    """oracle-side admissibility of a swap: finite-difference Jacobian of the steady system (flat) w.r.t. the
    remaining variables + the endogenized parameter is non-singular at the reported solution"""
    names = [v for v in md["vars"] + md["mvars"] if v != fixed_var] + [unknown_param]
    eqs = steady_equations(md)

    def F(x):
        lv = dict(levels)
        pr = dict(params)
        for n, val in zip(names, x):
            if n == unknown_param:
                pr[n] = val
            else:
                lv[n] = val
        ch = {n: (1.0 if n in md["log"] else 0.0) for n in lv}

        def get(n, t):
            if t is None:
                return pr[n]
            if n in md["shocks"]:
                return 0.0
            return lv[n]
        return np.array([E.ev(r, get, 0) - E.ev(l, get, 0) for l, r in eqs])
    x0 = np.array([params[n] if n == unknown_param else levels[n] for n in names], dtype=float)
    try:
        J = np.array([(F(x0 + h) - F(x0 - h)) / 2e-6 for h in np.eye(len(x0)) * 1e-6]).T
    except Exception:
        return False
    return np.all(np.isfinite(J)) and np.linalg.cond(J) < 1e6


def build(md, flat, linear, params_list, guess):
    with contextlib.redirect_stdout(io.StringIO()):
        m = ir.Simultaneous.from_string(source(md), linear=linear, flat=flat)
        if len(params_list) > 1:
            m.alter_num_variants(len(params_list))
            m.assign(**{k: [p[k] for p in params_list] for k in params_list[0]})
        else:
            m.assign(**params_list[0])
        if guess:
            m.assign(**guess)
    return m


def read(m, nvar):
    lv, ch, pr = m.get_steady_levels(unpack_singleton=False), m.get_steady_changes(unpack_singleton=False), m.get_parameters(unpack_singleton=False)
    out = []
    for k in range(nvar):
        def pick(box):
            d = {}
            for n in box.keys():
                v = box[n]
                v = v[k] if isinstance(v, (list, tuple)) else v
                d[n] = float("nan") if v is None else float(v)      # None: never assigned (e.g. change of an exogenized name)
            return d
        out.append((pick(lv), pick(ch), pick(pr)))
    return out


def configs(md):
    """(flat, linear, split, plan descriptor, n variants, param index, guess index[, history])
    history "reused": the same model object was already solved once - with the same, then still empty, plan object
    and deliberately loose solver settings (a rough first pass) - before the plan is filled in and the model is
    solved again with default settings; the second solve is the one that is judged"""
    out = []
    plans = [("none",)] + [("fix_level", v) for v in md["vars"]]
    for flat in md["flat_ok"]:
        for linear in ([False, True] if md["linear_ok"] else [False]):
            pl = list(plans)
            if not flat:
                pl += [("fix_change", v) for v in md["vars"]]
            if not linear:
                pl += [("swap", v, p) for (v, p) in md["swaps"]]
                pl += [("fix_endo", vs, p) for (vs, p) in md["fix_endo"]]
            for plan in pl:
                if linear and plan[0] != "none":
                    continue          # the linear steady solver does not take plans
                for split in ([None] if linear else [True, False]):
                    for pi in range(len(md["params"])):
                        for gi in range(len(md["guesses"])):
                            out.append((flat, linear, split, plan, 1, pi, gi))
                        if not linear and plan[0] != "none":
                            out.append((flat, linear, split, plan, 1, pi, 0, "reused"))
                        if not linear:
                            # the other documented non-linear solver
                            out.append((flat, linear, split, plan, 1, pi, 0, "scipy_root"))
                        if not linear and flat and plan[0] == "none":
                            # flat mode chosen at call time on a model DECLARED non-flat that carries non-zero changes
                            out.append((flat, linear, split, plan, 1, pi, 0, "flat_at_call"))
                    if plan[0] == "none" and len(md["params"]) > 1:
                        out.append((flat, linear, split, plan, 3, 0, 0))
                    if plan[0] == "none" and len(md["params"]) > 2:
                        out.append((flat, linear, split, plan, 3, 0, 1))
    return out


def check_config(md, cfg, res, ctx, cache):
    flat, linear, split, plan_desc, nvar, pi, gi = cfg[:7]
    history = cfg[7] if len(cfg) > 7 else "fresh"
    name = md["name"]
    case = {"model": name, "config": [flat, linear, split, list(plan_desc), nvar, pi, gi] + ([history] if history != "fresh" else [])}

    def bad(check, detail, **extra):
        sig = {"model": name, "flat": flat, "linear": linear, "split": split, "plan": plan_desc[0], "variants": nvar}
        sig.update({k: v for k, v in extra.items() if k in ("error", "what")})
        res.violation(check, sig, case, "%s flat=%s linear=%s split=%s plan=%r nvar=%d params#%d guess#%d: %s" % (name, flat, linear, split, plan_desc, nvar, pi, gi, detail))
    plist = [md["params"][pi]] if nvar == 1 else [md["params"][0], md["params"][-1], {k: 0.5 * (md["params"][0][k] + md["params"][-1][k]) for k in md["params"][0]}]
    guess = md["guesses"][gi]
    res.ev()
    try:
        m = build(md, flat and history != "flat_at_call", linear, plist, guess)
        if history == "flat_at_call":
            stale = {}
            for v in md["vars"]:
                lev0 = guess.get(v) if guess and guess.get(v) is not None else 1.0
                stale[v] = (lev0, 1.03 if v in md["log"] else 0.25)
            m.assign(**stale)
            res.count("flat_at_call_attempts")
    except Exception as e:
        bad("build_exception", "%s: %s" % (type(e).__name__, str(e)[:200]), error=type(e).__name__)
        return
    kw = {}
    plan = None
    assigned = {}
    if plan_desc[0] != "none":
        plan = ir.SteadyPlan(m)
        if history == "reused":
            try:
                with contextlib.redirect_stdout(io.StringIO()):
                    m.steady(plan=plan, solver_settings={"func_tolerance": 1e-3}, **({"split_into_blocks": split} if split is not None else {}))
                res.count("rough_first_pass_completed")
            except Exception:
                res.count("rough_first_pass_not_completed")
        v = plan_desc[1]
        if plan_desc[0] == "fix_level":
            val = 1.7 if v in md["log"] else 0.9
            # fixing the level of a variable whose level is determined is only admissible when it is indeterminate;
            # for determined variables we fix it at the value of the unplanned solution (cached) so the plan is consistent
            base = cache.get((flat, pi))
            if md["unique"]:
                if base is None:
                    res.exclude("no_base_solution_for_plan")
                    return
                val = base[0][v]
            m.assign(**{v: val})
            plan.fix_level(v)
            assigned[v] = ("level", val)
        elif plan_desc[0] == "fix_change":
            base = cache.get((flat, pi))
            if base is None:
                res.exclude("no_base_solution_for_plan")
                return
            val = base[1][v]
            # assign level and change: (level, change)
            m.assign(**{v: (base[0][v] if md["unique"] else m.get_steady_levels()[v], val)})
            plan.fix_change(v)
            assigned[v] = ("change", val)
        elif plan_desc[0] == "fix_endo":
            # levels of some variables fixed (the last one moved by 10 %), a parameter endogenized instead
            base = cache.get((flat, pi))
            if base is None:
                res.exclude("no_base_solution_for_plan")
                return
            vs, p = plan_desc[1], plan_desc[2]
            for k_, v_ in enumerate(vs):
                val = base[0][v_] * (1.1 if k_ == len(vs) - 1 else 1.0)
                m.assign(**{v_: val})
                plan.fix_level(v_)
                assigned[v_] = ("level", val)
            plan.endogenize(p)
        elif plan_desc[0] == "swap":
            base = cache.get((flat, pi))
            if base is None:
                res.exclude("no_base_solution_for_plan")
                return
            p = plan_desc[2]
            target = base[0][v] * 1.1
            if not jacobian_ok(md, md["params"][pi], p, v, dict(base[0], **{v: target})):
                res.exclude("singular_swap_jacobian")
                return
            m.assign(**{v: target})
            plan.exogenize(v)
            plan.endogenize(p)
            assigned[v] = ("level", target)
        kw["plan"] = plan
    if split is not None:
        kw["split_into_blocks"] = split
    if history == "scipy_root":
        kw["solver"] = "scipy_root"
        res.count("scipy_root_attempts")
    if history == "flat_at_call":
        kw["flat"] = True
    try:
        with contextlib.redirect_stdout(io.StringIO()):
            info = m.steady(return_info=True, unpack_singleton=False, **kw)
    except Exception as e:
        # the property speaks of solves that complete without error: any exception means "did not complete";
        # it is counted by class (the floors on completed solves guard against everything failing)
        msg = str(e)
        if any(s in msg.lower() for s in ("converge", "failed", "cannot make", "singular")):
            res.count("not_converged")
            res.count("not_converged_" + name)
        else:
            res.count("not_completed_" + type(e).__name__)
        return
    res.count("solved")
    res.count("solved_" + name)
    if history == "scipy_root":
        res.count("solved_scipy_root")
    if history == "flat_at_call":
        res.count("solved_flat_at_call")
    res.nt((name,) + tuple(map(str, cfg)))
    try:
        sols = read(m, nvar)
    except Exception as e:
        bad("exception", "reading the solution: %s: %s" % (type(e).__name__, str(e)[:300]), error=type(e).__name__)
        return
    if info and isinstance(info, list) and isinstance(info[0], dict) and info[0].get("blocks") is not None:
        res.cls("num_blocks", (name, len(info[0]["blocks"])))
    for k, (lv, ch, pr) in enumerate(sols):
        allv = md["vars"] + md["mvars"]
        if any(n not in lv or not np.isfinite(lv[n]) for n in allv):
            bad("missing_level", "variant %d: steady levels %r" % (k, {n: lv.get(n) for n in allv}))
            continue
        chg = {n: (ch.get(n) if ch.get(n) is not None and np.isfinite(ch.get(n)) else (1.0 if n in md["log"] else 0.0)) for n in allv}
        if flat:
            for n in allv:
                neutral = 1.0 if n in md["log"] else 0.0
                if abs(chg[n] - neutral) > 1e-10:
                    bad("flat_change", "variant %d: flat model reports change %r for %s" % (k, chg[n], n), what="flat")
        w, where, scale = path_residuals(md, lv, chg, pr)
        if not (w <= 1e-7 * scale):
            bad("steady_residual", "variant %d: residual %.3e in equation %s at date %s (scale %.3g); levels %r changes %r"
                % (k, w, where[0], where[1], scale, {n: round(lv[n], 8) for n in allv}, {n: round(chg[n], 8) for n in allv}), what="residual")
        # plan: assigned values kept
        for v, (what, val) in assigned.items():
            got = lv[v] if what == "level" else chg[v]
            if not np.isclose(got, val, rtol=1e-12, atol=1e-12):
                bad("plan_value_changed", "variant %d: %s of %s was fixed at %.12g, reported %.12g" % (k, what, v, val, got), what="plan")
        if plan_desc[0] in ("swap", "fix_endo"):
            p = plan_desc[2]
            if np.isclose(pr[p], md["params"][pi][p], rtol=1e-9, atol=1e-12):
                bad("endogenized_parameter_unchanged", "parameter %s stayed at %.12g although %s was moved" % (p, pr[p], plan_desc[1]), what="plan")
            for q in pr:
                if q != p and q in md["params"][pi] and pr[q] != md["params"][pi][q]:
                    bad("other_parameter_changed", "parameter %s changed from %r to %r" % (q, md["params"][pi][q], pr[q]), what="plan")
        elif nvar == 1:
            for q in md["params"][pi]:
                if pr[q] != md["params"][pi][q]:
                    bad("other_parameter_changed", "parameter %s changed from %r to %r" % (q, md["params"][pi][q], pr[q]), what="plan")
    # differential: unique steady states agree across split / guess / variants
    if md["unique"] and plan_desc[0] == "none":
        key = (flat, pi) if nvar == 1 else None
        if key is not None:
            lv, ch, pr = sols[0]
            if key in cache:
                b = cache[key]
                for n in md["vars"] + md["mvars"]:
                    if not np.isclose(lv[n], b[0][n], rtol=1e-6, atol=1e-8):
                        bad("solutions_disagree", "%s = %.10g here, %.10g with another admissible configuration (linear/split/guess)" % (n, lv[n], b[0][n]), what="differential")
                        break
            else:
                cache[key] = (lv, ch)
        else:
            for k, pk in enumerate(plist):
                pidx = [i for i, p in enumerate(md["params"]) if p == pk]
                if pidx and (flat, pidx[0]) in cache:
                    b = cache[(flat, pidx[0])]
                    for n in md["vars"] + md["mvars"]:
                        if not np.isclose(sols[k][0][n], b[0][n], rtol=1e-6, atol=1e-8):
                            bad("variant_mismatch", "variant %d: %s = %.10g, single-variant model %.10g" % (k, n, sols[k][0][n], b[0][n]), what="variant")
                            break
    elif not md["unique"] and plan_desc[0] == "none" and nvar == 1:
        cache.setdefault((flat, pi), (sols[0][0], sols[0][1]))


def shard_configs(md, flat, pi):
    cfgs = [c for c in configs(md) if c[0] == flat and c[5] == pi]
    cfgs.sort(key=lambda c: (c[3][0] != "none", c[4] != 1))
    return cfgs


def prime_cache(md, flat, pi, ctx):
    """base (unplanned) solution of this (flat, parameter point): feeds the plans with consistent values.
    Computed silently; the configuration itself is checked by the chunk that owns it."""
    cache = {}
    for c in shard_configs(md, flat, pi):
        if c[3][0] == "none" and c[4] == 1:
            check_config(md, c, engine.Result(), ctx, cache)
            if (flat, pi) in cache:
                break
    return cache


CHUNK = 12


def shard(item, res, ctx):
    md = [x for x in models(ctx.tier) if x["name"] == item["model"]][0]
    cfgs = shard_configs(md, item["flat"], item["pi"])
    cache = prime_cache(md, item["flat"], item["pi"], ctx)
    mine = cfgs[item["lo"]: item["lo"] + CHUNK]
    for cfg in mine:
        try:
            check_config(md, cfg, res, ctx, cache)
        except Exception as e:
            import traceback
            res.violation("harness_or_api_exception", {"model": md["name"], "error": type(e).__name__}, {"model": md["name"], "config": list(map(str, cfg))},
                          traceback.format_exc()[-900:])
    res.sample({"model": md["name"], "flat": item["flat"], "param_point": item["pi"], "configs": [list(map(str, c)) for c in mine][:3]})


def run(ctx, total, info):
    shards = []
    for md in models(ctx.tier):
        for flat in md["flat_ok"]:
            for pi in range(len(md["params"])):
                for lo in range(0, len(shard_configs(md, flat, pi)), CHUNK):
                    shards.append({"model": md["name"], "flat": flat, "pi": pi, "lo": lo})
    engine.run_shards(__name__, "shard", shards, ctx, total)
    c = total.counters
    info["exhaustive"] = True
    info["floors"] = {"solved": (c.get("solved", 0), 250), "rough_first_pass_completed": (c.get("rough_first_pass_completed", 0), 40), "solved_scipy_root": (c.get("solved_scipy_root", 0), 100), "solved_flat_at_call": (c.get("solved_flat_at_call", 0), 20), "multi_block_structures": (len(total.classes.get("num_blocks", ())), 5)}
    for md in models(ctx.tier):
        info["floors"]["solved_" + md["name"]] = (c.get("solved_" + md["name"], 0), 6)


def replay(case):
    res = engine.Result()
    md = [x for x in models("thorough") if x["name"] == case["model"]][0]     # superset: indices of quick cases are unchanged
    cfg = case["config"]
    want = (cfg[0], cfg[1], cfg[2], tuple(cfg[3]), cfg[4], cfg[5], cfg[6]) + tuple(cfg[7:8])
    ctx = engine.Ctx("quick", 0)
    cache = prime_cache(md, want[0], want[5], ctx)
    check_config(md, want, res, ctx, cache)
    return ["%s %s %s" % (v["check"], engine.sigkey(v["signature"]), v["detail"]) for v in res.violations]
