"""C01 — first-order solution satisfies the model equations and is the stable one.

Bounded-exhaustive enumeration of a template family of linear / log-linear rational
expectations models (ref/linre.py: every lag/lead structure up to 2, cross terms at
shift -1/0/+1, 5 coefficient regimes spanning determinate, indeterminate and explosive
regions, measurement blocks, log-variables, constants) x input patterns (every single
shock / anticipated shock / measurement shock / initial condition, pairs of them) x
deviation in {True, False}, each simulated by the real first-order simulator and
substituted into the harness's own copy of the equations.
"""
import contextlib
import io
import itertools

import numpy as np
import irispie as ir

from mc import engine
from ref import linre

PROPERTY = "C01"
LEVEL = "exploration"
RULE = ("every model of the template family (lag/lead structure x cross shift x coefficient regime x measurement block x "
        "log/level) is classified by the harness's own companion-pencil eigenvalues and compared with the reported "
        "system stability; every determinate model is simulated for every single input (shock, anticipated shock at "
        "dates 1-3, measurement shock, initial-condition cell), listed pairs, restarts and one long horizon, in level "
        "and deviation mode; distinct non-trivial case = (model, input pattern, mode)")
MANIFEST_ENTRY = dict(level="exploration", design="DESIGN.md section 4 / C01",
    technique="bounded-exhaustive enumeration of generated linear RE models x input patterns; residual substitution into the harness's own equations, restart consistency, superposition, independent eigenvalue classification",
    text="For every model of a generated family (quick 450 structures: 1-3 variables, lags/leads up to 2, 5 coefficient regimes, measurement blocks, log-variable versions; thorough ~2000) the reported system stability must equal the classification from the harness's own companion pencil; for every determinate model every basis input (deviation bound 1) and listed/all pairs (bound 2) is simulated with the real first-order simulator in level and deviation mode and checked: every transition and measurement equation holds in every period with leads read from the continued path, inputs are returned unchanged, level = own steady state + deviation, unanticipated shocks at later dates equal a restart, responses superpose, variant k of a two-variant model equals the single-variant model with variant k's parameters and inputs, and the path decays at the oracle's stable-root rate over 200 continuation periods.",
    note="Trusted: scipy's generalized eigenvalues on the harness's own pencil, numpy arithmetic, ref/linre.py. Parameter points within 1e-4 of the unit circle are excluded (counted). Not covered: more than 3 variables, lags/leads above 2, non-generic rank failures of Blanchard-Kahn.")
ASSUMPTIONS = ["Blanchard-Kahn counting (generic rank condition) characterises determinacy of the generated family",
               "uniqueness of the stable solution: a non-explosive path that satisfies the equations from the given initial condition is the solution"]

T_SHOCK = 4
H_CONT = 60
H_LONG = 200
START = ir.qq(2020, 1)
EXPECT = {"determinate": "STABLE", "indeterminate": "MULTIPLE_STABLE", "no_stable": "NO_STABLE"}


def build(spec):
    with contextlib.redirect_stdout(io.StringIO()):
        m = ir.Simultaneous.from_string(spec.source(), linear=not spec.log, flat=spec.flat)
        m.assign(**spec.param_values())
        m.steady()
        m.solve()
    return m


def own_steady(spec):
    ss = spec.steady()
    if ss is None:
        return None          # singular steady system (unit root): the level is not pinned down
    out = {spec.var(j): ss[j] for j in range(spec.n)}
    for k, e in enumerate(spec.meas):
        out[spec.obs(k)] = sum(c * ss[j] for (j, s, c) in e["terms"]) + e.get("const", 0.0)
    return out       # in logs for log models


def singles(spec):
    """basis inputs: kind, index, date/lag"""
    out = []
    amp = 0.1 if spec.log else 1.0
    for i in range(spec.n):
        out.append(("u", i, 1, amp))
    for i in range(spec.n):
        for d in (1, 2, 3):
            out.append(("a", i, d, amp * (0.5 + 0.25 * d)))
    for k, e in enumerate(spec.meas):
        if e.get("shock"):
            out.append(("w", k, 1, amp))
            out.append(("w", k, 3, -amp))
    for j in range(spec.n):
        for lag in range(1, spec.max_lag(j) + 1):
            out.append(("x", j, lag, 0.3 * amp * (1 if lag == 1 else -1)))
    return out


class Sim:
    """one simulation of `spec` through the real simulator + array views of the result"""

    def __init__(self, spec, m, inputs, dev, n_periods, start=START, base_db=None, split=False, sim_kw=None):
        self.spec, self.dev = spec, dev
        self.span = start >> (start + n_periods - 1)
        self.L = spec.max_lag()
        db = ir.Databox.steady(m, self.span, deviation=dev) if base_db is None else base_db.copy()
        for (kind, i, d, amp) in inputs:
            if kind == "u":
                db[spec.shk(i)][start + d - 1] = amp
            elif kind == "a":
                db["ant_" + spec.shk(i)][start + d - 1] = amp
            elif kind == "w":
                db[spec.mshk(i)][start + d - 1] = amp
            elif kind == "x":
                p = start - d
                old = db[spec.var(i)].get_data(p)[0, 0]
                db[spec.var(i)][p] = old * np.exp(amp) if spec.log else old + amp
        self.db_in = db
        with contextlib.redirect_stdout(io.StringIO()):
            self.out = m.simulate(db, self.span, method="first_order", deviation=dev, **({"force_split_frames": True} if split else {}), **(sim_kw or {}))
        self.arr = {}
        self.arr_in = {}
        fu = (start - self.L, start + n_periods - 1)
        for n in self.names():
            self.arr[n] = self._get(self.out, n, fu)
            self.arr_in[n] = self._get(db, n, fu)

    def names(self):
        sp = self.spec
        ns = [sp.var(j) for j in range(sp.n)] + [sp.obs(k) for k in range(len(sp.meas))]
        for i in range(sp.n):
            ns += [sp.shk(i), "ant_" + sp.shk(i)]
        ns += [sp.mshk(k) for k, e in enumerate(sp.meas) if e.get("shock")]
        return ns

    def _get(self, db, n, fu):
        if n not in db:
            return np.zeros(fu[1] - fu[0] + 1)
        a = db[n].get_data_from_until(fu)[:, 0].astype(float)
        if self.is_logged(n):
            with np.errstate(all="ignore"):
                a = np.log(a)
        elif n[0] in "ewa":          # shocks: missing means zero
            a = np.where(np.isnan(a), 0.0, a)
        return a

    def is_logged(self, n):
        return self.spec.log and n[0] in "vo"

    def get(self, n, t):
        return self.arr[n][t + self.L]


def max_resid(spec, sim, t_from, t_to):
    worst = 0.0
    where = None
    scale = 1.0
    for t in range(t_from, t_to):
        r = spec.residuals(sim.get, t, deviation=sim.dev)
        for k, v in enumerate(r):
            if not (abs(v) <= worst):
                worst, where = (abs(v) if v == v else np.inf), (k, t)
    for n in sim.names():
        a = sim.arr[n][np.isfinite(sim.arr[n])]
        if a.size:
            scale = max(scale, float(np.abs(a).max()))
    return worst, where, scale


def check_model(spec, res, ctx, only=None):
    """all checks for one model; `only` restricts to one (check, input) for replay"""
    name = spec.name
    case0 = {"spec": spec.to_json()}
    quick = ctx.quick

    lagged_shock = any(e.get("lagshocks") for e in spec.eqs)

    def bad(check, detail, **extra):
        sig = {"n": spec.n, "log": spec.log, "regime": name.split("_")[4] if len(name.split("_")) > 4 else ""}
        if lagged_shock:
            sig["lagged_shock"] = True
        sig.update({k: v for k, v in extra.items() if k in ("input_kind", "mode", "error")})
        res.violation(check, sig, dict(case0, **extra), "%s: %s" % (name, detail))

    cls = spec.classify()
    res.ev()
    res.count("oracle_" + cls["kind"])
    if cls["kind"] in ("boundary", "singular"):
        res.exclude("oracle_" + cls["kind"])
        return
    try:
        m = build(spec)
    except Exception as e:
        if cls["kind"] == "determinate":
            bad("build_or_solve_failed", "%s: %s" % (type(e).__name__, str(e)[:200]), error=type(e).__name__)
        else:
            res.count("nondeterminate_rejected_by_implementation")
        return
    # (a) classification ---------------------------------------------------------------------
    sol = m.get_solution()
    st = str(sol.system_stability).split(".")[-1]
    kinds = [str(k).split(".")[-1] for k in m.get_eigenvalues_stability()]
    res.nt(("classify", name))
    res.cls("stability", (cls["kind"], st))
    if st != EXPECT[cls["kind"]]:
        bad("classification", "oracle %s (unstable %d, forward %d, moduli %s) but implementation reports %s %s"
            % (cls["kind"], cls["num_unstable"], cls["num_forward"], np.round(cls["moduli"], 4).tolist(), st, kinds))
        return
    n_unstable_impl = kinds.count("UNSTABLE")
    if n_unstable_impl != cls["num_unstable"]:
        bad("unstable_count", "oracle counts %d unstable roots, implementation %d" % (cls["num_unstable"], n_unstable_impl))
    # the non-zero finite roots are the same for every valid first-order stacking of the model
    try:
        ev_impl = np.abs(np.array(m.get_eigenvalues(), dtype=complex))
        a = np.sort(ev_impl[(ev_impl > 1e-7) & (ev_impl < 1e7)])
        mo = np.array(cls["moduli"], dtype=float)
        b = np.sort(mo[(mo > 1e-7) & (mo < 1e7)])
        if a.shape != b.shape or not np.allclose(a, b, rtol=1e-6, atol=1e-9):
            bad("eigenvalues", "moduli of the finite non-zero roots: implementation %s, companion pencil %s" % (np.round(a, 6).tolist(), np.round(b, 6).tolist()))
    except Exception as e:
        bad("eigenvalues", "%s: %s" % (type(e).__name__, str(e)[:200]), error=type(e).__name__)
    if cls["kind"] != "determinate":
        return
    ss = own_steady(spec)
    S = singles(spec)
    N = T_SHOCK + H_CONT
    F = spec.max_lead()
    tol = 1e-9

    def run(inputs, dev, n=N, **kw):
        res.ev()
        return Sim(spec, m, inputs, dev, n, **kw)

    def guard(label, inp, dev, fn):
        if only is not None and only != label:
            return None
        try:
            return fn()
        except Exception as e:
            bad("simulation_exception", "%s %r dev=%s: %s: %s" % (label, inp, dev, type(e).__name__, str(e)[:300]),
                input=list(map(list, inp)), mode=dev, input_kind=label, error=type(e).__name__)
            return None

    # (b) equations hold on every basis input, inputs returned unchanged, (e) level = steady + deviation
    resp = {}
    for dev in (True, False):
        base = guard("zero", (), dev, lambda: run((), dev))
        if base is None:
            return
        resp[(dev, ())] = base
        for inp in [()] + [(s,) for s in S]:
            sim = base if inp == () else guard("single", inp, dev, lambda: run(inp, dev))
            if sim is None:
                continue
            resp[(dev, inp)] = sim
            kind = inp[0][0] if inp else "zero"
            res.nt((name, "single", inp, dev))
            w, where, scale = max_resid(spec, sim, 0, N - F)
            if not (w <= tol * scale):
                bad("equation_residual", "input %r dev=%s: residual %.3e in equation %s at t=%s (scale %.2g)" % (inp, dev, w, where[0], where[1], scale),
                    input=list(map(list, inp)), mode=dev, input_kind=kind)
            # inputs unchanged: shocks over the whole span, variables before the start
            for n_ in sim.names():
                a, b = sim.arr[n_], sim.arr_in[n_]
                if n_[0] in "ewa":
                    ok = np.allclose(a, b, rtol=0, atol=1e-12, equal_nan=True)
                else:
                    ok = np.allclose(a[:sim.L], b[:sim.L], rtol=1e-12, atol=1e-12, equal_nan=True)
                if not ok:
                    bad("input_changed", "input %r dev=%s: %s differs from the input data" % (inp, dev, n_),
                        input=list(map(list, inp)), mode=dev, input_kind=kind)
        # zero input: deviation run stays at zero / level run stays at the harness's own steady state
        z = base
        for n_ in z.names():
            if n_[0] not in "vo":
                continue
            if not dev and ss is None:
                continue
            target = 0.0 if dev else ss[n_]
            if not np.allclose(z.arr[n_], target, rtol=1e-8, atol=1e-9):
                bad("steady_path", "zero-input %s path of %s leaves %r (max dev %.3e)" % ("deviation" if dev else "level", n_, target, np.nanmax(np.abs(z.arr[n_] - target))),
                    mode=dev, input_kind="zero")
    for s in S:
        a, b = resp.get((True, (s,))), resp.get((False, (s,)))
        if a is None or b is None:
            continue
        for n_ in a.names():
            if n_[0] not in "vo":
                continue
            # the steady path is the harness's own steady state where it is pinned down, else the zero-input level path
            ref_level = ss[n_] if ss is not None else resp[(False, ())].arr[n_]
            if not np.allclose(b.arr[n_] - ref_level, a.arr[n_], rtol=1e-8, atol=1e-9):
                bad("level_vs_deviation", "input %r: level - steady differs from deviation simulation for %s by %.3e"
                    % (s, n_, np.nanmax(np.abs(b.arr[n_] - ref_level - a.arr[n_]))), input=[list(s)], input_kind=s[0])
                break

    # (f) superposition (deviation bound 2)
    if quick:
        small = [S[0]] + [s for s in S if s[0] == "a" and s[2] == 2][:1] + [s for s in S if s[0] == "a" and s[2] == 3][-1:] \
                + [s for s in S if s[0] == "x"][:1] + [s for s in S if s[0] == "x"][-1:] + [s for s in S if s[0] == "w"][:1] + [s for s in S if s[0] == "u"][-1:]
        small = list(dict.fromkeys(small))
        pairs = list(itertools.combinations(small, 2))
        modes = (True,)
    else:
        pairs = list(itertools.combinations(S, 2))
        modes = (True, False)
    for dev in modes:
        zero = resp[(dev, ())]
        for p, q in pairs:
            sim = guard("pair", (p, q), dev, lambda: run((p, q), dev))
            if sim is None:
                continue
            res.nt((name, "pair", p, q, dev))
            a, b = resp.get((dev, (p,))), resp.get((dev, (q,)))
            if a is None or b is None:
                continue
            for n_ in sim.names():
                if n_[0] not in "vo":
                    continue
                lhs = sim.arr[n_] - zero.arr[n_]
                rhs = (a.arr[n_] - zero.arr[n_]) + (b.arr[n_] - zero.arr[n_])
                if not np.allclose(lhs, rhs, rtol=1e-8, atol=1e-9):
                    bad("superposition", "inputs %r + %r dev=%s: response of %s is not the sum of the single responses (%.3e)"
                        % (p, q, dev, n_, np.nanmax(np.abs(lhs - rhs))), input=[list(p), list(q)], mode=dev, input_kind="pair")
                    break
            w, where, scale = max_resid(spec, sim, 0, N - F)
            if not (w <= tol * scale):
                bad("equation_residual", "inputs %r + %r dev=%s: residual %.3e" % (p, q, dev, w), input=[list(p), list(q)], mode=dev, input_kind="pair")

    # (c) restart consistency for unanticipated shocks after the first period
    amp = 0.1 if spec.log else 1.0
    background = tuple([s for s in S if s[0] == "a" and s[2] == 3][:1] + [s for s in S if s[0] == "x"][:1])
    for dev in ((False,) if quick else (False, True)):
        p1 = guard("restart", background, dev, lambda: run(background, dev))
        if p1 is None:
            continue
        for i in range(spec.n):
            for d in (2, 3):
                shock = ("u", i, d, amp * 0.8)
                full = guard("restart", background + (shock,), dev, lambda: run(background + (shock,), dev))
                if full is None:
                    continue
                # the same run with one frame per information set (force_split_frames: the framing the simulator
                # itself switches to under some plans) is the same simulation
                full_s = guard("split_frames", background + (shock,), dev, lambda: run(background + (shock,), dev, split=True))
                if full_s is not None:
                    res.nt((name, "split_frames", i, d, dev))
                    res.count("split_frame_runs")
                    for n_ in full.names():
                        if n_[0] in "vo" and not np.allclose(full_s.arr[n_], full.arr[n_], rtol=1e-8, atol=1e-9, equal_nan=True):
                            bad("split_frames", "unanticipated %s at period %d + %r dev=%s: %s differs between split-frame and single-frame simulation by %.3e"
                                % (spec.shk(i), d, background, dev, n_, np.nanmax(np.abs(full_s.arr[n_] - full.arr[n_]))),
                                input=[list(x) for x in background + (shock,)], mode=dev, input_kind="split_frames")
                            break
                db2 = p1.out.copy()
                db2[spec.shk(i)][START + d - 1] = amp * 0.8

                def part2():
                    res.ev()
                    return Sim(spec, m, (), dev, N - (d - 1), start=START + d - 1, base_db=db2)
                p2 = guard("restart", (shock,), dev, part2)
                if p2 is None:
                    continue
                res.nt((name, "restart", i, d, dev))
                for n_ in full.names():
                    if n_[0] not in "vo":
                        continue
                    got = full.arr[n_][full.L:]
                    exp = np.concatenate([p1.arr[n_][p1.L:p1.L + d - 1], p2.arr[n_][p2.L:]])
                    if not np.allclose(got, exp, rtol=1e-8, atol=1e-9):
                        bad("restart", "unanticipated %s at period %d dev=%s: %s differs from simulate-then-restart by %.3e"
                            % (spec.shk(i), d, dev, n_, np.nanmax(np.abs(got - exp))), input=[list(shock)], mode=dev, input_kind="restart")
                        break

    # (c2) split frames on a composite: every basis input at once plus unanticipated shocks at dates 2 and 3
    for dev in (True, False):
        comp2 = tuple(S) + tuple(("u", i, d, amp * (0.4 + 0.1 * d + 0.05 * i)) for i in range(spec.n) for d in (2, 3))
        one = guard("split_frames", comp2, dev, lambda: run(comp2, dev))
        many = guard("split_frames", comp2, dev, lambda: run(comp2, dev, split=True))
        if one is None or many is None:
            continue
        res.nt((name, "split_frames_composite", dev))
        res.count("split_frame_runs")
        # (unanticipated shocks after period 1 are surprises: the equations of earlier periods hold in expectation
        # only, so this input is judged differentially; (c) ties the single-frame run to restarts)
        for n_ in one.names():
            if n_[0] in "vo" and not np.allclose(many.arr[n_], one.arr[n_], rtol=1e-8, atol=1e-9, equal_nan=True):
                bad("split_frames", "composite input dev=%s: %s differs between split-frame and single-frame simulation by %.3e"
                    % (dev, n_, np.nanmax(np.abs(many.arr[n_] - one.arr[n_]))), input=[list(x) for x in comp2], mode=dev, input_kind="split_frames")
                break

    # (c3) options that only shape the returned databox must not change the simulated path
    for dev in (True, False):
        comp3 = tuple(S)
        ref3 = guard("options", comp3, dev, lambda: run(comp3, dev))
        if ref3 is None:
            continue
        for label, kw in (("prepend_input=False", {"prepend_input": False}), ("remove_initial=False", {"remove_initial": False}),
                          ("remove_terminal=False", {"remove_terminal": False}), ("num_variants=1", {"num_variants": 1}),
                          ("target_db", "target_db")):
            def with_option():
                if kw == "target_db":
                    return run(comp3, dev, sim_kw={"target_db": ir.Databox()})
                return run(comp3, dev, sim_kw=kw)
            alt = guard("options", comp3, dev, with_option)
            if alt is None:
                continue
            res.nt((name, "options", label, dev))
            res.count("option_runs")
            for n_ in ref3.names():
                if n_[0] not in "vo":
                    continue
                a, b = alt.arr[n_][alt.L:], ref3.arr[n_][ref3.L:]
                if not np.allclose(a, b, rtol=1e-12, atol=1e-12, equal_nan=True):
                    bad("options", "%s dev=%s: %s on the simulated span differs from the default call by %.3e"
                        % (label, dev, n_, np.nanmax(np.abs(a - b))), input=[list(x) for x in comp3], mode=dev, input_kind="options")
                    break

    # (c4) one model, several scenario columns in the data: num_variants larger than the model's own number of
    #      variants; column k must be the simulation of scenario k
    for dev in (True, False):
        groups = [tuple(S[0::3]), tuple(S[1::3]), tuple(S[2::3])]
        sims = [guard("data_variants", g, dev, lambda g=g: run(g, dev)) for g in groups]
        if any(x is None for x in sims):
            continue

        def three_columns():
            L_ = sims[0].L
            fu = (START - L_, START + N - 1)
            db3 = ir.Databox.steady(m, sims[0].span, deviation=dev)
            for n_ in sims[0].names():
                cols = []
                for sm in sims:
                    a = sm.db_in[n_].get_data_from_until(fu)[:, 0].astype(float) if n_ in sm.db_in else np.zeros(N + L_)
                    cols.append(np.nan_to_num(a) if n_[0] in "ewa" else a)
                db3[n_] = ir.Series(start=START - L_, values=np.column_stack(cols))
            res.ev()
            with contextlib.redirect_stdout(io.StringIO()):
                return m.simulate(db3, sims[0].span, method="first_order", deviation=dev, num_variants=3)
        out3 = guard("data_variants", groups[0], dev, three_columns)
        if out3 is None:
            continue
        res.nt((name, "data_variants", dev))
        res.count("data_variant_runs")
        done = False
        for n_ in sims[0].names():
            if n_[0] not in "vo" or done:
                continue
            a3 = out3[n_].get_data_from_until((START, START + N - 1)) if n_ in out3 else None
            for k, sm in enumerate(sims):
                b = sm.out[n_].get_data_from_until((START, START + N - 1))[:, 0]
                if a3 is None or a3.shape[1] != 3 or not np.allclose(a3[:, k], b, rtol=1e-10, atol=1e-12, equal_nan=True):
                    bad("data_variants", "dev=%s %s: column %d of a num_variants=3 run on a single-variant model differs from the simulation of scenario %d"
                        % (dev, n_, k, k), input=[list(x) for x in groups[k]], mode=dev, input_kind="data_variants")
                    done = True
                    break

    # (d) non-explosive: composite input over a long horizon, deviation mode
    comp = tuple(S)
    long_ = guard("long", comp, True, lambda: run(comp, True, n=T_SHOCK + H_LONG))
    if long_ is not None:
        res.nt((name, "long"))
        dist = np.zeros(T_SHOCK + H_LONG)
        for n_ in long_.names():
            if n_[0] == "v":
                dist = np.maximum(dist, np.abs(long_.arr[n_][long_.L:]))
        dmax = float(np.nanmax(dist)) if np.all(np.isfinite(dist)) else np.inf
        rho = cls["rho_max"]
        t_end = T_SHOCK + H_LONG - 1
        bound = 100.0 * (min(rho + 0.02, 0.9999)) ** (t_end - T_SHOCK) * max(dmax, 1.0) + 1e-8
        half = T_SHOCK + H_LONG // 2
        d1, d2 = float(np.max(dist[T_SHOCK:half])), float(np.max(dist[half:]))
        if cls.get("num_unit"):
            bound = np.inf           # unit roots: bounded, not decaying
            res.count("models_with_unit_roots")
        if not np.isfinite(dmax) or dist[-1] > bound or (rho <= 0.96 and d2 > d1 * (1 + 1e-6) + 1e-8):
            bad("explosive", "distance from steady state at the end of %d periods is %.3e (oracle bound %.3e, largest stable root %.4f, "
                "window maxima %.3e -> %.3e)" % (H_LONG, dist[-1], bound, rho, d1, d2), input_kind="long", mode=True)
    # (g) parameter variants: variant k of a two-variant model simulates like the single-variant model with variant
    #     k's parameters and variant k's own shocks / initial conditions
    if only is None or only == "variants":
        try:
            check_variants(spec, m, S, res, bad)
        except Exception as e:
            bad("simulation_exception", "variants: %s: %s" % (type(e).__name__, str(e)[:300]), input_kind="variants", error=type(e).__name__)
    res.sample({"model": name, "singles": len(S), "pairs": len(pairs), "class": cls["kind"]})


def scaled_spec(spec, factor):
    d = spec.to_json()
    for e in d["eqs"]:
        e["terms"] = [(j, s_, c * (factor if abs(c) != 1.0 else 1.0)) for (j, s_, c) in e["terms"]]
    sp = linre.LinSpec.from_json(d)
    sp.name = spec.name + "_scaled"
    return sp


def check_variants(spec, m, S, res, bad):
    spec_b = scaled_spec(spec, 0.93)
    cls_b = spec_b.classify()
    if cls_b["kind"] != "determinate" or cls_b.get("num_unit", 0) != spec.classify().get("num_unit", 0):
        res.exclude("variant_parameters_not_determinate")
        return
    m_b = build(spec_b)
    with contextlib.redirect_stdout(io.StringIO()):
        m2 = m.copy()
        m2.alter_num_variants(2)
        pa, pb = spec.param_values(), spec_b.param_values()
        m2.assign(**{k: [pa[k], pb[k]] for k in pa})
        m2.steady()
        m2.solve()
    n_per = T_SHOCK + 8
    span = START >> (START + n_per - 1)
    amp = 0.1 if spec.log else 1.0
    inputs = [tuple(x for x in S if x[0] == "u")[:1] + tuple(x for x in S if x[0] == "a" and x[2] == 3)[:1] + tuple(x for x in S if x[0] == "x")[:1],
              tuple(x for x in S if x[0] == "u")[-1:] + tuple(x for x in S if x[0] == "a" and x[2] == 2)[-1:]]
    for dev in (False, True):
        singles_out = [Sim(spec, m, inputs[0], dev, n_per), Sim(spec_b, m_b, inputs[1], dev, n_per)]
        res.ev(3)
        # two-variant databox: column k holds variant k's inputs
        db2 = ir.Databox.steady(m2, span, deviation=dev)
        L = spec.max_lag()
        for n_ in singles_out[0].names():
            if n_[0] not in "ea" and n_[0] != "v":
                continue
            if n_ not in db2:
                continue
            cols = []
            for k in range(2):
                a = singles_out[k].db_in[n_].get_data_from_until((START - L, START + n_per - 1))[:, 0] if n_ in singles_out[k].db_in else np.zeros(n_per + L)
                cols.append(a)
            arr2 = np.column_stack(cols)
            if n_[0] == "v":
                # only the initial conditions are inputs
                ser = db2[n_]
                if ser.num_variants == 1:
                    ser.alter_num_variants(2)
                for r_ in range(L):
                    ser[START - L + r_] = arr2[r_:r_ + 1, :]
            else:
                db2[n_] = ir.Series(start=START - L, values=np.nan_to_num(arr2))
        with contextlib.redirect_stdout(io.StringIO()):
            out2 = m2.simulate(db2, span, method="first_order", deviation=dev)
        res.nt((spec.name, "variants", dev))
        res.count("variant_runs")
        for n_ in singles_out[0].names():
            if n_[0] not in "vo":
                continue
            a2 = out2[n_].get_data_from_until((START, START + n_per - 1))
            for k in range(2):
                col = a2[:, k] if a2.shape[1] > 1 else a2[:, 0]
                b = singles_out[k].out[n_].get_data_from_until((START, START + n_per - 1))[:, 0]
                if not np.allclose(col, b, rtol=1e-8, atol=1e-9):
                    bad("variant_mismatch", "dev=%s %s variant %d: two-variant run %s, single-variant model with the same parameters and inputs %s"
                        % (dev, n_, k, np.round(col[:6], 8).tolist(), np.round(b[:6], 8).tolist()), input_kind="variants", mode=dev)
                    return


def shard(item, res, ctx):
    spec = linre.LinSpec.from_json(item)
    try:
        check_model(spec, res, ctx)
    except Exception as e:
        import traceback
        res.violation("harness_or_api_exception", {"error": type(e).__name__, "n": spec.n, "log": spec.log}, {"spec": item},
                      "%s: %s\n%s" % (type(e).__name__, e, traceback.format_exc()[-800:]))


def run(ctx, total, info):
    fam = linre.family(ctx.tier, ctx.seed) + linre.lagged_shock_specs()
    # determinate + large models first (they cost the most)
    fam.sort(key=lambda s: -(s.n * 10 + s.max_lag() + s.max_lead()))
    engine.run_shards(__name__, "shard", [s.to_json() for s in fam], ctx, total)
    info["models"] = len(fam)
    info["exhaustive"] = True
    info["bound_completed"] = 2
    c = total.counters
    info["floors"] = {"models": (len(fam), 300), "determinate": (c.get("oracle_determinate", 0), 150),
                      "indeterminate": (c.get("oracle_indeterminate", 0), 15), "no_stable": (c.get("oracle_no_stable", 0), 30),
                      "distinct_cases": (len(total.nontrivial), 8000),
                      "unit_root_models": (c.get("models_with_unit_roots", 0), 5), "variant_runs": (c.get("variant_runs", 0), 300),
                      "split_frame_runs": (c.get("split_frame_runs", 0), 500),
                      "option_runs": (c.get("option_runs", 0), 1500),
                      "data_variant_runs": (c.get("data_variant_runs", 0), 500)}


def replay(case):
    res = engine.Result()
    spec = linre.LinSpec.from_json(case["spec"])
    check_model(spec, res, engine.Ctx("quick", 0))
    return ["%s %s %s" % (v["check"], engine.sigkey(v["signature"]), v["detail"]) for v in res.violations]
