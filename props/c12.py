"""C12 — aggregation and disaggregation respect calendar membership and are consistent.

Bounded exhaustive enumeration against the real irispie.aggregate / irispie.disaggregate
(function form and in-place method form), compared with ref/c12_reference.py which is
written from the docstrings and ref/calendar (datetime only):

Part A  regular -> regular aggregation: every (source, coarser target) pair x every start
        segment x every length up to two target periods + 1 x every missing mask (short
        lengths) / every mask with few missing cells (longer) x 8 methods x discard_missing
        x 4 `select` settings.  The masks of one (start, length) are the columns of one
        multi-variant Series ("wide"), plus the same space with 1- and 2-variant Series on
        a smaller mask set ("narrow", also exercising the in-place method form).
Part B  daily -> M/Q/H/Y aggregation: leap-year / month-length / year-end sensitive starts
        x length tables x masks at the calendar-sensitive positions.
Part C  disaggregate to a finer regular frequency (flat/first/middle/last): placement and
        the documented round trips through aggregate.
Part D  disaggregate to DAILY: placement by calendar days (known finding: fixed 365//f).
Part E  arip: aggregation constraints, targets, first-order optimality of the documented
        criterion on the null space of the constraints, round trip through aggregate.
"""
import datetime as dt
import itertools
import math
import time

import numpy as np

import irispie as ir
from irispie import dates as D

from mc import engine
from ref import calendar as C
from ref import c12_reference as R

PROPERTY = "C12"
LEVEL = "exploration"
RULE = ("cases = (source frequency, target frequency, start period, length, missing mask, variants, method, "
        "discard_missing, select | disaggregation method | arip model, aggregation, target series, missing low "
        "observations); every case of the stated product is executed against irispie and compared with a "
        "group-by-calendar-containment reference; the masks of one (start, length) are evaluated as the columns "
        "of one multi-variant Series (wide) and again as 1-/2-variant Series on a smaller mask set (narrow); "
        "distinct non-trivial = distinct (part, frequencies, start, length, configuration, form) whose expected "
        "output has at least one non-missing value; evaluations = calls of the implementation")
MANIFEST_ENTRY = dict(
    level="exploration", design="DESIGN.md section 4 / C12",
    technique="bounded exhaustive enumeration of (frequency pair, start, length, missing mask, method, options) against a calendar-containment reference; KKT-free null-space optimality oracle for arip",
    text=("aggregate: all 6 regular pairs x every start segment x lengths 1..2k+1 (thorough 3k+1) x all missing masks "
          "(length <= 8 quick / 10 thorough; <= 2 / 3 missing above) x {mean,sum,prod,first,last,min,max,callable} x "
          "discard_missing x select {None,[0],[-1],[0,1]}; daily -> M/Q/H/Y from leap-, month-end- and year-end-"
          "sensitive starts (quick ~120, thorough ~900 start days in 1899-1901, 1999-2001, 2019-2021); disaggregate "
          "flat/first/middle/last for all 6 regular pairs and to DAILY, with the documented round trips; arip for "
          "factors 2,2,3,4,6,12, 3-5 (thorough 3-6) low periods, rate/diff x sum/mean/first/last, targets none / one "
          "cell / full low period, missing low observations: constraints and targets to 1e-9, projected gradient of "
          "the documented criterion on the constraint null space, round trip through aggregate"),
    note=("Trusted: Python datetime/calendar, numpy SVD/lstsq, ref/calendar.py, ref/c12_reference.py. Not asserted: "
          "min/max of groups containing NaN; which of the two central members is 'middle' for an even factor; arip "
          "with redundant/conflicting targets; arip to DAILY; arip custom aggregation vectors; values off the fixed "
          "positive tables."))
ASSUMPTIONS = [
    "Python datetime/calendar are a correct proleptic Gregorian calendar",
    "select indexes positions within the complete calendar group (before discard_missing), as the option text says",
    "for an even number of members 'middle' may be either central member (the docstring does not say)",
    "arip criterion = sum_{t>=1} ((x_t - rho x_{t-1} - c)/sigma_t)^2 with rho, c, sigma_t as in the docstring "
    "(geometric average gross rate / average difference between the first and last observed low-frequency value, "
    "converted with exponent / factor 1/n); no penalty on the initial condition",
    "an arip target that fixes a cell carrying the whole weight of a first/last aggregation, and fully targeted "
    "low periods at the edge of the sample (rho/c estimation sample undocumented), are not gated for optimality",
]

NAN = float("nan")
FREQ = {C.Y: D.Frequency.YEARLY, C.H: D.Frequency.HALFYEARLY, C.Q: D.Frequency.QUARTERLY,
        C.M: D.Frequency.MONTHLY, C.D: D.Frequency.DAILY}
CTOR = {C.Y: lambda y, s=1: ir.yy(y), C.H: ir.hh, C.Q: ir.qq, C.M: ir.mm}
CODE = {v: k for k, v in C.NAMES.items()}
TOL = 1e-9

AGG_PAIRS = [(C.M, C.Y), (C.M, C.H), (C.M, C.Q), (C.Q, C.Y), (C.Q, C.H), (C.H, C.Y)]     # (source, target)
DIS_PAIRS = [(C.Y, C.M), (C.H, C.M), (C.Q, C.M), (C.Y, C.Q), (C.H, C.Q), (C.Y, C.H)]     # (source, target)
SELECTS = (None, (0,), (-1,), (0, 1))
CONFIGS = [(m, d, s) for s in SELECTS for m in R.AGG_METHODS for d in (False, True)]
NARROW_CONFIGS = ([(m, d, None) for m in R.AGG_METHODS for d in (False, True)]
                  + [(m, d, s) for s in SELECTS[1:] for m in ("callable", "last") for d in (False, True)])
DAILY_CONFIGS = [("mean", False, None), ("sum", True, None), ("first", False, None), ("last", False, None),
                 ("callable", False, None), ("callable", True, None), ("callable", True, (-1,)),
                 ("prod", False, (0, 1)), ("last", True, (0,))]
ROUNDTRIPS = [("flat", "mean"), ("flat", "first"), ("flat", "last"), ("flat", "min"), ("flat", "max"),
              ("first", "first"), ("last", "last")]
DIS_METHODS = ("flat", "first", "middle", "last")


# ---------------------------------------------------------------------------
# bridging real objects <-> reference ordinals (public constructors / accessors only)
# ---------------------------------------------------------------------------

def mk(freq, o):
    if freq == C.D:
        d = dt.date.fromordinal(o)
        return ir.dd(d.year, d.month, d.day)
    y, s = C.year_segment(freq, o)
    return CTOR[freq](y, s)


def ordof(freq, p):
    if freq == C.D:
        return dt.date(*p.to_ymd()).toordinal()
    y, s = p.to_year_segment()
    return y * freq + s - 1


def build(freq, start, V):
    return ir.Series(start=mk(freq, start), values=np.array(V, dtype=float))


def observe(freq, s):
    """(first ordinal | None, rows x variants array, frequency ok?)"""
    if s.start is None:
        return None, np.zeros((0, s.num_variants)), True
    return ordof(freq, s.start), np.array(s.data, dtype=float), s.frequency == FREQ[freq]


def the_method(name):
    return R.user_callable if name == "callable" else name


def values(L, nc, seed, salt=0):
    """fixed positive value table in [0.6, 1.6], distinct in every window, column-dependent"""
    i = np.arange(L)[:, None]
    j = np.arange(nc)[None, :]
    return 0.6 + ((i * 37 + seed * 11 + salt * 5) % 101) / 100.0 + 0.0007 * (j % 13)


def parse_values(v):
    return np.array([[float(a) for a in row] for row in v], dtype=float)


def select_kind(sel):
    return "none" if sel is None else ("single" if len(sel) == 1 else "multi")


# ---------------------------------------------------------------------------
# masks
# ---------------------------------------------------------------------------

def masks_all(L):
    """every mask except 'everything missing'; the empty mask first"""
    return [tuple(i for i in range(L) if m >> i & 1) for m in range(2 ** L - 1)]


def masks_upto(positions, k):
    out = []
    for r in range(k + 1):
        out.extend(itertools.combinations(positions, r))
    return out


def apply_masks(L, masks, seed, salt=0):
    V = values(L, len(masks), seed, salt)
    for j, m in enumerate(masks):
        for i in m:
            V[i, j] = NAN
    return V


def align(lo_e, E, lo_g, G):
    nc = E.shape[1]
    hi_e = lo_e + E.shape[0] - 1
    if lo_g is None or G.shape[0] == 0:
        lo, hi = lo_e, hi_e
    else:
        lo, hi = min(lo_e, lo_g), max(hi_e, lo_g + G.shape[0] - 1)
    EE = np.full((hi - lo + 1, nc), NAN)
    GG = np.full((hi - lo + 1, nc), NAN)
    EE[lo_e - lo: lo_e - lo + E.shape[0]] = E
    if lo_g is not None and G.shape[0]:
        GG[lo_g - lo: lo_g - lo + G.shape[0]] = G
    return lo, EE, GG


def mismatch(EE, GG, AA=None, tol=TOL):
    with np.errstate(invalid="ignore"):
        close = np.abs(GG - EE) <= tol * np.maximum(1.0, np.abs(EE))
    ok = (np.isnan(EE) & np.isnan(GG)) | close
    bad = ~ok
    if AA is not None:
        bad &= AA
    return bad


def viol(res, check, sig, case, detail=""):
    """record a violation; the stored case names the failing check so that a replay reports that check only"""
    res.violation(check, sig, dict(case, check=check), detail)


def once(res, check, sig, limit=1):
    """at most `limit` records per (check, signature) and shard: the engine keeps 40 violations per shard, and
    a known finding that fires on every call must not crowd out anything else"""
    seen = res.__dict__.setdefault("_c12_seen", {})
    k = check + engine.sigkey(sig)
    seen[k] = seen.get(k, 0) + 1
    return seen[k] <= limit


def kind_of(e, g):
    if e != e:
        return "spurious_value"
    if g != g:
        return "missing_value"
    return "wrong_value"


# ---------------------------------------------------------------------------
# aggregate: one call, all columns
# ---------------------------------------------------------------------------

def call_aggregate(src, tgt, start, V, method, discard, select, form):
    x = build(src, start, V)
    kw = dict(method=the_method(method), discard_missing=discard, select=None if select is None else list(select))
    if form == "func":
        return x, ir.aggregate(x, FREQ[tgt], **kw)
    x.aggregate(FREQ[tgt], **kw)
    return x, x


def check_aggregate(res, src, tgt, start, V, method, discard, select, form="func", pivot=True, note=None):
    """Run ONE aggregate call on the Series (start, V) and compare every column with the
    reference.  Returns the number of violations recorded."""
    L, nc = V.shape
    # (frequencies are in the case, not in the signature: the master keeps at most 400 violations, and the
    #  signature only has to separate failure classes)
    sig = {"op": "aggregate", "source": "daily" if src == C.D else "regular", "method": method, "discard": bool(discard),
           "select_kind": select_kind(select)}

    def case_for(j=None):
        W = V if (j is None or nc <= 2) else V[:, [j, 0]]     # failing column + the unmasked column (keeps the span)
        return {"part": "aggregate", "src": C.NAMES[src], "tgt": C.NAMES[tgt], "start": int(start),
                "values": W.tolist(), "method": method, "discard": bool(discard),
                "select": None if select is None else list(select), "form": form}
    res.ev()
    try:
        x, out = call_aggregate(src, tgt, start, V, method, discard, select, form)
    except Exception as e:
        res.count("aggregate_exceptions")
        sg = dict(sig, error=type(e).__name__)
        if once(res, "aggregate_exception", sg):
            culprit = None
            if nc > 2:                      # find one column that raises on its own (next to the unmasked column)
                for j in range(nc):
                    try:
                        call_aggregate(src, tgt, start, V[:, [j, 0]], method, discard, select, form)
                    except Exception as e2:
                        if type(e2) is type(e):
                            culprit = j
                            break
            viol(res, "aggregate_exception", sg, case_for(culprit) if (culprit is not None or nc <= 2) else case_for(),
                          "%s: %s" % (type(e).__name__, str(e)[:200]))
        return 1
    lo_g, G, freq_ok = observe(tgt, out)
    if not freq_ok or G.shape[1] != nc:
        viol(res, "aggregate_shape", sig, case_for(), "frequency %s variants %d (expected %s, %d)"
                      % (out.frequency, G.shape[1], FREQ[tgt], nc))
        return 1
    if form == "func" and nc <= 2:
        lo_k, Gk, _ = observe(src, x)
        lo_0, G0, _ = observe(src, build(src, start, V))
        if lo_k != lo_0 or Gk.shape != G0.shape or not np.array_equal(Gk, G0, equal_nan=True):
            res.count("observed_function_form_changed_input")
    lo_e, E, A = R.aggregate(src, tgt, start, V, method, discard, select)
    lo, EE, GG = align(lo_e, E, lo_g, G)
    AA = np.ones(EE.shape, dtype=bool)
    AA[lo_e - lo: lo_e - lo + A.shape[0]] = A
    bad = mismatch(EE, GG, AA)
    res.count("cells_compared", int(AA.sum()))
    res.count("cells_unasserted_minmax_nan", int((~AA).sum()))
    res.count("columns_compared", nc)
    if pivot:
        # second method: plain-Python group-by on up to three columns (self-check of the reference)
        for j in sorted({0, nc // 2, nc - 1}):
            one = R.aggregate_one_column(src, tgt, start, V[:, j], method, discard, select)
            for p, (val, asserted) in one.items():
                e = E[p - lo_e, j]
                if asserted != bool(A[p - lo_e, j]) or (asserted and not ((val != val and e != e)
                                                                           or abs(val - e) <= 1e-12 * max(1.0, abs(e)))):
                    raise RuntimeError("reference self-check failed: %r" % ((src, tgt, start, j, p, val, e, method, discard, select),))
    fin = np.isfinite(E) & A
    if fin.any():
        res.nt(("agg", src, tgt, start, L, nc, method, discard, select, form, note))
    res.cls("aggregate_outcome", (C.NAMES[src], C.NAMES[tgt], method, bool(discard), select_kind(select),
                                  bool(fin.any()), bool((np.isnan(E) & A).any()), bool((~A).any())))
    if not bad.any():
        return 0
    nv = 0
    seen = set()
    for r, j in zip(*np.nonzero(bad)):
        k = kind_of(EE[r, j], GG[r, j])
        if k in seen:
            continue
        seen.add(k)
        nv += 1
        viol(res, "aggregate_value", dict(sig, kind=k), case_for(int(j)),
                      "target period ordinal %d column %d: got %r expected %r" % (lo + r, j, GG[r, j], EE[r, j]))
    return nv


def shard_agg_regular(item, res, ctx):
    src, tgt, start, L, mode, lfull, kmax = item
    configs_narrow = NARROW_CONFIGS if ctx.quick else CONFIGS
    if mode == "wide":
        masks = masks_all(L) if L <= lfull else masks_upto(range(L), kmax)
        V = apply_masks(L, masks, ctx.seed)
        for (m, d, s) in CONFIGS:
            check_aggregate(res, src, tgt, start, V, m, d, s, note="w")
        res.count("masks_enumerated_wide", len(masks))
        res.cls("wide_shape", (src, tgt, L, len(masks)))
        if L == lfull:
            res.sample({"part": "aggregate", "src": C.NAMES[src], "tgt": C.NAMES[tgt], "start": start, "length": L,
                        "masks": len(masks), "configs": len(CONFIGS)})
        return
    # narrow: 1- and 2-variant Series, function form and in-place form
    masks = masks_all(L) if L <= lfull else masks_upto(range(L), 1)
    for jm, mask in enumerate(masks):
        other = masks[(jm + 1) % len(masks)]
        V1 = apply_masks(L, [mask], ctx.seed, salt=1)
        V2 = apply_masks(L, [mask, other], ctx.seed, salt=2)
        for (m, d, s) in configs_narrow:
            check_aggregate(res, src, tgt, start, V1, m, d, s, form="func", pivot=False, note=jm)
            check_aggregate(res, src, tgt, start, V2, m, d, s, form="inplace", pivot=False, note=jm)
    res.count("masks_enumerated_narrow", len(masks))


# ---------------------------------------------------------------------------
# daily -> regular
# ---------------------------------------------------------------------------

def sensitive_positions(start, L):
    """indexes of the days whose absence matters most: ends of the series and both sides of
    every month boundary inside the span"""
    pos = {0, 1, L - 2, L - 1, L // 2}
    for i in range(L):
        d = dt.date.fromordinal(start + i)
        if d.day == 1:
            pos.update((i - 1, i))
    return sorted(p for p in pos if 0 <= p < L)


def shard_agg_daily(item, res, ctx):
    tgt, start, lengths, mode, kmax, lfull = item
    for L in lengths:
        if mode == "membership":
            masks = masks_upto(sensitive_positions(start, L), kmax)
            masks = [m for m in masks if len(m) < L]
            V = apply_masks(L, masks, ctx.seed)
            for (m, d, s) in DAILY_CONFIGS:
                check_aggregate(res, C.D, tgt, start, V, m, d, s, note="dm")
        else:
            masks = masks_all(L) if L <= lfull else [m for m in masks_upto(sensitive_positions(start, L), kmax) if len(m) < L]
            V = apply_masks(L, masks, ctx.seed)
            for (m, d, s) in CONFIGS:
                check_aggregate(res, C.D, tgt, start, V, m, d, s, note="dc")
            # narrow forms on the unmasked and one masked column
            for (m, d, s) in DAILY_CONFIGS:
                check_aggregate(res, C.D, tgt, start, V[:, :1], m, d, s, form="inplace", pivot=False, note="dn1")
                check_aggregate(res, C.D, tgt, start, V[:, [len(masks) - 1, 0]], m, d, s, form="func", pivot=False, note="dn2")
        res.count("masks_enumerated_daily", len(masks))
        d0 = dt.date.fromordinal(start)
        res.cls("daily_layout", (C.NAMES[tgt], d0.year, d0.month, d0.day, L))
    res.sample({"part": "aggregate_daily", "tgt": C.NAMES[tgt], "start": str(dt.date.fromordinal(start)),
                "lengths": list(lengths), "mode": mode})


# ---------------------------------------------------------------------------
# disaggregate (flat / first / middle / last) and round trips
# ---------------------------------------------------------------------------

def check_disaggregate(res, src, tgt, start, V, method, form="func", roundtrips=True):
    L, nc = V.shape
    sig = {"op": "disaggregate", "src": C.NAMES[src], "target": C.NAMES[tgt], "method": method}

    def case_for(j=None, extra=None):
        W = V if (j is None or nc <= 2) else V[:, [j, 0]]
        c = {"part": "disaggregate", "src": C.NAMES[src], "tgt": C.NAMES[tgt], "start": int(start),
             "values": W.tolist(), "method": method, "form": form, "roundtrips": bool(roundtrips)}
        c.update(extra or {})
        return c
    res.ev()
    x = build(src, start, V)
    try:
        if form == "func":
            out = ir.disaggregate(x, FREQ[tgt], method=method)
        else:
            out = x.copy()
            out.disaggregate(FREQ[tgt], method=method)
    except Exception as e:
        viol(res, "disaggregate_exception", dict(sig, error=type(e).__name__), case_for(),
                      "%s: %s" % (type(e).__name__, str(e)[:200]))
        return 1
    lo_g, G, freq_ok = observe(tgt, out)
    if not freq_ok or G.shape[1] != nc:
        viol(res, "disaggregate_shape", sig, case_for(), "frequency %s variants %d" % (out.frequency, G.shape[1]))
        return 1
    # 'middle': pick, per low period, the accepted index that the implementation used (if any)
    mid = None
    if method == "middle":
        mid = {}
        for i in range(L):
            mem = C.members(tgt, src, start + i)
            cand = R.middle_candidates(src, tgt, start + i)
            for k in cand:
                if lo_g is None:
                    break
                r = mem[k] - lo_g
                if 0 <= r < G.shape[0] and np.isfinite(G[r]).any():
                    mid[i] = k
                    res.cls("observed_middle_index", (C.NAMES[src], C.NAMES[tgt], len(mem), k))
                    break
    lo_e, E = R.disaggregate(src, tgt, start, V, method, mid)
    lo, EE, GG = align(lo_e, E, lo_g, G)
    bad = mismatch(EE, GG)
    res.count("cells_compared", int(EE.size))
    res.count("columns_compared", nc)
    if np.isfinite(E).any():
        res.nt(("dis", src, tgt, start, L, nc, method, form))
    res.cls("disaggregate_layout", (C.NAMES[src], C.NAMES[tgt], method,
                                    tuple(sorted({len(C.members(tgt, src, start + i)) for i in range(L)}))))
    nv = 0
    if bad.any():
        pattern = "n/a"
        if tgt == C.D:
            lo_f, Ef = R.disaggregate_fixed_factor(src, tgt, start, V, method)
            _, EF, GF = align(lo_f, Ef, lo_g, G)
            pattern = "other" if mismatch(EF, GF).any() else "fixed_365_div_f"
        r, j = [int(a[0]) for a in np.nonzero(bad)]
        res.count("disagg_position_failures")
        if once(res, "disagg_positions", dict(sig, pattern=pattern)):
            viol(res, "disagg_positions", dict(sig, pattern=pattern), case_for(j, {"roundtrips": False}),
                      "fine period ordinal %d (%s) column %d: got %r expected %r; result rows %d expected %d"
                      % (lo + r, C.sdmx(tgt, lo + r), j, GG[r, j], EE[r, j], G.shape[0], E.shape[0]))
        res.count("roundtrip_skipped_after_position_failure")
        return 1
    if not roundtrips:
        return 0
    # documented round trips
    for dm, am in ROUNDTRIPS:
        if dm != method:
            continue
        res.ev()
        try:
            back = ir.aggregate(out, FREQ[src], method=am)
        except Exception as e:
            viol(res, "roundtrip", dict(sig, amethod=am, error=type(e).__name__), case_for(extra={"amethod": am}),
                          "%s: %s" % (type(e).__name__, str(e)[:200]))
            nv += 1
            continue
        lo_b, B, ok = observe(src, back)
        if not ok or B.shape[1] != nc:
            viol(res, "roundtrip", dict(sig, amethod=am, kind="shape"), case_for(extra={"amethod": am}))
            nv += 1
            continue
        lo2, VV, BB = align(start, V, lo_b, B)
        AA = None
        if am in ("min", "max"):
            AA = np.isfinite(VV)          # groups of NaN under min/max: not asserted
        b2 = mismatch(VV, BB, AA)
        if np.isfinite(V).any():
            res.nt(("rt", src, tgt, start, L, nc, dm, am, form))
        if b2.any():
            r, j = [int(a[0]) for a in np.nonzero(b2)]
            viol(res, "roundtrip", dict(sig, amethod=am, kind=kind_of(VV[r, j], BB[r, j])),
                          case_for(j, {"amethod": am}),
                          "low period ordinal %d column %d: got %r original %r" % (lo2 + r, j, BB[r, j], VV[r, j]))
            nv += 1
    return nv


def shard_disaggregate(item, res, ctx):
    src, tgt, start, lmax, lfull = item
    for L in range(1, lmax + 1):
        masks = masks_all(L) if L <= lfull else masks_upto(range(L), 1)
        V = apply_masks(L, masks, ctx.seed, salt=3)
        for method in DIS_METHODS:
            check_disaggregate(res, src, tgt, start, V, method)
            # narrow: every mask as a 1-variant Series (in place) and 2-variant Series (function)
            narrow = masks if tgt != C.D else masks[:3]
            for jm in range(len(narrow)):
                check_disaggregate(res, src, tgt, start, V[:, [jm]], method, form="inplace")
                check_disaggregate(res, src, tgt, start, V[:, [jm, (jm + 1) % len(masks)]], method, form="func")
        res.count("masks_enumerated_disaggregate", len(masks))
    res.sample({"part": "disaggregate", "src": C.NAMES[src], "tgt": C.NAMES[tgt], "start": C.sdmx(src, start),
                "lengths": [1, lmax], "methods": list(DIS_METHODS), "roundtrips": ROUNDTRIPS})


# ---------------------------------------------------------------------------
# arip
# ---------------------------------------------------------------------------

ARIP_TABLES = [
    [10.0, 12.0, 15.0, 14.0, 13.0, 16.5, 18.0, 17.0],
    [5.0, 4.6, 6.1, 7.0, 6.4, 8.2, 7.7, 9.1],
    [100.0, 103.0, 101.5, 108.0, 112.0, 110.0, 115.5, 121.0],
    [2.0, 2.6, 2.3, 3.1, 3.9, 3.5, 4.4, 5.2],
]


def arip_values(L, nc, seed):
    cols = []
    for j in range(nc):
        t = ARIP_TABLES[(seed + j) % len(ARIP_TABLES)]
        cols.append(t[:L])
    return np.array(cols, dtype=float).T


def consistent_full_target(n, yv, agg):
    w = 1.0 + 0.1 * np.arange(n) * (1 - 2 * (np.arange(n) % 2))      # 1, 0.9, 1.2, 0.7, ...
    if agg == "sum":
        return yv * w / w.sum()
    if agg in ("mean", "avg"):
        return yv * w / w.mean()
    t = yv * w
    t[0 if agg == "first" else n - 1] = yv
    return t


def check_arip(res, src, tgt, start, Y, form, agg, tvec, tkind, call_form="func"):
    """one arip call; Y: low periods x variants (NaN = missing low observation);
    tvec: high-frequency target vector (NaN = no target) or None"""
    L, nc = Y.shape
    n = tgt // src
    T = n * L
    sig = {"op": "arip", "model": form, "aggregation": agg}
    case = None

    def mkcase():
        return {"part": "arip", "src": C.NAMES[src], "tgt": C.NAMES[tgt], "start": int(start), "values": Y.tolist(),
                "model": form, "aggregation": agg, "target": None if tvec is None else list(tvec),
                "target_kind": tkind, "form": call_form}
    res.ev()
    x = build(src, start, Y)
    hi0 = C.members(tgt, src, start)[0]
    kw = dict(method="arip", model=(form, agg))
    tv = np.full(T, NAN) if tvec is None else np.array(tvec, dtype=float)
    if tvec is not None:
        if (start + T) % 2 == 0:
            # (every other start period) the target series carries history before the disaggregated span and values after it: only the targets
            # dated inside the span count
            ext = np.concatenate(([7.7, 8.8, 9.9], tv, [6.6, 5.5]))
            kw["target"] = build(tgt, hi0 - 3, ext.reshape(-1, 1))
            res.count("arip_targets_with_history_outside_the_span")
        else:
            kw["target"] = build(tgt, hi0, tv.reshape(-1, 1))
    try:
        if call_form == "func":
            out = ir.disaggregate(x, FREQ[tgt], **kw)
        else:
            out = x.copy()
            out.disaggregate(FREQ[tgt], **kw)
    except Exception as e:
        viol(res, "arip_exception", dict(sig, error=type(e).__name__), mkcase(), "%s: %s" % (type(e).__name__, str(e)[:200]))
        return 1
    lo_g, G, ok = observe(tgt, out)
    if not ok or G.shape != (T, nc) or lo_g != hi0 or not np.isfinite(G).all():
        viol(res, "arip_shape", sig, mkcase(), "start %r shape %r finite %r (expected start %d, shape %r)"
                      % (lo_g, G.shape, bool(np.isfinite(G).all()) if G.size else None, hi0, (T, nc)))
        return 1
    nv = 0
    full = [i for i in range(L) if np.isfinite(tv[i * n:(i + 1) * n]).all()]
    for j in range(nc):
        y = Y[:, j]
        xj = G[:, j]
        fin = [i for i in range(L) if math.isfinite(y[i])]
        prob = R.arip_problem(n, y, tv, form, agg)
        A, b = prob["A"], prob["b"]
        scale_y = max(1.0, float(np.nanmax(np.abs(y))))
        resid = A @ xj - b
        na = prob["n_agg"]
        if na and np.abs(resid[:na]).max() > TOL * scale_y:
            i = int(np.argmax(np.abs(resid[:na])))
            viol(res, "arip_constraint", sig, mkcase(), "column %d low period %d: aggregate of the output differs from "
                          "the observation by %.3e" % (j, fin[i], resid[i]))
            nv += 1
        if resid.size > na and np.abs(resid[na:]).max() > TOL * scale_y:
            viol(res, "arip_target", sig, mkcase(), "column %d: a target value is missed by %.3e" % (j, np.abs(resid[na:]).max()))
            nv += 1
        # optimality on the null space of the constraints
        xr, N = R.arip_solve(prob)
        pg_ref, scale = R.arip_projected_gradient(prob, N, xr)
        if pg_ref > 1e-8 * scale or np.abs(A @ xr - b).max() > 1e-8 * scale_y:
            raise RuntimeError("arip reference self-check failed: %r" % ((src, tgt, start, form, agg, tkind, pg_ref, scale),))
        pg, scale = R.arip_projected_gradient(prob, N, xj)
        edge_full = any(i in (fin[0], fin[-1]) for i in full) if fin else False
        if pg > 1e-7 * scale:
            if edge_full:
                res.count("observed_arip_edge_full_target_not_stationary")
            else:
                obj = float(np.sum((prob["K"] @ xj - prob["d"]) ** 2))
                obr = float(np.sum((prob["K"] @ xr - prob["d"]) ** 2))
                res.count("arip_not_stationary")
                if once(res, "arip_optimality", sig, 2):
                    viol(res, "arip_optimality", sig, mkcase(),
                              "column %d: projected gradient %.3e (scale %.3e); criterion %.9g at the output, %.9g at the "
                              "constrained minimum; max distance %.3e" % (j, pg, scale, obj, obr, np.abs(xj - xr).max()))
                nv += 1
        res.cls("arip_structure", (n, L, form, agg, tkind, L - len(fin), N.shape[1]))
    res.nt(("arip", src, tgt, start, L, nc, form, agg, tkind, None if tvec is None else tuple(np.nonzero(np.isfinite(tv))[0].tolist()),
            tuple(map(tuple, np.isnan(Y).tolist())), call_form))
    # round trip through aggregate with the declared aggregation (observed low periods only)
    res.ev()
    try:
        back = ir.aggregate(out, FREQ[src], method={"avg": "mean"}.get(agg, agg))
        lo_b, B, ok = observe(src, back)
        lo2, YY, BB = align(start, Y, lo_b, B)
        AA = np.isfinite(YY)                # (targets of a fully targeted low period are consistent with its observation)
        b2 = mismatch(YY, BB, AA, tol=TOL)
        if b2.any():
            r, j = [int(a[0]) for a in np.nonzero(b2)]
            viol(res, "arip_roundtrip", sig, mkcase(), "low period %d column %d: aggregate %r original %r"
                          % (r, j, BB[r, j], YY[r, j]))
            nv += 1
    except Exception as e:
        viol(res, "arip_roundtrip", dict(sig, error=type(e).__name__), mkcase(), "%s: %s" % (type(e).__name__, str(e)[:200]))
        nv += 1
    return nv


def arip_targets(n, L, Y, agg, deep):
    """[(kind, tvec | None)] — none, one cell, a full low period (values consistent with the observation)"""
    T = n * L
    out = [("none", None)]
    cells = set(range(n, 2 * n)) | {0, T - 1, T - n, n - 1}
    if deep:
        cells = set(range(T))
    y0 = Y[:, 0]
    for t in sorted(cells):
        i, k = divmod(t, n)
        yv = y0[i] if math.isfinite(y0[i]) else float(np.nanmean(y0))
        unit = yv / n if agg == "sum" else yv
        tv = [NAN] * T
        tv[t] = unit * (1.07 if t % 2 else 0.94)
        redundant = (agg == "first" and k == 0) or (agg == "last" and k == n - 1)
        out.append(("cell_redundant" if redundant else "cell", tv))
    for i in range(L):
        if not math.isfinite(y0[i]):
            continue
        tv = [NAN] * T
        tv[i * n:(i + 1) * n] = consistent_full_target(n, y0[i], agg).tolist()
        out.append(("full_interior" if 0 < i < L - 1 else "full_edge", tv))
    if deep and L >= 3:
        # two cells in different low periods
        for t1, t2 in ((1, n + 1), (n, 2 * n + n - 1), (0, T - 1)):
            if t1 % n in (0, n - 1) or t2 % n in (0, n - 1):
                if agg in ("first", "last"):
                    continue
            tv = [NAN] * T
            for t in (t1, t2):
                yv = y0[t // n] if math.isfinite(y0[t // n]) else float(np.nanmean(y0))
                tv[t] = (yv / n if agg == "sum" else yv) * 1.05
            out.append(("two_cells", tv))
    return out


def shard_arip(item, res, ctx):
    src, tgt, start, L, form, agg, deep = item
    n = tgt // src
    interior = list(range(1, L - 1))
    for nc in (1, 2):
        # missing low observations: interior ones (a Series drops missing ends); with two variants also the
        # ends of column 0, the other column keeping the row alive (first/last *observed* value drive rho and c)
        lowmasks = masks_upto(interior if nc == 1 else range(L), 2 if deep else 1)
        for lm in lowmasks:
            Y = arip_values(L, nc, ctx.seed)
            for i in lm:
                Y[i, 0] = NAN
            if nc == 2:
                for i in lm:
                    Y[L - 1 - i, 1] = NAN             # second column: the mirrored mask
            if np.isnan(Y[0]).all() or np.isnan(Y[-1]).all():
                res.count("arip_mask_would_shorten_the_series_skipped")
                continue
            for tkind, tvec in arip_targets(n, L, Y, agg, deep):
                if nc == 2 and tvec is not None and tkind.startswith("full"):
                    # one target series serves both variants: consistent with column 0 only -> single-variant case
                    continue
                if tkind == "cell_redundant":
                    res.exclude("arip_target_on_the_cell_carrying_a_first_last_constraint")
                    continue
                check_arip(res, src, tgt, start, Y, form, agg, tvec, tkind, call_form="func" if nc == 1 else "inplace")
    res.sample({"part": "arip", "src": C.NAMES[src], "tgt": C.NAMES[tgt], "start": C.sdmx(src, start), "low_periods": L,
                "model": [form, agg], "low_masks_two_variants": len(lowmasks)})


# ---------------------------------------------------------------------------
# wrong direction / same frequency (observed only; the statement does not cover rejection)
# ---------------------------------------------------------------------------

def shard_direction(item, res, ctx):
    for a in C.CALENDAR:
        for b in C.CALENDAR:
            x = build(a, C.ordinal(a, 2020, 1), values(3, 1, ctx.seed))
            for op in ("aggregate", "disaggregate"):
                res.ev()
                try:
                    out = getattr(ir, op)(x, FREQ[b])
                    if a == b:
                        same = np.array_equal(out.data, x.data) and out.start == x.start
                        res.count("observed_same_frequency_%s" % ("unchanged" if same else "CHANGED"))
                    elif (op == "aggregate") == (b > a):
                        res.count("observed_wrong_direction_accepted")
                except Exception as e:
                    if (op == "aggregate") == (b > a) and a != b:
                        res.count("observed_wrong_direction_raises_%s" % type(e).__name__)
                    else:
                        res.count("observed_default_call_raises_%s_%s_%s" % (op, C.NAMES[a], C.NAMES[b]))


# ---------------------------------------------------------------------------
# driver
# ---------------------------------------------------------------------------

def daily_starts(quick):
    days = set()

    def window(y, m, d, before, after):
        o = dt.date(y, m, d).toordinal()
        days.update(range(o - before, o + after + 1))
    year_ends = (2019, 2020, 1899, 1999, 2000)          # Dec 31 of these years
    feb_years = (1900, 2000, 2019, 2020, 2021)
    if quick:
        for y in year_ends:
            window(y, 12, 31, 3, 3)
        for y in feb_years:
            window(y, 3, 1, 3, 1)
        for m in range(1, 13):
            o = dt.date(2020, m, 1).toordinal()
            days.update((o - 1, o))
    else:
        for y in year_ends:
            window(y, 12, 31, 40, 40)
        for y in feb_years:
            window(y, 3, 1, 20, 20)
        o = dt.date(2020, 1, 1).toordinal()
        days.update(range(o, o + 366))
    return sorted(days)


DAILY_LENGTHS = {
    True: {C.M: (1, 2, 5, 29, 31, 32, 60, 62), C.Q: (1, 31, 90, 92, 93, 184), C.H: (1, 182, 185), C.Y: (1, 60, 366, 367)},
    False: {C.M: (1, 2, 3, 4, 5, 27, 28, 29, 30, 31, 32, 33, 58, 59, 60, 61, 62, 63), C.Q: (1, 2, 31, 59, 60, 61, 89, 90, 91, 92, 93, 181, 182, 183, 184, 185),
            C.H: (1, 31, 181, 182, 183, 184, 185, 186, 366, 369), C.Y: (1, 59, 60, 61, 365, 366, 367, 731, 732, 733)},
}


def run(ctx, total, info):
    q = ctx.quick
    t0 = time.time()
    walls = {}
    year = 2018 + ctx.seed % 5                  # which year stands for "a year" (regular frequencies: immaterial to membership)
    years = [year] if q else [year, 1999, 2100]
    # ---- A: regular -> regular ---------------------------------------------
    lfull_w, kmax_w = (8, 2) if q else (10, 3)
    lfull_n = 3 if q else 5
    shards_a = []
    for (src, tgt) in AGG_PAIRS:
        k = src // tgt
        lmax = 2 * k + 1 if q else 3 * k + 1
        for y in years:
            for seg in range(1, src + 1):
                start = C.ordinal(src, y, seg)
                for L in range(1, lmax + 1):
                    if y == years[0]:
                        shards_a.append((src, tgt, start, L, "wide", lfull_w, kmax_w))
                        if not q or L <= 3 or abs(L - k) <= 1 or L >= 2 * k:
                            shards_a.append((src, tgt, start, L, "narrow", lfull_n, 1))
                    elif L in (1, k, lmax):
                        shards_a.append((src, tgt, start, L, "wide", min(lfull_w, 6), 1))

    def weight_a(s):
        L = s[3]
        if s[4] == "wide":
            nm = 2 ** L if L <= s[5] else sum(math.comb(L, r) for r in range(s[6] + 1))
            return nm * (L // (s[0] // s[1]) + 2)
        nm = 2 ** L if L <= s[5] else L + 1
        return nm * 2 * 30
    shards_a.sort(key=weight_a, reverse=True)
    engine.run_shards(__name__, "shard_agg_regular", shards_a, ctx, total)
    n_a = total.evaluations
    walls["aggregate_regular"] = round(time.time() - t0, 1)
    # ---- B: daily -> regular ------------------------------------------------
    starts = daily_starts(q)
    shards_b = []
    for tgt in (C.M, C.Q, C.H, C.Y):
        lens = DAILY_LENGTHS[q][tgt]
        for s in starts:
            if q:
                shards_b.append((tgt, s, lens, "membership", 1, 0))
            else:
                for i in range(0, len(lens), 16):
                    shards_b.append((tgt, s, lens[i:i + 16], "membership", 1, 0))
    cfg_days = [(2019, 12, 30), (2020, 2, 27), (2020, 2, 29), (2020, 12, 31), (1900, 2, 27), (2000, 2, 28), (2021, 2, 27),
                (2020, 6, 29)]
    if not q:
        cfg_days += [(2019, 12, 31), (2020, 1, 1), (2020, 2, 28), (2020, 3, 1), (2020, 3, 31), (2020, 4, 30), (2020, 8, 31),
                     (2020, 9, 30), (2020, 12, 30), (2021, 1, 1), (2021, 2, 28), (1900, 2, 28), (1900, 3, 1), (2000, 2, 29),
                     (1999, 12, 31), (2000, 12, 31), (2019, 2, 28), (2019, 6, 30), (1899, 12, 31), (2100, 2, 28)]
    for tgt in (C.M, C.Q, C.H, C.Y):
        for (y, m, d) in cfg_days:
            s = dt.date(y, m, d).toordinal()
            short = (1, 2, 3, 4, 5) if q else (1, 2, 3, 4, 5, 6, 7, 8)
            for L in short:
                shards_b.append((tgt, s, (L,), "configs", 1, 5 if q else 8))
            for L in ((31, 60) if q else (29, 31, 33, 60, 62, 93)):
                shards_b.append((tgt, s, (L,), "configs", 1 if q else 2, 0))
    shards_b.sort(key=lambda s: (s[3] == "configs", max(s[2]) * len(s[2])), reverse=True)
    engine.run_shards(__name__, "shard_agg_daily", shards_b, ctx, total)
    n_b = total.evaluations - n_a
    walls["aggregate_daily"] = round(time.time() - t0 - sum(walls.values()), 1)
    # ---- C, D: disaggregate ------------------------------------------------------
    shards_c = []
    lmax_c, lfull_c = (4, 4) if q else (7, 7)
    for (src, tgt) in DIS_PAIRS:
        for y in years[:1] if q else years:
            for seg in range(1, src + 1):
                shards_c.append((src, tgt, C.ordinal(src, y, seg), lmax_c, lfull_c))
    dyears = (2019, 2020) if q else (2019, 2020, 2021, 1900, 2000, 2100, 1999)
    for src in (C.Y, C.H, C.Q, C.M):
        for y in dyears:
            for seg in range(1, src + 1):
                shards_c.append((src, C.D, C.ordinal(src, y, seg), 2 if q else 3, 2 if q else 3))
    shards_c.sort(key=lambda s: (s[1] == C.D) * 1000 // s[0] + s[1] // s[0], reverse=True)
    engine.run_shards(__name__, "shard_disaggregate", shards_c, ctx, total)
    n_c = total.evaluations - n_a - n_b
    walls["disaggregate"] = round(time.time() - t0 - sum(walls.values()), 1)
    # ---- E: arip -----------------------------------------------------------------
    shards_e = []
    forms = ("rate", "diff") if q else ("rate", "diff", "multiplicative", "additive")
    aggs = ("sum", "mean", "first", "last") if q else ("sum", "mean", "first", "last", "avg")
    for (src, tgt) in DIS_PAIRS:
        for seg in range(1, src + 1):
            for L in ((3, 4, 5) if q else (3, 4, 5, 6)):
                for form in forms:
                    for agg in aggs:
                        deep = (not q) and form in ("rate", "diff") and agg != "avg"
                        shards_e.append((src, tgt, C.ordinal(src, year, seg), L, form, agg, deep))
    shards_e.sort(key=lambda s: (s[6], (s[1] // s[0]) * s[3]), reverse=True)
    engine.run_shards(__name__, "shard_arip", shards_e, ctx, total)
    n_e = total.evaluations - n_a - n_b - n_c
    walls["arip"] = round(time.time() - t0 - sum(walls.values()), 1)
    engine.run_shards(__name__, "shard_direction", [0], ctx, total)

    cnt = total.counters
    info["space"] = {
        "aggregate_regular": {"pairs": [C.NAMES[a] + ">" + C.NAMES[b] for a, b in AGG_PAIRS], "years": years,
                              "starts": "every segment", "lengths": "1..%sk+1" % (2 if q else 3),
                              "masks_wide": "all for L<=%d, <=%d missing above" % (lfull_w, kmax_w),
                              "masks_narrow": "all for L<=%d, <=1 missing above; 1 and 2 variants, function and in-place forms; %s" % (
                                  lfull_n, "lengths 1-3, k-1..k+1, 2k, 2k+1 and %d configurations" % len(NARROW_CONFIGS) if q else "all lengths and configurations"),
                              "configurations": len(CONFIGS), "shards": len(shards_a), "calls": n_a},
        "aggregate_daily": {"targets": ["M", "Q", "H", "Y"], "start_days": len(starts), "config_start_days": len(cfg_days),
                            "lengths": {C.NAMES[k]: list(v) if len(v) < 20 else [v[0], v[-1]] for k, v in DAILY_LENGTHS[q].items()},
                            "shards": len(shards_b), "calls": n_b},
        "disaggregate": {"pairs": [C.NAMES[a] + ">" + C.NAMES[b] for a, b in DIS_PAIRS] + ["Y>D", "H>D", "Q>D", "M>D"],
                         "methods": list(DIS_METHODS), "roundtrips": ROUNDTRIPS, "max_length": lmax_c,
                         "daily_years": list(dyears), "shards": len(shards_c), "calls": n_c},
        "arip": {"factors": sorted({b // a for a, b in DIS_PAIRS}), "low_periods": [3, 5 if q else 6], "models": list(forms),
                 "aggregations": list(aggs), "shards": len(shards_e), "calls": n_e},
    }
    info["wall_s_per_part"] = walls          # reporting only
    info["bound_completed"] = {"missing_cells_long_series": kmax_w, "all_masks_up_to_length": lfull_w}
    info["exhaustive"] = True
    cls = {k: len(v) for k, v in total.classes.items()}
    fl = (lambda quick_floor, thorough_floor: quick_floor if q else thorough_floor)
    info["floors"] = {
        "calls_aggregate_regular": (n_a, fl(90000, 950000)),
        "calls_aggregate_daily": (n_b, fl(16000, 270000)),
        "calls_disaggregate": (n_c, fl(4500, 95000)),
        "calls_arip": (n_e, fl(15000, 190000)),
        "distinct_nontrivial": (len(total.nontrivial), fl(70000, 700000)),
        "columns_compared": (cnt.get("columns_compared", 0), fl(1200000, 25000000)),
        "aggregate_outcome_classes": (cls.get("aggregate_outcome", 0), 330),
        "daily_layouts": (cls.get("daily_layout", 0), fl(900, 23000)),
        "arip_structures": (cls.get("arip_structure", 0), fl(450, 2000)),
        "disaggregate_layouts": (cls.get("disaggregate_layout", 0), fl(54, 60)),
    }


# ---------------------------------------------------------------------------
# replay
# ---------------------------------------------------------------------------

def replay(case):
    res = engine.Result()
    part = case.get("part")
    src, tgt = CODE[case["src"]], CODE[case["tgt"]]
    V = parse_values(case["values"])
    if part == "aggregate":
        sel = case.get("select")
        check_aggregate(res, src, tgt, case["start"], V, case["method"], case["discard"],
                        None if sel is None else tuple(sel), form=case.get("form", "func"))
    elif part == "disaggregate":
        check_disaggregate(res, src, tgt, case["start"], V, case["method"], form=case.get("form", "func"),
                           roundtrips=True)
        am = case.get("amethod")
        if am:
            res.violations = [v for v in res.violations if v["signature"].get("amethod") == am] or res.violations
    elif part == "arip":
        tv = case.get("target")
        check_arip(res, src, tgt, case["start"], V, case["model"], case["aggregation"],
                   None if tv is None else [float(a) for a in tv], case.get("target_kind", "?"),
                   call_form=case.get("form", "func"))
    want = case.get("check")
    vs = [v for v in res.violations if want is None or v["check"] == want]
    return ["%s %s %s" % (v["check"], engine.sigkey(v["signature"]), v["detail"]) for v in vs]
