"""C20 — copies, pickles and parameter variants are independent, equivalent models.

Part A (explicit-state, one BFS per model kind): the state is a *population* of up to three model
    objects; a history is a list of operations (copy / pickle / dill into a free slot, assign scalar
    or per-variant list, assign a std, alter_num_variants, steady, solve, set_description, estimate,
    assignment through a variant view).  Workers rebuild the population by replaying the history on
    models built from source, apply the operation and observe EVERY object of the population
    (parameters, steady levels and changes, solution matrices, eigenvalues, a fixed 4-period
    first-order simulation with an unanticipated and an anticipated shock, a fixed 3-period Kalman
    filter likelihood).  Reference model of an object = description + tuple of per-variant states
    (parameter values, parameters the steady state was computed with, parameters/steady state the
    solution was computed with); the canonical key of a state is the sorted tuple of reference
    objects, so equivalent histories merge.

    Every object also carries model-level settings (description, tolerance overrides); the linear model's alphabet
    has override_tolerance and one initial object has a root at 1-1e-5 with the eigenvalue tolerance overridden to
    1e-3, so that solve / filter after a clone depend on the setting having been carried over.

    Oracles on every transition
      structure  flags, tolerance settings, names / kinds / log status, equations, max lag / lead, context keys of the
                 acted-on object equal those of a fresh model with the same settings; clones equal their source;
                 other objects unchanged;
      state      the acted-on object equals, variant by variant, a FRESH single-variant model built
                 from source and driven directly to that variant's reference state (differential
                 oracle; this is at the same time "variant k == single-variant model with variant
                 k's parameters");
      clone      a copy / pickle / dill is observation-identical to its source;
      isolation  every other object of the population is bit-for-bit unchanged;
      alias      no mutable container (dict, list, set, ndarray, instance __dict__) is reachable
                 from two members of the population, nor from two variants of one object;
      view       model[k] shows variant k.

Part B (enumeration): every program of a small model grammar x 8 flag combinations x 1..3 variants
    x steady-yes/no through to_portable -> JSON -> from_portable and the portable-file / dill-file /
    pickle-file round trips; names, kinds, log status, equations, flags, parameter values compared.
"""
import functools
import itertools
import json
import os
import pickle
import shutil
import sys
import tempfile

import dill
import numpy as np

import irispie as ir

from mc import engine
from ref import c20_alias as alias

# periods are immutable value objects (hashable, no in-place operations): sharing them is not aliasing
alias.register_atoms(ir.dates.Period)

PROPERTY = "C20"
LEVEL = "model_checking"
RULE = ("A: BFS over operation histories on a population of <= 3 model objects, separately for a linear "
        "Simultaneous (lead + measurement equation), a non-linear Simultaneous (log variable, steady autovalue), a Sequential "
        "and a RedVAR, from 2-4 prepared initial objects per kind; every transition applies one operation of "
        "the alphabet to the real objects and compares all objects with fresh single-variant models driven "
        "to the reference state; distinct = canonical population state (sorted tuple of (provenance, "
        "description, per-variant (parameters, steady-with, solved-with))); B: every program of the portable "
        "grammar x flags x variants, distinct non-trivial = configuration that reached the comparison stage")
MANIFEST_ENTRY = dict(
    level="model_checking", design="DESIGN.md section 4 / C20",
    technique="explicit-state BFS over operation histories on a population of model objects vs a per-variant reference state, differential oracle against fresh models built from source, bit-exact isolation check, structural alias scan; exhaustive enumeration of a model grammar for the portable round trip",
    text="For a linear Simultaneous model (lead, measurement equation with shock), a non-linear one (log variable), a Sequential and a RedVAR, every history of copy / pickle / dill / assign (scalar, per-variant list, std) / alter_num_variants(1..3) / steady / solve / set_description / override_tolerance / estimate / assignment through model[k] up to depth 3 (quick) or 4-5 (thorough) from 2-4 prepared initial objects on a population of up to 3 objects is executed against the real classes; before and after every step every object is observed (flags, tolerance settings, names, equations, parameters, steady levels and changes, solution matrices T P K Z H D, eigenvalues and their stable/unit/unstable classification, a 4-period first-order simulation with an unanticipated and an anticipated shock, a 3-period Kalman likelihood); the acted-on object must equal fresh single-variant models driven to the reference state, clones must be observation-identical to their source, untouched objects bit-for-bit unchanged, and no dict / list / set / ndarray / instance __dict__ may be reachable from two members or two variants. The portable and binary file round trips are enumerated over 96 programs x 8 flag combinations x 3 (quick) or 6 (thorough) variant/steady settings.",
    note="Trusted: model construction from source (the oracle is differential), numpy, the reference state machine in props/c20.py. Not covered: user functions in the model context, stacked-time simulation, attributes of quantities/equations and steady levels in the portable form (not in the statement), isolation of model views (model[k] shares the variant object by design; recorded, not gated). The defects found here (to_portable with a transition shock, from_portable twins and flags, pickle of a Sequential, RedVAR.copy sharing its invariant and cached companion matrix) were repaired in /repo (DESIGN.md 9.3).")
ASSUMPTIONS = [
    "a model built from source and driven by assign/steady/solve is the specification of what a copy in the same reference state must compute (differential oracle)",
    "the non-linear steady state is unique, so steady() from different starting points agrees to 1e-8",
    "model[k] / get_variant(k) is a view sharing the variant object (indexing, not copying): not gated for isolation",
    "quantity/equation attributes and steady levels are not in the portable statement and are not asserted",
]

P_SLOTS = 3
_LAMBDA = 1 - 1e-5
RHO_NEAR_UNIT = _LAMBDA * (1 - 0.2 * _LAMBDA)     # puts a root of the linear model's x-equation at 1 - 1e-5
TOL_EIG = 1e-3

# ---------------------------------------------------------------------------
# value tables (rotated by the seed; the seed never selects a subset)
# ---------------------------------------------------------------------------
RHO_T = [(0.5, 0.7, 0.3), (0.45, 0.65, 0.25), (0.55, 0.35, 0.6)]
C_T = [(1.0, 0.5, 2.0), (1.5, 0.75, 0.4), (0.8, 1.6, 0.3)]
STD_T = [0.5, 2.0, 0.25]
A_T = [(0.5, 0.8, 0.2), (0.4, 0.7, 0.1), (0.6, 0.3, 0.9)]
B_T = [(1.0, -0.5, 2.0), (0.5, 1.5, -1.0), (2.0, 0.25, -0.75)]


def tables(seed):
    r = seed % 3
    return dict(rho=RHO_T[r], c=C_T[(r + 1) % 3], std=STD_T[(r + 2) % 3], a=A_T[r], b=B_T[(r + 1) % 3])


LIN_SRC = """
!transition_variables
    x, w
!transition_shocks
    shk_x, shk_w
!parameters
    rho, c
!transition_equations
    x = rho*x[-1] + c + shk_x + 0.2*x[+1] + 0.1*w;
    w = 0.6*w[-1] + 0.3*c + shk_w;
!measurement_variables
    obs
!measurement_shocks
    shk_obs
!measurement_equations
    obs = x + shk_obs;
"""
NL_SRC = """
!transition_variables
    x, z
!log_variables
    z
!transition_shocks
    shk_x, shk_z
!parameters
    rho, c, ss_x
!transition_equations
    x = rho*x[-1] + c + shk_x + 0.1*x[+1];
    log(z) = 0.5*log(z[-1]) + 0.2*x + 0.1*(x - ss_x) + shk_z !! log(z) = 0.5*log(z) + 0.2*x;
!measurement_variables
    obs
!measurement_equations
    obs = x;
!steady_autovalues
    ss_x := x;
"""
# ss_x is a parameter the model sets itself from the steady state (steady autovalue) every time steady() runs, per
# variant; it enters the dynamic equation of z only, so a stale value shows in the solution intercept and simulation
SEQ_SRC = """
!parameters
    a, b
!equations
    y = a*y[-1] + b + res_y;
    log(q) = 0.5*log(q[-1]) + a*y;
"""

SIM_SPAN = ir.qq(2020, 1) >> ir.qq(2020, 4)
KF_SPAN = ir.qq(2020, 1) >> ir.qq(2020, 3)
SEQ_SPAN = ir.qq(2020, 1) >> ir.qq(2020, 3)
VAR_EST_SPAN = ir.qq(2000, 1) >> ir.qq(2009, 4)
VAR_SIM_SPAN = ir.qq(2010, 1) >> ir.qq(2010, 4)

RTOL, ATOL = 1e-8, 1e-9


def _arr(x):
    return np.array([np.nan if v is None else v for v in x], dtype=float)


def _same(a, b, exact):
    """compare two observation values (arrays, scalars, strings, None)"""
    if a is None or b is None:
        return a is None and b is None
    if isinstance(a, (str, bool)) or isinstance(b, (str, bool)):
        return a == b
    a, b = np.asarray(a), np.asarray(b)
    if a.shape != b.shape:
        return False
    if a.size == 0:
        return True
    if exact:
        return bool(np.array_equal(a, b, equal_nan=True))
    return bool(np.allclose(a, b, rtol=RTOL, atol=ATOL, equal_nan=True))


def diff_fields(got, exp, exact, fields=None):
    keys = sorted(set(got) | set(exp)) if fields is None else fields
    return [k for k in keys if not _same(got.get(k), exp.get(k), exact)]


# ---------------------------------------------------------------------------
# model kinds: construction, own operations, reference, observation
# ---------------------------------------------------------------------------

class SimKind:
    """Simultaneous models.  Object reference = (provenance, description, variants, settings); settings = sorted
    tuple of (tolerance key, value) overrides.  Variant reference = (rho, c, std, steady_with, solved_with)
    steady_with = None | (rho, c) ; solved_with = None | (rho, c, steady_with at that time | None, settings at that time)"""
    family = "sim"

    def __init__(self, name, src, kwargs, second, solve_uses_steady):
        self.name, self.src, self.kwargs, self.second = name, src, kwargs, second
        self.solve_uses_steady = solve_uses_steady
        self.default_std = 1 if kwargs.get("linear") else 0.01

    # -- construction -----------------------------------------------------
    def build(self):
        return ir.Simultaneous.from_string(self.src, **self.kwargs)

    def base_variant(self, tb):
        return (tb["rho"][0], tb["c"][0], self.default_std, None, None)

    def inits(self, tb, quick):
        r, c = tb["rho"], tb["c"]
        base = [("assign", "rho", r[0]), ("assign", "c", c[0])]
        out = [base,
               base + [("steady",), ("solve",)],
               base + [("alter", 2), ("assign", "rho", [r[0], r[1]]), ("steady",), ("solve",)]]
        if self.name == "lin":
            # a model that carries its own tolerance setting AND whose behaviour depends on it: the root 1-1e-5 is a unit
            # root under the overridden eigenvalue tolerance and a stable root under the default one (classification,
            # Kalman initialisation)
            out.append([("assign", "rho", RHO_NEAR_UNIT), ("assign", "c", c[0]), ("tol", "eigenvalue", TOL_EIG),
                        ("steady",), ("solve",)])
        if not quick:
            out.append(base + [("alter", 3), ("assign", "c", [c[0], c[1], c[2]]), ("steady",)])
        return out

    def own_ops(self, obj, tb, quick):
        r, c, s = tb["rho"], tb["c"], tb["std"]
        ops = [("assign", "rho", r[1]), ("assign", "rho", [r[2], r[1]]), ("assign", "std_shk_x", s),
               ("alter", 1), ("alter", 2), ("alter", 3), ("steady",)]
        if not quick or self.name == "lin":
            ops += [("descr", "d1")]
        if self.name == "lin":
            ops += [("tol", "eigenvalue", TOL_EIG)]
        if not quick:
            ops += [("assign", "c", [c[0], c[1], c[2], c[1]])]
            if self.name == "nl":
                ops += [("assign", "c", c[1])]
        # the first-order solution of a non-linear model needs a steady state to expand around
        if not self.solve_uses_steady or all(v[3] is not None for v in obj[2]):
            ops.append(("solve",))
        return ops

    # -- reference ----------------------------------------------------------
    def ref_apply(self, obj, op):
        prov, descr, vs, st = obj
        name = op[0]
        if name == "descr":
            return (prov, op[1], vs, st)
        if name == "tol":
            d = dict(st)
            d[op[1]] = op[2]
            return (prov, descr, vs, tuple(sorted(d.items())))
        if name == "alter":
            n = op[1]
            vs = vs[:n] if n <= len(vs) else vs + (vs[-1],) * (n - len(vs))
            return (prov, descr, vs, st)
        new = []
        for k, v in enumerate(vs):
            rho, c, std, sw, so = v
            if name == "assign":
                val = op[2]
                if isinstance(val, (list, tuple)):
                    val = val[min(k, len(val) - 1)]       # documented: shorter lists repeat their last value
                if op[1] == "rho":
                    rho = val
                elif op[1] == "c":
                    c = val
                elif op[1] == "std_shk_x":
                    std = val
                else:
                    raise KeyError(op[1])
            elif name == "steady":
                sw = (rho, c)
            elif name == "solve":
                so = (rho, c, sw if self.solve_uses_steady else None, st)
            else:
                raise KeyError(name)
            new.append((rho, c, std, sw, so))
        return (prov, descr, tuple(new), st)

    # -- implementation ----------------------------------------------------
    def impl_apply(self, m, op):
        name = op[0]
        if name == "assign":
            val = op[2]
            m.assign(**{op[1]: list(val) if isinstance(val, (list, tuple)) else val})
        elif name == "alter":
            m.alter_num_variants(op[1])
        elif name == "steady":
            m.steady()
        elif name == "solve":
            m.solve()
        elif name == "descr":
            m.set_description(op[1])
        elif name == "tol":
            m.override_tolerance(**{op[1]: op[2]})
        else:
            raise KeyError(name)

    def drive(self, v, st=()):
        """fresh single-variant model driven directly to the variant reference state; st = the settings
        the object carries now (the solution was computed under the settings recorded in solved_with)"""
        rho, c, std, sw, so = v
        m = self.build()
        at = None
        if so is not None:
            if so[2] is not None:
                m.assign(rho=so[2][0], c=so[2][1])
                m.steady()
                at = so[2]
            m.assign(rho=so[0], c=so[1])
            if so[3]:
                m.override_tolerance(**dict(so[3]))
            m.solve()
            if so[3]:
                m.reset_tolerance()
        if st:
            m.override_tolerance(**dict(st))
        if sw is not None and at != sw:
            m.assign(rho=sw[0], c=sw[1])
            m.steady()
        m.assign(rho=rho, c=c, std_shk_x=std)
        return m

    def structure(self, m):
        """everything the object holds besides its variants, through the public interface"""
        names, kinds, logly = m.create_qid_to_name(), m.create_qid_to_kind(), m.create_qid_to_logly()
        return {"flags": (bool(m.is_linear), bool(m.is_flat), bool(m.is_deterministic)),
                "tolerance": tuple(sorted((k, float(v)) for k, v in dict(m.get_tolerance()).items())),
                "quantities": tuple(sorted((names[i], kinds[i].name, logly.get(i)) for i in names)),
                "equations": (tuple(m.get_dynamic_equations()), tuple(m.get_steady_equations())),
                "shifts": (m.max_lag, m.max_lead),
                "context": tuple(sorted(k for k in m.get_context() if k != "__builtins__"))}

    def fresh_structure(self, st):
        m = self.build()
        if st:
            m.override_tolerance(**dict(st))
        return self.structure(m)

    # -- observation --------------------------------------------------------
    RAW = ("params", "levels", "changes", "solved", "T", "P", "K", "Z", "H", "D")

    def observe(self, m, behaviour=True):
        nv = m.num_variants
        ps = m.get_parameters_stds(unpack_singleton=False)
        lv = m.get_steady_levels(unpack_singleton=False)
        ch = m.get_steady_changes(unpack_singleton=False)
        sols = m.get_solution(unpack_singleton=False)
        vs = []
        for k in range(nv):
            d = {"params": _arr([ps[n][k] for n in sorted(ps)]),
                 "levels": _arr([lv[n][k] for n in sorted(lv)]),
                 "changes": _arr([ch[n][k] for n in sorted(ch)]),
                 "solved": sols[k] is not None}
            if sols[k] is not None:
                for n in ("T", "P", "K", "Z", "H", "D"):
                    d[n] = np.array(getattr(sols[k], n))
            vs.append(d)
        if behaviour:
            # the steady databox built from the object: column k is variant k's steady path and parameters
            try:
                sdb = ir.Databox.steady(m, SIM_SPAN)
                cols = {}
                for n in ("x", self.second, "obs", "rho", "c"):
                    a = sdb[n].get_data(SIM_SPAN) if isinstance(sdb.get(n), ir.Series) else None
                    if a is None:
                        v_ = sdb.get(n)
                        a = np.array([v_ if isinstance(v_, (list, tuple)) else [v_] * nv], dtype=float) if v_ is not None else np.full((1, nv), np.nan)
                    cols[n] = np.asarray(a, dtype=float)
                for k, d in enumerate(vs):
                    d["steady_db"] = np.concatenate([cols[n][:, min(k, cols[n].shape[1] - 1)].ravel() for n in sorted(cols)])
            except Exception as e:
                for d in vs:
                    d["steady_db"] = "raises " + type(e).__name__
        if behaviour and all(d["solved"] for d in vs):
            eig = m.get_eigenvalues(unpack_singleton=False)
            stab = m.get_eigenvalues_stability(unpack_singleton=False)
            db = ir.Databox()
            db["x"] = ir.Series(start=SIM_SPAN[0] - 1, values=(1.5,))
            db[self.second] = ir.Series(start=SIM_SPAN[0] - 1, values=(1.2,))
            db["shk_x"] = ir.Series(start=SIM_SPAN[0], values=(1.0, 0, 0, 0))
            db["ant_shk_x"] = ir.Series(start=SIM_SPAN[0], values=(0, 0, 0.5, 0))
            sim = m.simulate(db, SIM_SPAN, method="first_order", num_variants=nv, prepend_input=False)
            data = [sim[n].get_data(SIM_SPAN) for n in ("x", self.second, "obs")]
            fdb = ir.Databox()
            fdb["obs"] = ir.Series(start=KF_SPAN[0], values=(1.0, 1.3, 0.8))
            _, info = m.kalman_filter(fdb, KF_SPAN, return_info=True, return_predict=False, return_update=False,
                                      return_smooth=False, return_predict_err=False, return_predict_mse_obs=False,
                                      unpack_singleton=False)
            info = [info] if isinstance(info, dict) else info
            for k, d in enumerate(vs):
                d["eig"] = np.sort_complex(np.array(eig[k], dtype=complex))
                names = sorted(str(getattr(x, "name", x)) for x in stab[k])
                d["stability"] = np.array([names.count(n) for n in ("STABLE", "UNIT_ROOT", "UNSTABLE")] + [len(names)], dtype=float)
                d["sim"] = np.column_stack([a[:, k] for a in data])
                d["nll"] = float(info[k]["neg_log_likelihood"])
        return {"nv": nv, "descr": m.get_description(), "v": vs, "struct": self.structure(m)}

    def view(self, m, k):
        return m[k]

    def outcome_class(self, obj):
        return (len(obj[2]), bool(obj[3]), tuple((v[3] is not None, v[4] is not None, v[4] is not None and (v[0], v[1]) != v[4][:2],
                                                 v[4] is not None and v[4][3] != obj[3]) for v in obj[2]))


class SeqKind:
    """Sequential model.  Variant reference = (a, b)"""
    family = "seq"
    name = "seq"

    def build(self):
        return ir.Sequential.from_string(SEQ_SRC)

    def base_variant(self, tb):
        return (tb["a"][0], tb["b"][0])

    def inits(self, tb, quick):
        a, b = tb["a"], tb["b"]
        base = [("assign", "a", a[0]), ("assign", "b", b[0])]
        return [base, base + [("alter", 2), ("vassign", 1, "a", a[1])]]

    def own_ops(self, obj, tb, quick):
        a, b = tb["a"], tb["b"]
        nv = len(obj[2])
        ops = [("assign", "a", a[1]), ("assign", "b", b[1]), ("alter", 1), ("alter", 2), ("alter", 3), ("descr", "d1")]
        ops += [("vassign", k, "a", a[2]) for k in range(nv)]
        if not quick:
            ops += [("assign", "a", a[0]), ("vassign", nv - 1, "b", b[2])]
        return ops

    def ref_apply(self, obj, op):
        prov, descr, vs, st = obj
        name = op[0]
        if name == "descr":
            return (prov, op[1], vs, st)
        if name == "alter":
            n = op[1]
            return (prov, descr, vs[:n] if n <= len(vs) else vs + (vs[-1],) * (n - len(vs)), st)
        idx = {"a": 0, "b": 1}
        if name == "assign":
            i = idx[op[1]]
            return (prov, descr, tuple(tuple(op[2] if j == i else x for j, x in enumerate(v)) for v in vs), st)
        if name == "vassign":          # through the view model[k]; reference = view semantics
            k, i = op[1], idx[op[2]]
            return (prov, descr, tuple(tuple(op[3] if (j == i and kk == k) else x for j, x in enumerate(v))
                                       for kk, v in enumerate(vs)), st)
        raise KeyError(name)

    def impl_apply(self, m, op):
        name = op[0]
        if name == "assign":
            m.assign(**{op[1]: op[2]})
        elif name == "vassign":
            m[op[1]].assign(**{op[2]: op[3]})
        elif name == "alter":
            m.alter_num_variants(op[1])
        elif name == "descr":
            m.set_description(op[1])
        else:
            raise KeyError(name)

    def drive(self, v, st=()):
        m = self.build()
        m.assign(a=v[0], b=v[1])
        return m

    def structure(self, m):
        return {"lhs_names": tuple(m.lhs_names), "parameter_names": tuple(m.parameter_names),
                "residual_names": tuple(m.residual_names), "equations": tuple(str(e) for e in m.equation_strings),
                "shifts": (m.max_lag, m.max_lead), "identities": tuple(m.identity_index)}

    def fresh_structure(self, st):
        return self.structure(self.build())

    RAW = ("params",)

    def observe(self, m, behaviour=True):
        nv = m.num_variants
        ps = m.get_parameters(unpack_singleton=False)
        vs = [{"params": _arr([ps[n][k] for n in sorted(ps)])} for k in range(nv)]
        if behaviour:
            db = ir.Databox()
            db["y"] = ir.Series(start=SEQ_SPAN[0] - 1, values=(1.5,))
            db["q"] = ir.Series(start=SEQ_SPAN[0] - 1, values=(2.0,))
            db["res_y"] = ir.Series(start=SEQ_SPAN[0], values=(0.1, 0, -0.2))
            out = m.simulate(db, SEQ_SPAN, num_variants=nv)
            data = [out[n].get_data(SEQ_SPAN) for n in ("y", "q")]
            for k, d in enumerate(vs):
                d["sim"] = np.column_stack([a[:, k] for a in data])
        return {"nv": nv, "descr": m.get_description(), "v": vs, "struct": self.structure(m)}

    def view(self, m, k):
        return m[k]

    def outcome_class(self, obj):
        return (len(obj[2]), len(set(obj[2])))


def var_data(d):
    """two fixed 2-column data sets (no random numbers)"""
    t = np.arange(40)
    cols_a, cols_b = [], []
    for k in range(2):
        cols_a.append(np.sin(0.7 * t + d + 0.3 * k) + 0.3 * np.cos(2.1 * t + k) + 0.05 * t * (d + 1) / 3)
        cols_b.append(np.cos(0.45 * t + 2 * d + k) + 0.5 * np.sin(1.3 * t * (1 + 0.1 * k)))
    return np.array(cols_a).T, np.array(cols_b).T


class VarKind:
    """RedVAR.  Variant reference = None (not estimated) | (data set, data column)"""
    family = "var"
    name = "var"

    def build(self):
        return ir.RedVAR(["a", "b"], order=1)

    def base_variant(self, tb):
        return None

    def inits(self, tb, quick):
        return [[], [("estimate", 0)], [("alter", 2), ("estimate", 1)]]

    def own_ops(self, obj, tb, quick):
        return [("estimate", 0), ("estimate", 1), ("alter", 1), ("alter", 2), ("alter", 3), ("descr", "d1")]

    def ref_apply(self, obj, op):
        prov, descr, vs, st = obj
        name = op[0]
        if name == "descr":
            return (prov, op[1], vs, st)
        if name == "alter":
            n = op[1]
            return (prov, descr, vs[:n] if n <= len(vs) else vs + (vs[-1],) * (n - len(vs)), st)
        if name == "estimate":
            return (prov, descr, tuple((op[1], min(k, 1)) for k in range(len(vs))), st)
        raise KeyError(name)

    @staticmethod
    def _db(d, cols):
        a, b = var_data(d)
        db = ir.Databox()
        db["a"] = ir.Series(start=VAR_EST_SPAN[0], values=a[:, cols])
        db["b"] = ir.Series(start=VAR_EST_SPAN[0], values=b[:, cols])
        return db

    def impl_apply(self, m, op):
        name = op[0]
        if name == "estimate":
            m.estimate(self._db(op[1], [0, 1]), VAR_EST_SPAN)
        elif name == "alter":
            m.alter_num_variants(op[1])
        elif name == "descr":
            m.set_description(op[1])
        else:
            raise KeyError(name)

    def drive(self, v, st=()):
        m = self.build()
        if v is not None:
            m.estimate(self._db(v[0], [v[1]]), VAR_EST_SPAN)
        return m

    def structure(self, m):
        return {"endogenous": tuple(m.get_endogenous_names()), "exogenous": tuple(m.get_exogenous_names()),
                "residuals": tuple(m.get_residual_names()), "order": m.order, "intercept": bool(m.has_intercept),
                "shifts": (m.max_lag, m.max_lead)}

    def fresh_structure(self, st):
        return self.structure(self.build())

    RAW = ("estimated", "A", "c", "cov")

    def observe(self, m, behaviour=True):
        nv = m.num_variants
        sm = m.get_system_matrices(unpack_singleton=False)
        vs = []
        for k in range(nv):
            d = {"estimated": sm[k].A is not None}
            if d["estimated"]:
                d.update(A=np.array(sm[k].A), c=np.array(sm[k].c), cov=np.array(sm[k].cov_residuals))
            vs.append(d)
        if behaviour and all(d["estimated"] for d in vs):
            eig = m.get_eigenvalues(unpack_singleton=False)
            mean = m.get_mean(unpack_singleton=False)
            acov = m.get_acov(unpack_singleton=False)
            db = ir.Databox()
            db["a"] = ir.Series(start=VAR_SIM_SPAN[0] - 1, values=(0.7,))
            db["b"] = ir.Series(start=VAR_SIM_SPAN[0] - 1, values=(0.1,))
            db["res_a"] = ir.Series(start=VAR_SIM_SPAN[0], values=(0.1, 0, 0, 0))
            db["res_b"] = ir.Series(start=VAR_SIM_SPAN[0], values=(0.0, -0.2, 0, 0))
            out = m.simulate(db, VAR_SIM_SPAN, num_variants=nv)
            data = [out[n].get_data(VAR_SIM_SPAN) for n in ("a", "b")]
            for k, d in enumerate(vs):
                d["eig"] = np.sort_complex(np.array(eig[k], dtype=complex))
                d["mean"] = np.array(mean[k])
                d["acov"] = np.array(acov[k][0])
                d["sim"] = np.column_stack([a[:, k] for a in data])
        try:
            descr = m.get_description()
        except AttributeError:      # a RedVAR that never had set_description called has no description at all
            descr = ""
        return {"nv": nv, "descr": descr, "v": vs, "struct": self.structure(m)}

    def view(self, m, k):
        return m.get_variant(k)

    def outcome_class(self, obj):
        return (len(obj[2]), tuple(v is not None for v in obj[2]), len(set(obj[2])))


KINDS = {
    "lin": SimKind("lin", LIN_SRC, dict(linear=True), "w", solve_uses_steady=False),
    "nl": SimKind("nl", NL_SRC, dict(), "z", solve_uses_steady=True),
    "seq": SeqKind(),
    "var": VarKind(),
}
CLONES = ("copy", "pickle", "dill")


def do_clone(how, m):
    if how == "copy":
        return m.copy()
    if how == "pickle":
        return pickle.loads(pickle.dumps(m))
    if how == "dill":
        return dill.loads(dill.dumps(m))
    raise KeyError(how)


@functools.lru_cache(maxsize=4096)
def expected_variant(kind_name, v, st=()):
    """observations of a fresh single-variant model driven to the variant reference state"""
    kind = KINDS[kind_name]
    return kind.observe(kind.drive(v, st))["v"][0]


@functools.lru_cache(maxsize=256)
def expected_structure(kind_name, st=()):
    return KINDS[kind_name].fresh_structure(st)


def diff_struct(a, b):
    return [k for k in sorted(set(a) | set(b)) if a.get(k) != b.get(k)]


def _where(path):
    """'_invariant.quantities[0].__dict__' -> '_invariant' ; '_variants[1].levels' -> '_variants.levels'"""
    parts = alias.generalise(path).split(".")
    return ".".join(parts[:2]) if parts[0] == "_variants" else parts[0]


def _tup(x):
    return tuple(_tup(i) for i in x) if isinstance(x, (list, tuple)) else x


# ---------------------------------------------------------------------------
# the explorer
# ---------------------------------------------------------------------------

class Machine:
    """history = [("init", init_id), op, op, ...]; population op = (name, slot, ...own args) or
    (clone kind, source slot, target slot)"""

    def __init__(self, kind_name):
        self.kind = KINDS[kind_name]
        self.kn = kind_name

    # ---- reference ----------------------------------------------------
    def ref_init(self, init_id, ctx):
        tb = tables(ctx.seed)
        obj = ("src", "", (self.kind.base_variant(tb),), ())
        for op in self.kind.inits(tb, ctx.quick)[init_id]:
            obj = self.kind.ref_apply(obj, op)
        return (obj,) + (None,) * (P_SLOTS - 1)

    def ref_apply(self, pop, op):
        pop = list(pop)
        if op[0] in CLONES:
            src = pop[op[1]]
            pop[op[2]] = (op[0],) + tuple(src[1:])
        else:
            pop[op[1]] = self.kind.ref_apply(pop[op[1]], (op[0],) + tuple(op[2:]))
        return tuple(pop)

    def replay_ref(self, hist, ctx):
        pop = self.ref_init(hist[0][1], ctx)
        for op in hist[1:]:
            pop = self.ref_apply(pop, _tup(op))
        return pop

    @staticmethod
    def key(kn, pop):
        return (kn, tuple(sorted(repr(o) for o in pop if o is not None)))

    # ---- implementation -------------------------------------------------
    def impl_init(self, init_id, ctx):
        tb = tables(ctx.seed)
        m = self.kind.build()
        for op in self.kind.inits(tb, ctx.quick)[init_id]:
            self.kind.impl_apply(m, op)
        return [m] + [None] * (P_SLOTS - 1)

    def impl_apply(self, pop, op):
        if op[0] in CLONES:
            pop[op[2]] = do_clone(op[0], pop[op[1]])
        else:
            self.kind.impl_apply(pop[op[1]], (op[0],) + tuple(op[2:]))

    def replay_impl(self, hist, ctx):
        pop = self.impl_init(hist[0][1], ctx)
        for op in hist[1:]:
            self.impl_apply(pop, _tup(op))
        return pop

    # ---- explorer protocol ------------------------------------------------
    def initial(self, ctx):
        n = len(self.kind.inits(tables(ctx.seed), ctx.quick))
        return [[("init", i)] for i in range(n)]

    def key0(self, hist, ctx):
        return self.key(self.kn, self.replay_ref(hist, ctx))

    def max_objects(self, ctx):
        return MAX_OBJECTS[ctx.tier][self.kn]

    def ops(self, hist, ctx):
        tb = tables(ctx.seed)
        pop = self.replay_ref(hist, ctx)
        n_obj = sum(o is not None for o in pop)
        free = [j for j, o in enumerate(pop) if o is None]
        out = []
        for i, o in enumerate(pop):
            if o is None:
                continue
            for op in self.kind.own_ops(o, tb, ctx.quick):
                out.append((op[0], i) + tuple(op[1:]))
            if free and n_obj < self.max_objects(ctx):
                for how in CLONES:
                    out.append((how, i, free[0]))
        return out

    # ---- one transition ---------------------------------------------------
    def step(self, hist, op, res, ctx):
        op = _tup(op)
        hist = [_tup(h) for h in hist]
        kind, kn = self.kind, self.kn
        case = {"part": "explore", "kind": kn, "tier": ctx.tier, "seed": ctx.seed,
                "history": [list(h) for h in hist] + [list(op)]}
        res.ev()
        bad_state = [False]

        def bad(check, detail="", fatal=True, **extra):
            sig = {"kind": kn, "op": op[0]}
            sig.update(extra)
            res.violation(check, sig, dict(case, check=check), detail)
            if fatal:
                bad_state[0] = True
        try:
            pop0 = self.replay_ref(hist, ctx)
            pop1 = self.ref_apply(pop0, op)
            objs = self.replay_impl(hist, ctx)
            # observing first also fills whatever lazily computed caches the objects carry
            # (solution expansions, companion matrices) before they are cloned or mutated
            before = [None if m is None else kind.observe(m) for m in objs]
        except Exception as e:
            bad("replay", "%s: %s" % (type(e).__name__, e), error=type(e).__name__)
            return None
        # ---- apply -------------------------------------------------------
        try:
            self.impl_apply(objs, op)
        except Exception as e:
            bad("op_raises", "%s: %s" % (type(e).__name__, str(e)[:300]), error=type(e).__name__)
            return None
        acted = op[2] if op[0] in CLONES else op[1]
        try:
            after = [None if m is None else kind.observe(m) for m in objs]
        except Exception as e:
            bad("observe_raises", "%s: %s" % (type(e).__name__, str(e)[:300]), error=type(e).__name__)
            return None
        # ---- view-assignment: two admissible semantics (view / copy), anything else is a violation
        if op[0] == "vassign":
            got = after[acted]
            keep = pop0[acted]
            as_view = self._matches(got, pop1[acted])
            as_copy = self._matches(got, keep)
            if as_view and not as_copy:
                res.count("observed_view_assignment_writes_through")
            elif as_copy and not as_view:
                res.count("observed_view_assignment_is_detached")
                pop1 = pop0
        # ---- (a)+(d) acted-on object equals fresh single-variant models ----
        ref_obj = pop1[acted]
        got = after[acted]
        exp_struct = expected_structure(kn, ref_obj[3])
        ds = diff_struct(got["struct"], exp_struct)
        if got["nv"] != len(ref_obj[2]):
            bad("num_variants", "got %d expected %d" % (got["nv"], len(ref_obj[2])))
        elif ds:
            bad("structure", "slot %d differs from a fresh model in %s: got %r expected %r" % (
                acted, ds, got["struct"].get(ds[0]), exp_struct.get(ds[0])), field=ds[0], prov=ref_obj[0])
        elif got["descr"] != ref_obj[1]:
            bad("description", "got %r expected %r" % (got["descr"], ref_obj[1]))
        else:
            for k, v in enumerate(ref_obj[2]):
                exp = expected_variant(kn, v, ref_obj[3])
                d = diff_fields(got["v"][k], exp, exact=False)
                if d:
                    bad("state", "variant %d of slot %d differs from a fresh model in %s (e.g. %s: got %r expected %r)" % (
                        k, acted, d, d[0], got["v"][k].get(d[0]), exp.get(d[0])), field=d[0], nv=got["nv"], prov=ref_obj[0])
                    break
        # ---- clone is observation-identical to its source --------------------
        if op[0] in CLONES:
            s, t = after[op[1]], after[op[2]]
            if objs[op[2]] is objs[op[1]]:
                bad("clone_identity", "the clone is the same object")
            ds = diff_struct(s["struct"], t["struct"])
            if ds:
                bad("clone", "the clone differs from its source in %s: %r vs %r" % (ds, t["struct"].get(ds[0]), s["struct"].get(ds[0])),
                    field=ds[0])
            elif s["nv"] != t["nv"] or s["descr"] != t["descr"]:
                bad("clone", "number of variants / description differ", field="nv_descr")
            else:
                for k in range(s["nv"]):
                    d = diff_fields(t["v"][k], s["v"][k], exact=True)
                    if d:
                        bad("clone", "variant %d differs from the source in %s" % (k, d), field=d[0])
                        break
        # ---- (b) isolation: every other object is unchanged, bit for bit ----------
        for i, m in enumerate(objs):
            if m is None or i == acted:
                continue
            b, a = before[i], after[i]
            if b is None:
                continue
            if a["nv"] != b["nv"]:
                bad("isolation", "slot %d changed its number of variants" % i, field="nv", prov=pop1[i][0])
            elif a["descr"] != b["descr"]:
                bad("isolation", "slot %d changed its description: %r -> %r" % (i, b["descr"], a["descr"]),
                    field="descr", prov=pop1[i][0])
            elif diff_struct(a["struct"], b["struct"]):
                ds = diff_struct(a["struct"], b["struct"])
                bad("isolation", "slot %d changed its %s: %r -> %r" % (i, ds, b["struct"].get(ds[0]), a["struct"].get(ds[0])),
                    field=ds[0], prov=pop1[i][0])
            else:
                for k in range(a["nv"]):
                    d = diff_fields(a["v"][k], b["v"][k], exact=True)
                    if d:
                        bad("isolation", "slot %d variant %d changed in %s after an operation on slot %d (%r -> %r)" % (
                            i, k, d, acted, b["v"][k].get(d[0]), a["v"][k].get(d[0])), field=d[0], prov=pop1[i][0])
                        break
        # ---- (c) structural alias scan ---------------------------------------------
        # between members: after every operation that creates a member (nothing else in the alphabet takes
        # two objects, so sharing cannot appear later); between the variants of the acted-on object: always
        live = [i for i, m in enumerate(objs) if m is not None]
        if op[0] in CLONES:
            walks = {i: alias.containers(objs[i]) for i in live}
            for i in live:
                if i == acted:
                    continue
                fa, fb = walks[i][0], walks[acted][0]
                common = sorted(set(fa) & set(fb), key=lambda x: fa[x])
                if common:
                    provs = {pop1[i][0], pop1[acted][0]}
                    via = "copy" if "copy" in provs else "+".join(sorted(provs))
                    groups = {}
                    for x in common:
                        groups.setdefault(_where(fb[x]), fb[x])
                    for where in sorted(groups):
                        bad("alias", "slots %d and %d (%s / %s) share %d mutable containers, e.g. %s" % (
                            i, acted, pop1[i][0], pop1[acted][0], len(common), groups[where]), fatal=False, where=where, via=via)
            res.count("alias_scans_between_members", len(live) - 1)
        vs = getattr(objs[acted], "_variants", None) or []
        for a_, b_ in itertools.combinations(range(len(vs)), 2):
            if vs[a_] is vs[b_]:
                bad("alias_variants", "variants %d and %d of slot %d are the same object" % (a_, b_, acted),
                    fatal=False, where="same_object")
                continue
            sh = alias.shared(vs[a_], vs[b_])
            if sh:
                bad("alias_variants", "variants %d and %d of slot %d share %r" % (a_, b_, acted, sh[0]), fatal=False,
                    where=alias.generalise(sh[0][0]))
        # ---- views show their variant -------------------------------------------------
        try:
            for i in ([acted] if ctx.quick else live):
                # thorough: the views of a freshly cloned / re-sized object are also simulated and filtered
                full = (not ctx.quick) and i == acted and (op[0] in CLONES or op[0] == "alter")
                for k in range(after[i]["nv"]):
                    vw = kind.observe(kind.view(objs[i], k), behaviour=full)
                    if vw["nv"] != 1:
                        bad("view", "model[%d] has %d variants" % (k, vw["nv"]), fatal=False)
                        continue
                    d = diff_fields(vw["v"][0], after[i]["v"][k], exact=True, fields=kind.RAW)
                    if not d and full:
                        d = diff_fields(vw["v"][0], after[i]["v"][k], exact=False)
                    if d:
                        bad("view", "model[%d] of slot %d differs from variant %d in %s" % (k, i, k, d), fatal=False, field=d[0])
        except Exception as e:
            bad("view", "%s: %s" % (type(e).__name__, str(e)[:300]), fatal=False, error=type(e).__name__)
        # ---- the same through iteration: all pieces are taken first and KEPT, then each one is looked at -------
        try:
            if after[acted]["nv"] >= 2:
                pieces = list(objs[acted])
                res.count("objects_taken_apart_by_iteration")
                if len(pieces) != after[acted]["nv"]:
                    bad("view_iter", "iterating over slot %d gives %d pieces for %d variants" % (acted, len(pieces), after[acted]["nv"]), fatal=False)
                else:
                    for k, piece in enumerate(pieces):
                        vw = kind.observe(piece, behaviour=False)
                        d = ["nv"] if vw["nv"] != 1 else diff_fields(vw["v"][0], after[acted]["v"][k], exact=True, fields=kind.RAW)
                        if d:
                            bad("view_iter", "piece %d of list(model) of slot %d differs from variant %d in %s" % (k, acted, k, d), fatal=False, field=d[0])
                            break
        except Exception as e:
            bad("view_iter", "%s: %s" % (type(e).__name__, str(e)[:300]), fatal=False, error=type(e).__name__)
        if bad_state[0]:
            return None
        # ---- bookkeeping ------------------------------------------------------------------
        key = self.key(kn, pop1)
        res.nt(key)
        res.cls("population_shape_" + kn, tuple(sorted((o[0],) + tuple(kind.outcome_class(o)) for o in pop1 if o is not None)))
        res.cls("op_on_provenance", (kn, op[0], pop1[acted][0], len(pop1[acted][2])))
        res.count("transitions_" + kn)
        if op[0] in CLONES:
            res.count("clones_checked_" + op[0])
        n_other = len(live) - 1
        if n_other:
            res.count("isolation_checks", n_other)
        return key

    def _matches(self, got, ref_obj):
        if got["nv"] != len(ref_obj[2]):
            return False
        return all(not diff_fields(got["v"][k], expected_variant(self.kn, v, ref_obj[3]), exact=False)
                   for k, v in enumerate(ref_obj[2]))


EX_LIN = Machine("lin")
EX_NL = Machine("nl")
EX_SEQ = Machine("seq")
EX_VAR = Machine("var")
EXPLORERS = {"lin": "EX_LIN", "nl": "EX_NL", "seq": "EX_SEQ", "var": "EX_VAR"}


# ---------------------------------------------------------------------------
# Part B — portable / file round trips over a model grammar
# ---------------------------------------------------------------------------

def portable_programs():
    """every program of the grammar: 1|2 transition variables, log status of the last variable, transition
    shock y/n, measurement block none|plain|with shock, separate steady equation y/n, descriptions y/n"""
    out = []
    for nvar, logz, tshock, meas, steady_eq, descr in itertools.product((1, 2), (False, True), (False, True),
                                                                         ("none", "plain", "shock"), (False, True), (False, True)):
        out.append(dict(nvar=nvar, logz=logz, tshock=tshock, meas=meas, steady_eq=steady_eq, descr=descr))
    return out


def portable_source(p):
    d = (lambda s: '"%s" ' % s) if p["descr"] else (lambda s: "")
    last = "x" if p["nvar"] == 1 else "z"
    tv = [d("Output") + "x"] + ([d("Level of z") + "z"] if p["nvar"] == 2 else [])
    src = "!transition_variables\n    " + ", ".join(tv) + "\n"
    if p["logz"]:
        src += "!log_variables\n    %s\n" % last
    if p["tshock"]:
        src += "!transition_shocks\n    " + d("Shock to x") + "shk_x\n"
    src += "!parameters\n    " + d("Persistence") + "rho, c\n"
    shk = " + shk_x" if p["tshock"] else ""
    eqs = []
    if p["nvar"] == 1:
        if p["logz"]:
            eq = "log(x) = rho*log(x[-1]) + c%s" % shk
            if p["steady_eq"]:
                eq += " !! x = exp(c/(1-rho))"
        else:
            eq = "x = rho*x[-1] + c%s" % shk
            if p["steady_eq"]:
                eq += " !! x = c/(1-rho)"
        eqs.append(d("Equation for x") + eq + ";")
    else:
        eqs.append(d("Equation for x") + "x = rho*x[-1] + c%s + 0.1*x[+1];" % shk)
        if p["logz"]:
            eq = "log(z) = 0.5*log(z[-1]) + 0.2*x"
            if p["steady_eq"]:
                eq += " !! z = exp(0.4*x)"
        else:
            eq = "z = 0.5*z[-1] + 0.2*x"
            if p["steady_eq"]:
                eq += " !! z = 0.4*x"
        eqs.append(eq + ";")
    src += "!transition_equations\n    " + "\n    ".join(eqs) + "\n"
    if p["meas"] != "none":
        src += "!measurement_variables\n    " + d("Observed") + "obs\n"
        if p["meas"] == "shock":
            src += "!measurement_shocks\n    me\n"
        src += "!measurement_equations\n    obs = x%s;\n" % (" + me" if p["meas"] == "shock" else "")
    return src


def _static(m):
    """names, kinds, log status, equations, flags, parameter values through the public API"""
    names = m.create_qid_to_name()
    kinds = m.create_qid_to_kind()
    logly = m.create_qid_to_logly()
    q = sorted((names[i], kinds[i].name, logly.get(i)) for i in names)
    ps = m.get_parameters_stds(unpack_singleton=False)
    return {"quantities": q,
            "dynamic": list(m.get_dynamic_equations()), "steady": list(m.get_steady_equations()),
            "flags": (bool(m.is_linear), bool(m.is_flat), bool(m.is_deterministic)),
            "nv": m.num_variants,
            "params": {n: [None if v is None else float(v) for v in ps[n]] for n in sorted(ps)},
            "levels": {n: list(v) for n, v in m.get_steady_levels(unpack_singleton=False).items()},
            "description": m.get_description()}


def portable_case(cfg, res, workdir):
    p, flags, nv, steady, seed = cfg["program"], cfg["flags"], cfg["nv"], cfg["steady"], cfg["seed"]
    tb = tables(seed)
    case = {"part": "portable", "config": cfg}
    res.ev()
    base_sig = {"tshock": p["tshock"], "flags_default": not any(flags)}

    def bad(check, detail="", **extra):
        sig = dict(base_sig)
        sig.update(extra)
        res.violation(check, sig, dict(case, check=check), detail)
    kw = dict(linear=flags[0], flat=flags[1], deterministic=flags[2])
    src = portable_source(p)
    try:
        m = ir.Simultaneous.from_string(src, description="model under test", **kw)
        m.alter_num_variants(nv)
        m.assign(rho=[tb["rho"][k] for k in range(nv)], c=tb["c"][0])
        if p["tshock"] and not flags[2]:
            m.assign(std_shk_x=tb["std"])
        if steady:
            m.steady()
        ref = _static(m)
    except Exception as e:
        res.exclude("program_rejected_at_build_" + type(e).__name__)
        return
    flag_names = "+".join(n for n, f in zip(("linear", "flat", "deterministic"), flags) if f) or "default"

    def compare(m2, route):
        got = _static(m2)
        flags_ok = got["flags"] == ref["flags"]
        if not flags_ok:
            got_names = "+".join(n for n, f in zip(("linear", "flat", "deterministic"), got["flags"]) if f) or "default"
            bad("portable_flags", "%s: flags %s became %s" % (route, flag_names, got_names), route=route, got=got_names)
        if got["quantities"] != ref["quantities"]:
            a, b = set(map(tuple, ref["quantities"])), set(map(tuple, got["quantities"]))
            extra, missing = b - a, a - b
            klass = ("std_only" if (not missing and extra and all(n.startswith("std_") for n, _, _ in extra)) else "other")
            bad("portable_names", "%s: missing %s extra %s" % (route, sorted(missing), sorted(extra)), route=route,
                flags_ok=flags_ok, difference=klass)
        if got["dynamic"] != ref["dynamic"] or got["steady"] != ref["steady"]:
            bad("portable_equations", "%s: %r / %r vs %r / %r" % (route, got["dynamic"], got["steady"], ref["dynamic"], ref["steady"]),
                route=route)
        if got["nv"] != ref["nv"]:
            bad("portable_num_variants", "%s: %d vs %d" % (route, got["nv"], ref["nv"]), route=route)
        common = [n for n in ref["params"] if n in got["params"]]
        lost = [n for n in ref["params"] if n not in got["params"]]
        wrong = [n for n in common if got["params"][n] != ref["params"][n]]
        if lost or wrong:
            bad("portable_parameters", "%s: lost %s wrong %s (%r vs %r)" % (
                route, lost, wrong, {n: got["params"][n] for n in wrong}, {n: ref["params"][n] for n in wrong}), route=route)
        if got["description"] != ref["description"]:
            res.count("observed_description_not_preserved_" + route)
        res.count("observed_levels_preserved" if got["levels"] == ref["levels"] else "observed_levels_not_preserved_" + route)
        return got

    # ---- to_portable -> JSON text -> from_portable ---------------------------------
    try:
        port = m.to_portable()
    except Exception as e:
        bad("portable_to", "%s: %s" % (type(e).__name__, str(e)[:200]), error=type(e).__name__)
        port = None
    if port is not None:
        try:
            text = json.dumps(port)
            port2 = json.loads(text)
        except Exception as e:
            bad("portable_json", "%s: %s" % (type(e).__name__, str(e)[:200]), error=type(e).__name__)
            port2 = None
        if port2 is not None:
            # the portable dictionary itself states names / flags / equations (documented format 0.3.0)
            try:
                srcp = port2["source"]
                pf = srcp["flags"]
                if (pf["is_linear"], pf["is_flat"], pf["is_deterministic"]) != ref["flags"]:
                    bad("portable_dict_flags", repr(pf))
                pn = sorted(q[1] for q in srcp["quantities"])
                exp_n = sorted(n for n, k, _ in ref["quantities"] if not k.endswith("_STD"))
                if pn != exp_n:
                    bad("portable_dict_names", "%r vs %r" % (pn, exp_n))
                if len(port2["variants"]) != nv:
                    bad("portable_dict_variants", "%d" % len(port2["variants"]))
                for k, pv in enumerate(port2["variants"]):
                    for n in ref["params"]:
                        if n not in pv or pv[n][0] != ref["params"][n][k]:
                            bad("portable_dict_values", "variant %d %s: %r" % (k, n, pv.get(n)))
                            break
            except Exception as e:
                bad("portable_dict_format", "%s: %s" % (type(e).__name__, e), error=type(e).__name__)
            try:
                m2 = ir.Simultaneous.from_portable(port2)
                compare(m2, "dict")
                res.nt(("portable", json.dumps(cfg, sort_keys=True)))
                res.cls("portable_program", (p["nvar"], p["logz"], p["tshock"], p["meas"], p["steady_eq"], p["descr"]))
            except Exception as e:
                bad("portable_from", "%s: %s" % (type(e).__name__, str(e)[:200]), error=type(e).__name__)
            fn = os.path.join(workdir, "m.json")
            try:
                m.to_portable_file(fn)
                m3 = ir.Simultaneous.from_portable_file(fn)
                compare(m3, "file")
            except Exception as e:
                bad("portable_file", "%s: %s" % (type(e).__name__, str(e)[:200]), error=type(e).__name__)
    # ---- binary files: irispie.save/load (dill), save_pickle/load_pickle, model methods --------
    for route, save, load in () if not cfg.get("binary", True) else (
            ("save_load", lambda fn: ir.save(fn, m), lambda fn: ir.load(fn)),
            ("pickle_file", lambda fn: m.to_pickle_file(fn), lambda fn: ir.Simultaneous.from_pickle_file(fn)),
            ("dill_file", lambda fn: m.to_dill_file(fn), lambda fn: ir.Simultaneous.from_dill_file(fn))):
        fn = os.path.join(workdir, "m." + route)
        try:
            save(fn)
            mb = load(fn)
            got = _static(mb)
            d = [k for k in ref if got[k] != ref[k]]
            if d:
                bad("binary_file", "%s: differs in %s" % (route, d), route=route, field=d[0])
            res.count("binary_file_round_trips")
            res.nt(("binary", route, json.dumps(cfg, sort_keys=True)))
        except Exception as e:
            bad("binary_file", "%s: %s: %s" % (route, type(e).__name__, str(e)[:200]), route=route, error=type(e).__name__)


def shard_portable(item, res, ctx):
    os.makedirs("/verif/.work", exist_ok=True)
    workdir = tempfile.mkdtemp(dir="/verif/.work", prefix="c20_")
    try:
        for cfg in item:
            portable_case(cfg, res, workdir)
        res.sample({"part": "portable", "config": item[0]})
    finally:
        shutil.rmtree(workdir, ignore_errors=True)


# ---------------------------------------------------------------------------
# driver
# ---------------------------------------------------------------------------

MAX_OBJECTS = {"quick": {"lin": 3, "nl": 2, "seq": 3, "var": 3},
               "thorough": {"lin": 3, "nl": 3, "seq": 3, "var": 3}}
DEPTH = {"quick": {"lin": 3, "nl": 3, "seq": 3, "var": 3},
         "thorough": {"lin": 4, "nl": 4, "seq": 4, "var": 5}}
ORDER = ("seq", "var", "nl", "lin")       # cheap kinds first, so that a time cap (thorough --cap-min) hits the largest last


# ---------------------------------------------------------------------------
# Part C — pickles loaded by ANOTHER interpreter process (a different string-hash seed)
# ---------------------------------------------------------------------------

CROSS_CHILD = r"""
import sys, pickle, warnings, contextlib, io
root, src, how, kn, path_in, path_out = sys.argv[1:7]
if src:
    sys.path.insert(0, src)
sys.path.insert(0, root)
warnings.filterwarnings("ignore")
with contextlib.redirect_stdout(io.StringIO()):
    from props import c20
    import dill
    with open(path_in, "rb") as f:
        m = (pickle if how == "pickle" else dill).load(f)
    obs = c20.KINDS[kn].observe(m)
with open(path_out, "wb") as f:
    pickle.dump(obs, f)
"""
CROSS_HASH_SEEDS = (1, 2, 3)


def shard_crossproc(item, res, ctx):
    """item = (kind name, initial object index, 'pickle'|'dill'): the object is written to a file here and loaded,
    observed (steady state, solution, simulation, filter) in child interpreters started with other PYTHONHASHSEED
    values; what they see must be what this process sees"""
    import subprocess
    kn, init_id, how = item
    kind = KINDS[kn]
    case = {"part": "crossproc", "kind": kn, "init": init_id, "how": how, "seed": ctx.seed}
    os.makedirs("/verif/.work", exist_ok=True)
    workdir = tempfile.mkdtemp(dir="/verif/.work", prefix="c20x_")
    try:
        m = Machine(kn).impl_init(init_id, ctx)[0]
        own = kind.observe(m)
        path_in = os.path.join(workdir, "m.bin")
        with open(path_in, "wb") as f:
            (pickle if how == "pickle" else dill).dump(m, f)
        for hs in CROSS_HASH_SEEDS:
            res.ev()
            sig = {"part": "crossproc", "kind": kn, "how": how}
            path_out = os.path.join(workdir, "o%d.bin" % hs)
            env = dict(os.environ, PYTHONHASHSEED=str(hs))
            r = subprocess.run([sys.executable, "-c", CROSS_CHILD, "/verif", os.environ.get("VERIF_REPO_SRC", ""), how, kn, path_in, path_out],
                               env=env, capture_output=True, text=True, timeout=600)
            if r.returncode != 0 or not os.path.exists(path_out):
                res.violation("crossproc_load", dict(sig, error="child_failed"), dict(case, hashseed=hs),
                              "loading in another process failed: %s" % (r.stderr.strip().splitlines() or ["?"])[-1][:300])
                continue
            with open(path_out, "rb") as f:
                got = pickle.load(f)
            res.count("crossproc_loads")
            res.nt(("crossproc", kn, init_id, how, hs))
            d = None
            if got["nv"] != own["nv"]:
                d = ["nv"]
            elif got["descr"] != own["descr"]:
                d = ["descr"]
            elif diff_struct(got["struct"], own["struct"]):
                d = ["struct:" + diff_struct(got["struct"], own["struct"])[0]]
            else:
                for k in range(own["nv"]):
                    dd = diff_fields(got["v"][k], own["v"][k], exact=False)
                    if dd:
                        d = ["variant %d: %s" % (k, dd)]
                        sig["field"] = dd[0]
                        break
            if d:
                res.violation("crossproc", sig, dict(case, hashseed=hs),
                              "%s loaded in a process with PYTHONHASHSEED=%d differs from the object that was written in %s" % (how, hs, d))
    finally:
        shutil.rmtree(workdir, ignore_errors=True)


def run(ctx, total, info):
    only = [x for x in os.environ.get("C20_ONLY", "").split(",") if x]     # development aid; the floors still apply
    per_kind = {}
    states = transitions = 0
    deadline = (ctx.t0 + ctx.cap_s) if getattr(ctx, "cap_s", None) else None
    for kn in ORDER:
        if only and kn not in only:
            continue
        t_before = total.transitions
        ex = engine.explore(__name__, EXPLORERS[kn], ctx, total, max_depth=DEPTH[ctx.tier][kn], deadline=deadline)
        ex["transitions"] = total.transitions - t_before
        per_kind[kn] = ex
        states += ex["states"]
        transitions += ex["transitions"]
    info["states"] = states
    info["transitions"] = transitions
    info["traces_validated_against_impl"] = transitions
    info["max_depth"] = min([v["max_depth"] for v in per_kind.values()] or [0])
    info["per_kind"] = per_kind
    tb = tables(ctx.seed)
    info["alphabet"] = {}
    for kn in KINDS:
        own = [list(map(str, o)) for o in KINDS[kn].own_ops(("src", "", (KINDS[kn].base_variant(tb),), ()), tb, ctx.quick)]
        if kn == "nl":
            own.append(["solve (once every variant has a steady state)"])
        info["alphabet"][kn] = own + [[c, "i -> first free slot"] for c in CLONES]
    info["initial_objects"] = {kn: [[list(map(str, o)) for o in seq] for seq in KINDS[kn].inits(tb, ctx.quick)] for kn in KINDS}
    info["population_max_objects"] = MAX_OBJECTS[ctx.tier]
    # ---- Part B ---------------------------------------------------------------
    cfgs = []
    grid = ((1, False), (2, True), (3, False)) if ctx.quick else tuple(itertools.product((1, 2, 3), (False, True)))
    for p in portable_programs():
        for flags in itertools.product((False, True), repeat=3):
            for nv, steady in grid:
                cfgs.append(dict(program=p, flags=list(flags), nv=nv, steady=steady, seed=ctx.seed,
                                 binary=(not ctx.quick) or nv == 2))
    n = 96
    ev0 = total.evaluations
    if not only or "portable" in only:
        engine.run_shards(__name__, "shard_portable", [cfgs[i::n] for i in range(n)], ctx, total)
    info["portable_configurations"] = len(cfgs)
    # ---- Part C ---------------------------------------------------------------
    if not only or "crossproc" in only:
        items = [(kn, i, how) for kn in KINDS for i in range(len(KINDS[kn].inits(tb, ctx.quick))) for how in ("pickle", "dill")]
        engine.run_shards(__name__, "shard_crossproc", items, ctx, total)
        info["cross_process_loads"] = {"objects": len(items), "hash_seeds": list(CROSS_HASH_SEEDS)}
    info["exhaustive"] = (not only) and all(per_kind[k]["max_depth"] == DEPTH[ctx.tier][k] for k in per_kind)
    c = total.counters
    # a thorough run stopped by --cap-min reports exhaustive=False and is held to the quick floors only
    q = ctx.quick or not info["exhaustive"]
    info["floors"] = {
        "transitions_lin": (c["transitions_lin"], 4700 if q else 80000),
        "transitions_nl": (c["transitions_nl"], 1500 if q else 65000),
        "transitions_seq": (c["transitions_seq"], 1600 if q else 27000),
        "transitions_var": (c["transitions_var"], 1200 if q else 45000),
        "states": (states, 4000 if q else 75000),
        "clones_checked": (sum(c["clones_checked_" + h] for h in CLONES), 1900 if q else 27000),
        "alias_scans_between_members": (c["alias_scans_between_members"], 3400 if q else 54000),
        "isolation_checks": (c["isolation_checks"], 10000 if q else 290000),
        "objects_taken_apart_by_iteration": (c["objects_taken_apart_by_iteration"], 2000),
        "crossproc_loads": (c["crossproc_loads"], 50),
        "view_assignments": (c["observed_view_assignment_writes_through"] + c["observed_view_assignment_is_detached"], 150 if q else 3500),
        "portable_configurations_evaluated": (total.evaluations - ev0, 1150 if q else 2300),
        "portable_round_trips_compared": (c["observed_levels_preserved"] + sum(v for k, v in c.items() if k.startswith("observed_levels_not")), 2300 if q else 4600),
        "binary_file_round_trips": (c["binary_file_round_trips"], 1100 if q else 6900),
    }


def replay(case):
    res = engine.Result()
    ctx = engine.Ctx(case.get("tier", "quick"), int(case.get("seed", 0)))
    if case.get("part") == "explore":
        hist = case["history"]
        Machine(case["kind"]).step(hist[:-1], hist[-1], res, ctx)
    elif case.get("part") == "portable":
        os.makedirs("/verif/.work", exist_ok=True)
        workdir = tempfile.mkdtemp(dir="/verif/.work", prefix="c20_")
        try:
            portable_case(case["config"], res, workdir)
        finally:
            shutil.rmtree(workdir, ignore_errors=True)
    elif case.get("part") == "crossproc":
        shard_crossproc((case["kind"], case["init"], case["how"]), res, ctx)
    want = case.get("check")        # the oracle that failed when the case was stored; other oracles are not part of this replay
    return ["%s %s %s" % (v["check"], engine.sigkey(v["signature"]), v["detail"]) for v in res.violations
            if want is None or v["check"] == want]
