"""C09 — periods behave as calendar-consistent integers and spans as their ranges.

Part A (enumeration): every period of Y/H/Q/M/D over a year range and integer periods,
    against ref/calendar (datetime only).
Part B (explicit-state): Span state machine, every (start, end, step) over a window of
    each frequency plus open-ended / contextual forms, BFS over in-place mutations and
    functional operations with a (start, end, step) integer-triple reference model.
Part C: all ordered pairs of different frequencies x comparison/difference/span
    construction must raise.
"""
import datetime as dt
import itertools

import irispie as ir
from irispie import dates as D

from mc import engine
from ref import calendar as C

PROPERTY = "C09"
LEVEL = "model_checking"
RULE = ("A: every period of each frequency in the year range x offset table, non-trivial = distinct "
        "(frequency, ordinal); B: BFS over Span operation histories from every (start,end,step) of a "
        "7-serial window per frequency and contextual forms, every transition compared with a Python "
        "range reference, distinct = canonical (freq,start,end,step); C: all ordered frequency pairs x "
        "15 mixed-frequency operations")
MANIFEST_ENTRY = dict(level="model_checking", design="DESIGN.md section 4 / C09",
   technique="explicit-state BFS over Span operation histories vs integer-range reference model + exhaustive enumeration of every period of the calendar",
   text="Every period of every frequency over the stated year range (quick 1800-2200, daily 1896-2104; thorough years 1-9998, daily 1583-2420) is checked against a datetime-only reference calendar for order, arithmetic, hashing, tiling and its inverse (every month's first/15th/last day inside a tile builds that period through from_ymd, from_iso_string, from_python_date and refrequent; conversion to every lower frequency), accessors and keyword shifts with 129 offsets each; the Span API is explored as a state machine (all (start,end,step) of a 7-period window per frequency + contextual forms, BFS depth 2/3, every transition compared with a Python-range reference and checked for isolation); all mixed-frequency operations must raise.",
   note="Trusted: Python datetime/calendar, the 40-line reference in ref/calendar.py. Not covered: years outside the range, weekly frequency, negative-step slicing, span-minus-period.")
ASSUMPTIONS = ["Python datetime/calendar are a correct proleptic Gregorian calendar",
               "negative-step slicing of a Span and `span - period` are not asserted (not in the statement)"]

F = D.Frequency
FREQ = {C.Y: F.YEARLY, C.H: F.HALFYEARLY, C.Q: F.QUARTERLY, C.M: F.MONTHLY, C.D: F.DAILY, C.I: F.INTEGER}
CLS = {C.Y: D.YearlyPeriod, C.H: D.HalfyearlyPeriod, C.Q: D.QuarterlyPeriod, C.M: D.MonthlyPeriod,
       C.D: D.DailyPeriod, C.I: D.IntegerPeriod}
CTOR = {C.Y: lambda y, s=1: ir.yy(y), C.H: ir.hh, C.Q: ir.qq, C.M: ir.mm}
OFFSETS_BASE = list(range(-60, 61)) + [365, -365, 366, -366, 1461, -1461, 36524, -36524]


def mk(freq, o):
    """real period from a reference ordinal, through the public constructors"""
    if freq == C.I:
        return ir.ii(o)
    if freq == C.D:
        d = dt.date.fromordinal(o)
        return ir.dd(d.year, d.month, d.day)
    y, s = C.year_segment(freq, o)
    return CTOR[freq](y, s)


def ordof(freq, p):
    """reference ordinal of a real period, through its public accessors (never .serial)"""
    if freq == C.I:
        return int(str(p.to_sdmx_string()).strip("()"))
    if freq == C.D:
        return dt.date(*p.to_ymd()).toordinal()
    y, s = p.to_year_segment()
    return y * freq + s - 1


def _raises(fn):
    try:
        fn()
    except Exception:
        return True
    return False


# ---------------------------------------------------------------------------
# Part A — periods
# ---------------------------------------------------------------------------

def shard_periods(item, res, ctx):
    freq, y0, y1, offsets = item
    fname = C.NAMES[freq]
    if freq == C.D:
        lo, hi = dt.date(y0, 1, 1).toordinal(), dt.date(y1, 12, 31).toordinal()
    else:
        lo, hi = y0 * freq, y1 * freq + freq - 1
    omin = C.ordinal(freq, 1, 1) if freq != C.D else 1
    prev = None
    for o in range(lo, hi + 1):
        res.ev()
        res.nt(o * 7 + (freq % 7))
        case = {"part": "period", "freq": fname, "ordinal": o}

        def bad(check, detail="", **extra):
            sig = {"freq": fname}
            sig.update(extra)
            res.violation(check, sig, dict(case, **extra), detail)
        try:
            p = mk(freq, o)
            y, s = C.year_segment(freq, o)
            if type(p) is not CLS[freq] or p.frequency is not FREQ[freq]:
                bad("ctor_type", repr(p))
            # accessors agree with the calendar
            try:
                got = (p.year, p.segment, tuple(p.to_year_segment()), p.get_year())
                if got != (y, s, (y, s), y):
                    bad("year_segment", "got %r expected %r" % (got, (y, s)))
                if D.Period.from_year_segment(FREQ[freq], y, s) != p:
                    bad("from_year_segment")
            except Exception as e:
                bad("year_segment", "%s: %s" % (type(e).__name__, e), error=type(e).__name__)
            fd, ld = C.first_day(freq, o), C.last_day(freq, o)
            if freq == C.D:
                if p.to_ymd() != (fd.year, fd.month, fd.day) or (p.year, p.month, p.day) != (fd.year, fd.month, fd.day):
                    bad("ymd", repr(p.to_ymd()))
            else:
                a = p.to_ymd(position="start")
                b = p.to_ymd(position="end")
                if a != (fd.year, fd.month, fd.day):
                    bad("tile_start", "%r vs %r" % (a, fd))
                if b != (ld.year, ld.month, ld.day):
                    bad("tile_end", "%r vs %r" % (b, ld))
            # inverse of the tiling (round-7 seed C09_k): every calendar date inside the tile - first, middle and last
            # day of each month it covers - creates this very period through each date-based constructor, and the
            # daily period of that date converts to it
            if freq != C.I:
                try:
                    days, d0 = [], fd
                    while d0 <= ld:
                        nxt = dt.date(d0.year + (d0.month == 12), d0.month % 12 + 1, 1)
                        days += [d0, nxt - dt.timedelta(days=1)] + ([d0.replace(day=15)] if freq != C.D else [])
                        d0 = nxt
                    for d in (days if freq != C.D else [fd]):
                        res.ev()
                        made = (D.Period.from_ymd(FREQ[freq], d.year, d.month, d.day),
                                D.Period.from_iso_string(d.isoformat(), frequency=FREQ[freq]),
                                D.Period.from_python_date(d, frequency=FREQ[freq]),
                                D.dd(d.year, d.month, d.day).refrequent(FREQ[freq]))
                        if any(type(g) is not CLS[freq] or g != p for g in made):
                            bad("date_to_period", "%s -> %r" % (d.isoformat(), made), month=d.month)
                            break
                    # the period converted to any lower regular frequency is the one whose tile contains it
                    for lf in (C.Y, C.H, C.Q, C.M):
                        if freq == C.D or lf < freq:
                            for pos, d in (("start", fd), ("end", ld)):
                                g = p.refrequent(FREQ[lf], position=pos) if freq != C.D else p.refrequent(FREQ[lf])
                                want = mk(lf, C.ordinal(lf, d.year, (d.month - 1) // (12 // lf) + 1))
                                if type(g) is not CLS[lf] or g != want:
                                    bad("refrequent", "%s %s -> %r expected %r" % (C.NAMES[lf], pos, g, want), to=C.NAMES[lf])
                except Exception as e:
                    bad("date_to_period", "%s: %s" % (type(e).__name__, e), error=type(e).__name__)
            # order, equality, hash against the neighbour
            if prev is not None:
                ok = (prev + 1 == p and p - 1 == prev and p - prev == 1 and prev - p == -1 and prev < p and p > prev
                      and prev <= p and p >= prev and prev != p and not (prev == p) and not (p < prev)
                      and not (p <= prev) and not (prev > p) and not (prev >= p) and 1 + prev == p)
                if not ok:
                    bad("successor")
                # tiling: the day after prev's last day is p's first day
                if freq != C.I:
                    e_prev = dt.date(*prev.to_ymd(position="end")) if freq != C.D else dt.date(*prev.to_ymd())
                    s_cur = dt.date(*p.to_ymd(position="start")) if freq != C.D else dt.date(*p.to_ymd())
                    if e_prev + dt.timedelta(days=1) != s_cur:
                        bad("tiling", "%s -> %s" % (e_prev, s_cur))
            q = (p + 3) - 3
            if not (q == p and hash(q) == hash(p) and p <= q and p >= q and not (p < q) and not (p > q) and not (p != q)
                    and {p: 1}.get(q) == 1 and len({p, q, mk(freq, o)}) == 1):
                bad("eq_hash")
            # keyword shifts
            try:
                if freq == C.D:
                    exp_soy = dt.date(y, 1, 1).toordinal()
                    exp_eopy = exp_soy - 1
                    exp_tty = None if s == 1 else o - 1
                    exp_yoy = None      # not documented for daily: not asserted
                else:
                    exp_soy, exp_eopy = y * freq, y * freq - 1
                    exp_tty = None if s == 1 else o - 1
                    exp_yoy = o - freq
                for kw, exp in (("soy", exp_soy), ("boy", exp_soy), ("eopy", exp_eopy), ("yoy", exp_yoy)):
                    if exp is None or exp < omin:
                        continue
                    g = p.shift(kw)
                    if type(g) is not CLS[freq] or ordof(freq, g) != exp:
                        bad("kwshift", "%s -> %r" % (kw, g), keyword=kw)
                g = p.shift("tty")
                if (exp_tty is None) != (g is None) or (g is not None and ordof(freq, g) != exp_tty):
                    bad("kwshift", "tty -> %r" % (g,), keyword="tty")
                if p.shift(-2) != p - 2 or p.shift(3) != p + 3:
                    bad("shift_int")
            except Exception as e:
                bad("kwshift", "%s: %s" % (type(e).__name__, e), error=type(e).__name__)
            # offsets
            for n in offsets:
                if o + n < omin or (freq == C.D and o + n > 3652059 - 400) or (freq != C.D and o + n > 9999 * freq):
                    continue
                r = p + n
                res.ev()
                if not ((r - p) == n and p + (r - p) == r and (p - r) == -n and (r < p) == (n < 0) and (r > p) == (n > 0)
                        and (r == p) == (n == 0) and (r <= p) == (n <= 0) and (r >= p) == (n >= 0)
                        and p - (-n) == r and n + p == r and ordof(freq, r) == o + n):
                    bad("offset", "n=%d r=%r" % (n, r), n=("small" if abs(n) <= 60 else "large"))
                    break
        except Exception as e:
            bad("exception", "%s: %s" % (type(e).__name__, e), error=type(e).__name__)
        prev = p if 'p' in dir() else None
    res.sample({"part": "periods", "freq": fname, "years": [y0, y1], "n_offsets": len(offsets)})


def shard_integer(item, res, ctx):
    lo, hi = item
    prev = None
    for o in range(lo, hi + 1):
        res.ev()
        res.nt(("I", o))
        p = ir.ii(o)
        case = {"part": "integer", "ordinal": o}
        try:
            if prev is not None and not (prev + 1 == p and p - prev == 1 and prev < p and p > prev and prev <= p and prev != p):
                res.violation("successor", {"freq": "I"}, case)
            q = (p + 5) - 5
            if not (q == p and hash(q) == hash(p) and {p: 1}.get(q) == 1):
                res.violation("eq_hash", {"freq": "I"}, case)
            for n in range(-20, 21):
                r = p + n
                if not ((r - p) == n and p + (r - p) == r and (r < p) == (n < 0) and (r >= p) == (n >= 0) and ordof(C.I, r) == o + n):
                    res.violation("offset", {"freq": "I"}, dict(case, n=n))
                    break
        except Exception as e:
            res.violation("exception", {"freq": "I", "error": type(e).__name__}, case, str(e))
        prev = p


# ---------------------------------------------------------------------------
# Part C — mixed frequencies are rejected
# ---------------------------------------------------------------------------

MIXED_OPS = {
    "eq": lambda a, b: a == b, "ne": lambda a, b: a != b, "lt": lambda a, b: a < b, "le": lambda a, b: a <= b,
    "gt": lambda a, b: a > b, "ge": lambda a, b: a >= b, "sub": lambda a, b: a - b,
    "span": lambda a, b: D.Span(a, b), "rshift": lambda a, b: a >> b, "from_until": lambda a, b: D.periods_from_until(a, b),
    # half-open spans resolved against a context of another frequency
    "resolve_open_end": lambda a, b: D.Span(a, None).resolve(D.ResolutionContext(b, b + 3)),
    "resolve_open_start": lambda a, b: D.Span(None, a).resolve(D.ResolutionContext(b - 3, b)),
    "resolve_backward": lambda a, b: D.Span(a, None, -1).resolve(D.ResolutionContext(b - 3, b)),
    "resolve_offset": lambda a, b: D.Span(a, ir.end - 1).resolve(D.ResolutionContext(b, b + 3)),
    "resolve_against_span": lambda a, b: D.Span(a, None).resolve(D.Span(b, b + 3)),
}


def shard_mixed(item, res, ctx):
    for fa, fb in itertools.permutations(C.ALL, 2):
        for oa, ob in ((0, 0), (1, -1), (5, 5)):
            a = mk(fa, (C.ordinal(fa, 2020, 1) if fa != C.I else 2020) + oa)
            b = mk(fb, (C.ordinal(fb, 2020, 1) if fb != C.I else 2020) + ob)
            for name, op in MIXED_OPS.items():
                res.ev()
                res.nt(("mixed", fa, fb, name))
                if not _raises(lambda: op(a, b)):
                    res.violation("mixed_not_rejected", {"op": name, "a": C.NAMES[fa], "b": C.NAMES[fb]},
                                  {"part": "mixed", "a": repr(a), "b": repr(b), "op": name})
    res.sample({"part": "mixed", "pairs": 30, "ops": sorted(MIXED_OPS)})


# ---------------------------------------------------------------------------
# Part B — Span state machine
# ---------------------------------------------------------------------------
# A reference span is (freq, s, e, step) with s/e either an int offset from the window
# base or ("start"|"end", k) for contextual periods.  Offsets are relative to BASE[freq].

BASE = {C.Q: C.ordinal(C.Q, 2019, 3), C.M: C.ordinal(C.M, 2019, 10), C.Y: 2018, C.H: C.ordinal(C.H, 2019, 2),
        C.D: dt.date(2020, 2, 26).toordinal(), C.I: -3}
W = 7
STEPS = (1, 2, 3, -1, -2, -3)
CONTEXTS = ((0, 6), (2, 4), (3, 3), (1, 5))     # (start offset, end offset) of resolution contexts


def _sgn(x):
    return 1 if x > 0 else -1


class SpanMachine:
    """explorer object: histories are lists of JSON-able ops; the first op is ('init', freq, s, e, step)."""

    # ---- reference ---------------------------------------------------
    @staticmethod
    def ref_resolved(st):
        return isinstance(st[1], int) and isinstance(st[2], int)

    @staticmethod
    def ref_list(st):
        f, s, e, k = st
        return list(range(s, e + _sgn(k), k))

    @staticmethod
    def ref_resolve(st, cs, ce):
        f, s, e, k = st
        rs = s if isinstance(s, int) else ({"start": cs, "end": ce}[s[0]] + s[1])
        re_ = e if isinstance(e, int) else ({"start": cs, "end": ce}[e[0]] + e[1])
        return (f, rs, re_, k)

    @staticmethod
    def ref_apply(st, op):
        """returns ('state', new_state) | ('raise',) ; op names below"""
        f, s, e, k = st
        name = op[0]

        def sh(x, n):
            return x + n if isinstance(x, int) else (x[0], x[1] + n)
        if name == "reverse" or name == "reversed":
            return ("state", (f, e, s, -k))
        if name == "shift":
            return ("state", (f, sh(s, op[1]), sh(e, op[1]), k))
        if name == "shift_start":
            return ("state", (f, sh(s, op[1]), e, k))
        if name == "shift_end":
            return ("state", (f, s, sh(e, op[1]), k))
        if name in ("add", "radd"):
            return ("state", (f, sh(s, op[1]), sh(e, op[1]), k))
        if name == "sub":
            return ("state", (f, sh(s, -op[1]), sh(e, -op[1]), k))
        if name == "restep_r":      # span >> step  (positive only)
            return ("raise",) if op[1] < 0 else ("state", (f, s, e, op[1]))
        if name == "restep_l":      # span << step  (negative only)
            return ("raise",) if op[1] > 0 else ("state", (f, s, e, op[1]))
        if name == "resolve":
            cs, ce = CONTEXTS[op[1]]
            return ("state", SpanMachine.ref_resolve(st, cs, ce))
        if name == "copy":
            return ("state", st)
        raise KeyError(name)

    # ---- implementation ----------------------------------------------
    @staticmethod
    def build(st):
        f, s, e, k = st

        def per(x):
            if isinstance(x, int):
                return mk(f, BASE[f] + x)
            return (ir.start if x[0] == "start" else ir.end) + x[1]
        return D.Span(per(s), per(e), k)

    @staticmethod
    def observe(f, sp):
        """canonical state of a real span via its public attributes"""
        def off(p):
            if isinstance(p, D.ContextualPeriod):
                return (p._resolve_from.replace("_date", ""), p._offset)
            return ordof(f, p) - BASE[f]
        return (f, off(sp.start), off(sp.end), sp.step)

    @staticmethod
    def impl_apply(f, sp, op):
        """returns (new_span_object, mutated_in_place?)"""
        name = op[0]
        if name == "reverse":
            r = sp.reverse()
            return sp, True
        if name == "reversed":
            return sp.reversed(), False
        if name == "shift":
            sp.shift(op[1]); return sp, True
        if name == "shift_start":
            sp.shift_start(op[1]); return sp, True
        if name == "shift_end":
            sp.shift_end(op[1]); return sp, True
        if name == "add":
            return sp + op[1], False
        if name == "radd":
            return op[1] + sp, False
        if name == "sub":
            return sp - op[1], False
        if name == "restep_r":
            return sp >> op[1], False
        if name == "restep_l":
            return sp << op[1], False
        if name == "resolve":
            cs, ce = CONTEXTS[op[1]]
            return sp.resolve(D.ResolutionContext(mk(f, BASE[f] + cs), mk(f, BASE[f] + ce))), False
        if name == "copy":
            return sp.copy(), False
        raise KeyError(name)

    ALPHABET = ([("reverse",), ("reversed",), ("copy",)]
                + [(n, k) for n in ("shift", "shift_start", "shift_end") for k in (1, -1)]
                + [("add", 2), ("radd", -1), ("sub", 1)]
                + [("restep_r", 1), ("restep_r", 2), ("restep_r", -1), ("restep_l", -1), ("restep_l", -3), ("restep_l", 2)]
                + [("resolve", i) for i in range(len(CONTEXTS))])

    # ---- explorer protocol ----------------------------------------------
    def initial(self, ctx):
        out = []
        freqs = [C.Q, C.M, C.Y, C.H, C.D, C.I]
        for f in freqs:
            steps = STEPS if f in (C.Q, C.D) else (1, 2, -1, -3)
            for s in range(W):
                for e in range(W):
                    for k in steps:
                        out.append([("init", f, s, e, k)])
            # contextual forms
            ctxp = [("start", 0), ("start", 1), ("start", -1), ("end", 0), ("end", -1), ("end", 2)]
            for a in ctxp:
                for k in (1, -1, 2):
                    out.append([("init", f, a, 3, k)])
                    out.append([("init", f, 3, a, k)])
                    for b in ctxp[::2]:
                        out.append([("init", f, a, b, k)])
        return out

    def key0(self, hist, ctx):
        return tuple(hist[0][1:])

    def ops(self, hist, ctx):
        return self.ALPHABET

    def replay_ref(self, hist):
        st = tuple(hist[0][1:])
        st = (st[0], tuple(st[1]) if isinstance(st[1], (list, tuple)) else st[1],
              tuple(st[2]) if isinstance(st[2], (list, tuple)) else st[2], st[3])
        for op in hist[1:]:
            r = self.ref_apply(st, tuple(op))
            st = r[1]
        return st

    def replay_impl(self, hist):
        st0 = self.replay_ref(hist[:1])
        sp = self.build(st0)
        f = st0[0]
        for op in hist[1:]:
            sp, _ = self.impl_apply(f, sp, tuple(op))
        return sp

    def step(self, hist, op, res, ctx):
        op = tuple(op)
        st = self.replay_ref(hist)
        f = st[0]
        fname = C.NAMES[f]
        case = {"part": "span", "history": [list(h) for h in hist] + [list(op)]}
        res.ev()

        def bad(check, detail="", **extra):
            sig = {"freq": fname, "op": op[0]}
            sig.update(extra)
            res.violation(check, sig, case, detail)
        exp = self.ref_apply(st, op)
        try:
            sp = self.replay_impl(hist)
            before = self.observe(f, sp)
            if before != st:
                bad("replay_state", "impl %r ref %r" % (before, st))
                return None
            keep = sp.copy()
            # observe, mutate, observe: read the span through every accessor BEFORE the operation too, so that state
            # derived from an earlier observation (a cache) would be seen going stale
            self.check_state(f, sp, st, bad, res)
            try:
                new, inplace = self.impl_apply(f, sp, op)
            except Exception as e:
                if exp[0] == "raise":
                    return None
                bad("unexpected_exception", "%s: %s" % (type(e).__name__, e), error=type(e).__name__)
                return None
            if exp[0] == "raise":
                bad("not_rejected", "operation should raise")
                return None
            st2 = exp[1]
            got = self.observe(f, new)
            if got != st2:
                bad("transition", "impl %r ref %r" % (got, st2))
                return None
            # isolation: functional ops leave the receiver unchanged, also after mutating the result
            if not inplace:
                if new is sp:
                    bad("aliasing", "functional operation returned the receiver itself")
                new.shift(5); new.reverse(); new.shift_start(1)
                if self.observe(f, sp) != st:
                    bad("isolation", "receiver changed after mutating the result")
                new.shift_start(-1); new.reverse(); new.shift(-5)
                if self.observe(f, new) != st2:
                    bad("mutation_roundtrip", "shift/reverse round trip on the result")
            if self.observe(f, keep) != st:
                bad("copy_isolation", "an earlier copy changed")
            self.check_state(f, new, st2, bad, res)
            res.nt(("span",) + tuple(map(str, st2)))
            return st2
        except Exception as e:
            bad("exception", "%s: %s" % (type(e).__name__, e), error=type(e).__name__)
            return None

    def check_state(self, f, sp, st, bad, res):
        """all observations of one span state agree with the reference range"""
        if not self.ref_resolved(st):
            if not sp.needs_resolve or bool(sp):
                bad("needs_resolve")
            return
        if sp.needs_resolve or not bool(sp):
            bad("needs_resolve")
        exp = self.ref_list(st)
        got = [ordof(f, p) - BASE[f] for p in sp]
        if got != exp:
            bad("enumeration", "iter %r expected %r" % (got, exp))
        if len(sp) != len(exp):
            bad("len", "%d vs %d" % (len(sp), len(exp)))
        n = len(exp)
        for i in range(-n - 1, n + 1):
            try:
                g = ordof(f, sp[i]) - BASE[f]
                if not (-n <= i < n) or g != exp[i]:
                    bad("getitem", "i=%d got %r" % (i, g))
            except IndexError:
                if -n <= i < n:
                    bad("getitem", "i=%d IndexError" % i)
        for sl in (slice(None), slice(1, None), slice(None, -1), slice(1, 4), slice(None, None, 2), slice(2, 1), slice(-2, None)):
            g = [ordof(f, p) - BASE[f] for p in sp[sl]]
            if g != exp[sl]:
                bad("getslice", "%r got %r expected %r" % (sl, g, exp[sl]))
        if sp.direction != ("forward" if st[3] > 0 else "backward") or sp.frequency is not FREQ[f]:
            bad("direction_frequency")
        fresh = D.Span(mk(f, BASE[f] + st[1]), mk(f, BASE[f] + st[2]), st[3])
        if not (sp == fresh) or list(fresh) != list(sp):
            bad("eq_fresh")
        other = D.Span(mk(f, BASE[f] + st[1]), mk(f, BASE[f] + st[2] + 1), st[3])
        if sp == other:
            bad("eq_distinguishes")
        if st[3] > 0:
            pu = [ordof(f, p) - BASE[f] for p in D.periods_from_until(sp.start, sp.end, st[3])]
            if pu != exp:
                bad("periods_from_until", "%r vs %r" % (pu, exp))
        if st[3] == 1:
            a = sp.start >> sp.end
            if not (a == sp):
                bad("rshift_ctor")
        # reversing twice is the identity
        rr = sp.reversed().reversed()
        if self.observe(f, rr) != st or [ordof(f, p) - BASE[f] for p in rr] != exp:
            bad("double_reverse")


SPAN = SpanMachine()


# ---------------------------------------------------------------------------
# driver
# ---------------------------------------------------------------------------

def run(ctx, total, info):
    rot = ctx.seed % 7
    offs = OFFSETS_BASE
    shards = []
    if ctx.quick:
        yr = (1800, 2200)
        dyr = (1896 + 0, 2104)
        blocks = 25
    else:
        yr = (1, 9998)
        dyr = (1583, 2420)
        blocks = 250
    for f in C.REGULAR:
        step = max(1, (yr[1] - yr[0] + 1) // (blocks if f != C.Y else max(1, blocks // 4)))
        y = yr[0]
        while y <= yr[1]:
            y2 = min(yr[1], y + step - 1)
            shards.append((f, y, y2, offs))
            y = y2 + 1
    # daily: full offset table on the years around leap/century boundaries, short table elsewhere
    hot = {1896, 1899, 1900, 1901, 1904, 1999, 2000, 2001, 2019, 2020, 2021, 2024, 2099, 2100, 2101, 2103, 2104}
    small = [-366, -365, -60, -31, -2, -1, 0, 1, 2, 28, 29, 31, 59, 60, 365, 366, 1461]
    for y in range(dyr[0], dyr[1] + 1, 4):
        y2 = min(dyr[1], y + 3)
        if any(h in hot for h in range(y, y2 + 1)):
            for yy in range(y, y2 + 1):
                shards.append((C.D, yy, yy, offs if yy in hot else small))
        else:
            shards.append((C.D, y, y2, small))
    # heavy shards first
    shards.sort(key=lambda s: -(s[2] - s[1] + 1) * len(s[3]) * (30 if s[0] == C.D else s[0]))
    engine.run_shards(__name__, "shard_periods", shards, ctx, total)
    engine.run_shards(__name__, "shard_integer", [(-1000, -1), (0, 1000)], ctx, total)
    engine.run_shards(__name__, "shard_mixed", [0], ctx, total)
    depth = 2 if ctx.quick else 3
    ex = engine.explore(__name__, "SPAN", ctx, total, max_depth=depth)
    info.update(ex)
    info["traces_validated_against_impl"] = ex["transitions"]
    info["alphabet"] = [list(a) for a in SpanMachine.ALPHABET]
    info["period_year_range"] = {"regular": list(yr), "daily": list(dyr), "integer": [-1000, 1000]}
    info["exhaustive"] = True
    info["floors"] = {"span_states": (ex["states"], 3000), "span_transitions": (ex["transitions"], 50000),
                      "period_evaluations": (total.evaluations, 100000)}


def replay(case):
    res = engine.Result()
    ctx = engine.Ctx("quick", 0)
    part = case.get("part")
    if part == "span":
        hist = case["history"]
        SPAN.step(hist[:-1], hist[-1], res, ctx)
    elif part == "period":
        f = {v: k for k, v in C.NAMES.items()}[case["freq"]]
        o = case["ordinal"]
        y = C.year_segment(f, o)[0] if f != C.I else 0
        # re-run the one-year shard that contains the period
        shard_periods((f, y, y, OFFSETS_BASE), res, ctx)
        res.violations = [v for v in res.violations if v["case"].get("ordinal") == o] or res.violations
    elif part == "integer":
        shard_integer((case["ordinal"] - 1, case["ordinal"] + 1), res, ctx)
    elif part == "mixed":
        shard_mixed(0, res, ctx)
    return ["%s %s %s" % (v["check"], engine.sigkey(v["signature"]), v["detail"]) for v in res.violations]
