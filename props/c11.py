"""C11 — period conversions round-trip; frequency conversion preserves containment.

Complete enumeration of every period of Y/H/Q/M/D over a year range (and integer
periods) x every representation x every ordered pair of calendar frequencies x
every position, against ref/calendar (datetime only).
"""
import datetime as dt

import irispie as ir
from irispie import dates as D

from mc import engine
from ref import calendar as C
from props.c09 import mk, ordof, FREQ, CLS

PROPERTY = "C11"
LEVEL = "exploration"
RULE = ("every period of each frequency in the year range; per period 13 representation round trips (SDMX strings also as one-shot iterables) and, for each "
        "of the 5 target calendar frequencies x 3 positions, containment of the converted period; distinct "
        "non-trivial case = (frequency, ordinal)")
MANIFEST_ENTRY = dict(level="exploration", design="DESIGN.md section 4 / C11",
    technique="exhaustive enumeration of every calendar period x representation x frequency pair x position against a datetime-only containment reference",
    text="For every period of every frequency in the year range (quick 1800-2200, daily 1896-2104; thorough 1-9998, daily 1583-2420, integers -1000..1000): SDMX (auto-detected and explicit frequency), ISO, (year, segment), (y,m,d) at start/middle/end, Python date, repr->eval and periods_from_sdmx_strings round trips are the identity; to_ymd positions lie inside the period in order; refrequent to each calendar frequency at each position returns the unique target period containing that day, is monotone, and coarse->fine->coarse returns the original; periods of different regular frequencies with the same internal number (ordinals 3600-9998) are checked back to back in one process.",
    note="Trusted: Python datetime/calendar and ref/calendar.py. Years outside the range and weekly frequency are not covered; the library's SDMX text is cross-checked against the SDMX form only for calendar frequencies.")
ASSUMPTIONS = ["Python datetime/calendar are a correct proleptic Gregorian calendar"]

NS = {"yy": ir.yy, "hh": ir.hh, "qq": ir.qq, "mm": ir.mm, "dd": ir.dd, "ii": ir.ii}
POS = ("start", "middle", "end")


def _only(periods, n, k):
    periods = tuple(periods)
    if len(periods) != n:
        raise ValueError("%d strings came back as %d periods" % (n, len(periods)))
    return periods[k]


def check_period(freq, o, res, prev_conv):
    fname = C.NAMES[freq]
    case = {"freq": fname, "ordinal": o}

    def bad(check, detail="", **extra):
        sig = {"freq": fname}
        sig.update(extra)
        res.violation(check, sig, dict(case, **extra), detail)

    p = mk(freq, o)
    F = FREQ[freq]
    # ---- representation round trips -----------------------------------------
    trips = {
        "sdmx_auto": lambda: D.Period.from_sdmx_string(p.to_sdmx_string()),
        "sdmx_freq": lambda: D.Period.from_sdmx_string(p.to_sdmx_string(), frequency=F),
        "sdmx_list": lambda: D.periods_from_sdmx_strings([p.to_sdmx_string(), (p + 1).to_sdmx_string()])[0],
        "sdmx_list_last": lambda: D.periods_from_sdmx_strings([(p - 1).to_sdmx_string(), p.to_sdmx_string()])[-1],
        # the same strings handed over as one-shot iterables (a generator, an iterator over one string, a map)
        "sdmx_generator": lambda: _only(D.periods_from_sdmx_strings(s_ for s_ in (p.to_sdmx_string(), (p + 1).to_sdmx_string())), 2, 0),
        "sdmx_iterator_single": lambda: _only(D.periods_from_sdmx_strings(iter([p.to_sdmx_string()])), 1, 0),
        "sdmx_map": lambda: _only(D.periods_from_sdmx_strings(map(str, (p - 1, p))), 2, 1),
        "repr": lambda: eval(repr(p), dict(NS)),
        "str": lambda: D.Period.from_sdmx_string(str(p)),
    }
    if freq != C.I:
        trips.update({
            "iso_start": lambda: D.Period.from_iso_string(p.to_iso_string(), frequency=F),
            "year_segment": lambda: D.Period.from_year_segment(F, *p.to_year_segment()),
            "pydate": lambda: D.Period.from_python_date(p.to_python_date(), frequency=F),
            "ymd_start": lambda: D.Period.from_ymd(F, *p.to_ymd()),
        })
        if freq != C.D:
            for pos in POS:
                trips["ymd_" + pos] = (lambda pos=pos: D.Period.from_ymd(F, *p.to_ymd(position=pos)))
                trips["iso_" + pos] = (lambda pos=pos: D.Period.from_iso_string(p.to_iso_string(position=pos), frequency=F))
                trips["pydate_" + pos] = (lambda pos=pos: D.Period.from_python_date(p.to_python_date(position=pos), frequency=F))
    for name, fn in trips.items():
        res.ev()
        try:
            q = fn()
            if not (type(q) is CLS[freq] and q == p and hash(q) == hash(p)):
                bad("roundtrip", "%s -> %r" % (name, q), rep=name)
        except Exception as e:
            bad("roundtrip", "%s: %s: %s" % (name, type(e).__name__, e), rep=name, error=type(e).__name__)
    # the SDMX text itself is the standard form and its frequency is auto-detected
    try:
        s = p.to_sdmx_string()
        if s != C.sdmx(freq, o):
            bad("sdmx_text", "%r vs %r" % (s, C.sdmx(freq, o)))
        if D.Frequency.from_sdmx_string(s) is not F:
            bad("sdmx_autodetect", "%r -> %r" % (s, D.Frequency.from_sdmx_string(s)))
    except Exception as e:
        bad("sdmx_autodetect", "%s: %s" % (type(e).__name__, e), error=type(e).__name__)
    if freq == C.I:
        return None
    # ---- positions inside the period, in order -----------------------------------------
    fd, ld = C.first_day(freq, o), C.last_day(freq, o)
    days = {}
    try:
        for pos in POS:
            d = dt.date(*(p.to_ymd(position=pos) if freq != C.D else p.to_ymd()))
            days[pos] = d
            if not (fd <= d <= ld):
                bad("position_outside", "%s -> %s not in [%s, %s]" % (pos, d, fd, ld), position=pos)
            if p.to_python_date(position=pos) != d or p.to_iso_string(position=pos) != d.isoformat().zfill(10):
                bad("position_forms", pos, position=pos)
        if not (days["start"] <= days["middle"] <= days["end"]) or days["start"] != fd or days["end"] != ld:
            bad("position_order", repr(days))
    except Exception as e:
        bad("position_exception", "%s: %s" % (type(e).__name__, e), error=type(e).__name__)
        return None
    # ---- refrequent: containment, monotonicity, coarse -> fine -> coarse ------------
    conv = {}
    for g in C.CALENDAR:
        G = FREQ[g]
        for pos in POS:
            res.ev()
            try:
                q = p.refrequent(G, position=pos) if freq != C.D else p.refrequent(G)
                q2 = D.refrequent(p, G, position=pos) if freq != C.D else q
                if type(q) is not CLS[g] or q2 != q:
                    bad("refrequent_type", "%r" % (q,), target=C.NAMES[g], position=pos)
                    continue
                oq = ordof(g, q)
                exp = C.containing(g, days[pos])
                if oq != exp:
                    bad("refrequent_containment", "%s %s -> %r, day %s is in ordinal %d" % (pos, C.NAMES[g], q, days[pos], exp),
                        target=C.NAMES[g], position=pos)
                conv[(g, pos)] = oq
                if prev_conv is not None and (g, pos) in prev_conv and prev_conv[(g, pos)] > oq:
                    bad("refrequent_monotone", "", target=C.NAMES[g], position=pos)
                # coarse -> fine -> coarse
                if g == C.D or (freq != C.D and g >= freq):
                    for pos2 in POS:
                        back = q.refrequent(F, position=pos2) if g != C.D else q.refrequent(F)
                        if back != p:
                            bad("coarse_fine_coarse", "%r -> %r -> %r" % (p, q, back), target=C.NAMES[g], position=pos)
            except Exception as e:
                bad("refrequent_exception", "%s: %s" % (type(e).__name__, e), target=C.NAMES[g], position=pos, error=type(e).__name__)
    return conv


def shard(item, res, ctx):
    freq, y0, y1 = item
    if freq == C.I:
        lo, hi = y0, y1
    elif freq == C.D:
        lo, hi = dt.date(y0, 1, 1).toordinal(), dt.date(y1, 12, 31).toordinal()
    else:
        lo, hi = y0 * freq, y1 * freq + freq - 1
    prev = None
    for o in range(lo, hi + 1):
        res.nt(o * 7 + (freq % 7))
        try:
            prev = check_period(freq, o, res, prev)
        except Exception as e:
            res.violation("exception", {"freq": C.NAMES[freq], "error": type(e).__name__}, {"freq": C.NAMES[freq], "ordinal": o}, str(e))
            prev = None
    res.sample({"freq": C.NAMES[freq], "from": lo, "to": hi})


def shard_equal_serials(item, res, ctx):
    """periods of the four regular frequencies that share the same internal number, queried back to back in one
    process: state keyed by that number alone (a cache, a table) would leak from one frequency to another"""
    lo, hi = item
    for o in range(lo, hi + 1):
        for f in C.REGULAR:
            res.nt(o * 7 + (f % 7))
            try:
                check_period(f, o, res, None)
            except Exception as e:
                res.violation("exception", {"freq": C.NAMES[f], "error": type(e).__name__}, {"freq": C.NAMES[f], "ordinal": o, "interleaved": True}, str(e))
    res.sample({"interleaved_frequencies": "YHQM", "ordinals": [lo, hi]})


def run(ctx, total, info):
    if ctx.quick:
        yr, dyr, blocks = (1800, 2200), (1896, 2104), 40
    else:
        yr, dyr, blocks = (1, 9998), (1583, 2420), 400
    shards = []
    for f in C.REGULAR:
        n = max(1, blocks * f // 12)
        step = max(1, (yr[1] - yr[0] + 1) // n)
        y = yr[0]
        while y <= yr[1]:
            shards.append((f, y, min(yr[1], y + step - 1)))
            y += step
    for y in range(dyr[0], dyr[1] + 1, 2):
        shards.append((C.D, y, min(dyr[1], y + 1)))
    shards.append((C.I, -1000, 0))
    shards.append((C.I, 1, 1000))
    shards.sort(key=lambda s: -(s[2] - s[1] + 1) * (365 if s[0] == C.D else max(s[0], 1)))
    engine.run_shards(__name__, "shard", shards, ctx, total)
    # ordinals 3600..9998 are valid years for yearly periods and valid periods of the other regular frequencies
    step = 400 if ctx.quick else 100
    engine.run_shards(__name__, "shard_equal_serials", [(a, min(a + step - 1, 9998)) for a in range(3600, 9999, step)], ctx, total)
    info["year_range"] = {"regular": list(yr), "daily": list(dyr), "integer": [-1000, 1000]}
    info["exhaustive"] = True
    info["floors"] = {"periods": (len(total.nontrivial), 50000), "evaluations": (total.evaluations, 1000000)}


def replay(case):
    res = engine.Result()
    f = {v: k for k, v in C.NAMES.items()}[case["freq"]]
    o = case["ordinal"]
    prev = None
    if f != C.I:
        try:
            prev = check_period(f, o - 1, engine.Result(), None)
        except Exception:
            prev = None
    if f in C.REGULAR and 3600 <= o <= 9998:
        # the other regular frequencies with the same internal number first (see shard_equal_serials)
        for g in C.REGULAR:
            if g != f:
                try:
                    check_period(g, o, engine.Result(), None)
                except Exception:
                    pass
    check_period(f, o, res, prev)
    return ["%s %s %s" % (v["check"], engine.sigkey(v["signature"]), v["detail"]) for v in res.violations]
