"""C14 — trend filters return the optimum of their problem; trend plus gap is the data.

hpf (constrained Hodrick-Prescott) — bounded exhaustive over *structures*
    (data length n) x (every mask of missing interior observations) x (every level / change
    constraint configuration with at most two constrained dates, dates ranging from P periods
    before the data to P periods after it) x lambda x log x output-span kind,
each structure filtered for a whole *data basis* at once (the variants of one Series: the zero
vector, every unit vector on an observed date, every pair sum, one generic vector), because the
filter is affine in the data for a fixed structure: agreement with an affine oracle on an affine
basis plus superposition of all pairs is agreement everywhere (deviation bound 2).
Oracle: null-space / least-squares solution of the documented problem (ref/c14_trend.py).

lonf (l1 trend filter) — every data vector of the grid {0,1,3}^n, n = 4..7 (thorough: ..9),
    order in {1,2}, lambda table; oracle = KKT certificate of  min 1/2||y-t||^2 + lam||D t||_1
    with the dual recovered from gap = D' nu by least squares, plus the duality gap.
"""
import itertools

import numpy as np

import irispie as ir

from mc import engine
from ref import c14_trend as R

PROPERTY = "C14"
LEVEL = "exploration"
RULE = ("hpf: every (length n, mask of missing interior observations, level/change constraint configuration with "
        "<= 2 constrained dates inside or up to P periods outside the data, lambda, log, output-span kind); one "
        "case = one hpf call on a multi-variant Series whose variants are the affine data basis (zero, units, pair "
        "sums, generic vector) of the observed dates; distinct non-trivial = distinct (structure, lambda, log, span, "
        "family) actually filtered and compared with the least-squares oracle.  lonf: every vector of the value "
        "grid^n x order x lambda, one call each; distinct = (order, n, lambda, vector); outcome classes = active-set "
        "patterns of the dual.")
MANIFEST_ENTRY = dict(
    level="exploration", design="DESIGN.md section 4 / C14",
    technique="exhaustive enumeration of filter structures x affine data basis vs null-space least-squares oracle (hpf); "
              "exhaustive value grid vs KKT certificate and duality gap (lonf)",
    text="hpf: every structure (length n=3..6 quick / 3..8 thorough; all interior missing masks; none, one or two level/change "
         "constraints (L, C, L+C, L+L, C+C) at every date from P before to P after the data, P=1 quick / 2 thorough; three "
         "constraints L+L+C / L+C+C for n<=4 / n<=5; none/L/C only for n=7 / n=9) x lambda in {0.1,1,1600} x log x 7 "
         "output-span kinds (thorough: full product; quick: pairwise-covering plan) is filtered for the full affine data basis "
         "and compared with an independent least-squares solution of min sum_obs (y-t)^2 + lambda sum (D2 t)^2 s.t. the "
         "constraints (1e-8 relative), with trend+gap=data (trend*gap for log), constraints met to 1e-9, superposition of all "
         "basis pairs, straight lines (exponentials for log) returned unchanged also under line-consistent constraints, "
         "span-only-clips (clipping, gap support, pairwise span comparison), in-place and functional forms, two variants with "
         "different masks (all ordered mask pairs), six frequencies.  lonf: all vectors of "
         "{0,1,3}^n, n=4..7 (thorough ..9 and a second grid, 5 lambdas), order 1 and 2, lambda in {0.3,1,5}: trend+gap=data, gap "
         "in range(D'), dual feasibility, complementary slackness, duality gap; active-set patterns are counted.",
    note="Trusted: numpy SVD/lstsq, the 150-line reference ref/c14_trend.py (self-checked on every case by the "
         "reduced-gradient optimality certificate).  Not covered: more than two constrained dates, n>8, lonf data off "
         "the grids, lonf with missing values or sub-spans (undocumented), redundant constraints (recorded only).")
ASSUMPTIONS = [
    "HP objective = sum_obs (y-t)^2 + lambda * sum (second difference of t)^2 (the standard one, which the default table "
    "100/400/1600 refers to); the formula in the hpf docstring attaches lambda to the fit term instead - taken as a "
    "documentation slip, not asserted",
    "the filter runs on the documented encompassing span of data, span, level and change series; a change constraint on "
    "the first period of that span has no predecessor and is dropped",
    "for log=True the gap is the ratio data/trend (log data = log trend + log gap)",
    "lonf problem = min 1/2||y-t||^2 + smooth*||D t||_1 with D the difference matrix of the given order (docstring is empty; "
    "standard l1 trend filter scaling)",
    "redundant (rank-deficient) consistent constraint sets are recorded, not gated: the documentation does not say they are supported",
]

FREQ_BASE = {"Q": lambda: ir.qq(2020, 1), "Y": lambda: ir.yy(2020), "H": lambda: ir.hh(2020, 1), "M": lambda: ir.mm(2020, 1),
             "D": lambda: ir.dd(2020, 2, 27), "I": lambda: ir.ii(5)}
DOC_DEFAULT_SMOOTH = {"Y": 100.0, "H": 400.0, "Q": 1600.0, "M": 144000.0, "D": 1600.0, "I": 1600.0}   # table in the hpf docstring

SPAN_KINDS = {            # offsets added to (first data period, last data period); None = argument not passed
    "default": None, "equal": (0, 0), "inside": (1, -1), "left": (-2, 0), "right": (0, 2), "both": (-1, 2), "shifted": (1, 1),
}
SPAN_ORDER = ("default", "equal", "inside", "left", "right", "both", "shifted")
LAMBDAS = (0.1, 1.0, 1600.0)

GEN = (0.7, -1.3, 2.1, 0.4, -0.6, 1.9, -2.2, 0.3, 1.1, -0.9, 1.6, -0.2, 2.6)
UNITS = (1.0, 2.5, -1.5)
LVALS = (0.8, -1.7, 2.4, 0.3)
CVALS = (0.5, -0.9, 1.3, -0.2)
LINES = ((1.0, 0.5), (-2.0, 0.25), (0.5, -0.75))

RTOL, ATOL = 1e-8, 1e-10
CTOL = 1e-9                      # constraints
COND_MAX = 1e8                   # oracle-side exclusion (condition number of the reduced Hessian)


# ---------------------------------------------------------------------------
# structures
# ---------------------------------------------------------------------------

def configs(n, P, groups=("small", "LC", "two")):
    """(kind, level positions, change positions); positions relative to the first data period"""
    pos = list(range(-P, n + P))
    if "small" in groups:
        yield ("none", (), ())
        for p in pos:
            yield ("L1", (p,), ())
        for q in pos:
            yield ("C1", (), (q,))
    if "LC" in groups:
        for p in pos:
            for q in pos:
                yield ("LC", (p,), (q,))
    if "two" in groups:
        for a, b in itertools.combinations(pos, 2):
            yield ("L2", (a, b), ())
        for a, b in itertools.combinations(pos, 2):
            yield ("C2", (), (a, b))
    if "three" in groups:
        for a, b in itertools.combinations(pos, 2):
            for q in pos:
                yield ("L2C", (a, b), (q,))
        for p in pos:
            for a, b in itertools.combinations(pos, 2):
                yield ("LC2", (p,), (a, b))


def masks(n):
    inter = list(range(1, n - 1))
    for k in range(len(inter) + 1):
        for m in itertools.combinations(inter, k):
            yield m


def basis(n, miss, seed):
    """log-domain data basis over the observed dates: columns zero, units, pair sums, generic; NaN on missing dates.
    Returns (Y, labels, pairs) with pairs = [(col_pair, col_i, col_j)]"""
    obs = [i for i in range(n) if i not in miss]
    u = UNITS[seed % len(UNITS)]
    cols, labels = [np.zeros(n)], ["zero"]
    ucol = {}
    for i in obs:
        v = np.zeros(n)
        v[i] = u
        ucol[i] = len(cols)
        cols.append(v)
        labels.append("unit%d" % i)
    pairs = []
    for i, j in itertools.combinations(obs, 2):
        v = np.zeros(n)
        v[i] = u
        v[j] = u
        pairs.append((len(cols), ucol[i], ucol[j]))
        cols.append(v)
        labels.append("pair%d_%d" % (i, j))
    g = np.array([GEN[(seed + 3 * i) % len(GEN)] for i in range(n)])
    cols.append(g)
    labels.append("generic")
    Y = np.array(cols).T.copy()
    Y[list(miss), :] = np.nan
    return Y, labels, pairs


def generic_vector(n, seed, k=0):
    return np.array([GEN[(seed + 5 * k + 3 * i + k * i) % len(GEN)] for i in range(n)])


def constraint_values(case):
    seed = case["seed"]
    lpos, cpos = case["lpos"], case["cpos"]
    if case["fam"] == "line":
        a, b = LINES[seed % len(LINES)]
        return [a + b * p for p in lpos], [b for _ in cpos]
    return ([LVALS[(seed + i) % len(LVALS)] for i, _ in enumerate(lpos)],
            [CVALS[(seed + i) % len(CVALS)] for i, _ in enumerate(cpos)])


def span_positions(n, spank):
    off = SPAN_KINDS[spank]
    if off is None:
        return 0, n - 1
    return off[0], n - 1 + off[1]


def _series(base, p0, values):
    return ir.Series(start=base + p0, values=np.asarray(values, dtype=float))


def _grid(s, base, glo, ghi, V):
    """values of a real Series on positions glo..ghi (relative to base), NaN where it has none; also returns whether
    the series has anything outside the grid"""
    out = np.full((ghi - glo + 1, V), np.nan)
    if s.start is None or s.data.shape[0] == 0:
        return out, False
    off = int(s.start - base) - glo
    d = np.asarray(s.data, dtype=float)
    outside = False
    for r in range(d.shape[0]):
        k = off + r
        if 0 <= k < out.shape[0]:
            nv = min(V, d.shape[1])
            out[k, :nv] = d[r, :nv]
        elif not np.all(np.isnan(d[r, :])):
            outside = True
    return out, outside


# ---------------------------------------------------------------------------
# one hpf case
# ---------------------------------------------------------------------------

def hp_data(case):
    n, miss, seed, fam = case["n"], tuple(case["miss"]), case["seed"], case["fam"]
    if fam == "line":
        a, b = LINES[seed % len(LINES)]
        Y = (a + b * np.arange(n, dtype=float)).reshape(-1, 1)
        Y[list(miss), :] = np.nan
        return Y, ["line"], []
    if fam == "masks2":
        Y = np.column_stack([generic_vector(n, seed, 0), generic_vector(n, seed, 1)])
        Y[list(miss), 0] = np.nan
        Y[list(case["miss2"]), 1] = np.nan
        return Y, ["generic0", "generic1"], []
    if fam == "single":
        Y = generic_vector(n, seed, 2).reshape(-1, 1)
        Y[list(miss), :] = np.nan
        return Y, ["generic"], []
    return basis(n, miss, seed)


def eval_hp(case, res, cache=None):
    """Run ONE hpf call (all variants) and every oracle on it.  Returns dict(glo, TRd, slo, shi) or None."""
    n, lpos, cpos = case["n"], tuple(case["lpos"]), tuple(case["cpos"])
    lam, log, spank, fam, freq = case["lam"], case["log"], case["span"], case["fam"], case.get("freq", "Q")
    sig = {"part": "hp", "family": fam, "kind": case["kind"], "log": bool(log), "span": spank,
           "missing": bool(case["miss"]) or bool(case.get("miss2")), "smooth": "default" if lam is None else "given", "freq": freq}

    def bad(check, detail="", **extra):
        s = dict(sig)
        s.update(extra)
        res.violation(check, s, case, detail)

    key = ("data", n, tuple(case["miss"]), tuple(case.get("miss2", ())), fam, case["seed"])
    if cache is not None and key in cache:
        Y, labels, pairs = cache[key]
    else:
        Y, labels, pairs = hp_data(case)
        if cache is not None:
            cache[key] = (Y, labels, pairs)
    V = Y.shape[1]
    lvals, cvals = constraint_values(case)
    slo, shi = span_positions(n, spank)
    lo = min([0, slo] + list(lpos) + list(cpos))
    hi = max([n - 1, shi] + list(lpos) + list(cpos))
    T = hi - lo + 1
    # documented filter span = encompassing span; a change on its first period has no predecessor -> dropped
    c_act = [(q, v) for q, v in zip(cpos, cvals) if q > lo]
    dropped = len(cpos) - len(c_act)
    cvec = list(lvals) + [v for _, v in c_act]
    lam_eff = DOC_DEFAULT_SMOOTH[freq] if lam is None else lam

    # ---- oracle (independent of the implementation) -----------------------------------------
    Yfull = np.full((T, V), np.nan)
    Yfull[-lo:-lo + n, :] = Y
    obs_all = ~np.isnan(Yfull)
    tau = np.empty((T, V))
    cond = 0.0
    groups = {}
    for v in range(V):
        groups.setdefault(obs_all[:, v].tobytes(), []).append(v)
    for cols in groups.values():
        obs = obs_all[:, cols[0]]
        okey = ("or", T, obs.tobytes(), tuple(p - lo for p in lpos), tuple(q - lo for q, _ in c_act), lam_eff)
        orc = cache.get(okey) if cache is not None else None
        if orc is None:
            orc = R.HPOracle(T, obs, [p - lo for p in lpos], [q - lo for q, _ in c_act], lam_eff)
            if cache is not None:
                cache[okey] = orc
        if orc.rank < orc.A.shape[0]:
            res.exclude("redundant_constraints")      # e.g. levels at t-1 and t plus the change at t: recorded elsewhere
            return None
        if not orc.unique or orc.cond ** 2 > COND_MAX:
            res.exclude("ill_conditioned" if orc.unique else "not_unique")
            return None
        cond = max(cond, orc.cond ** 2)
        tv = orc.solve(Yfull[:, cols], cvec)
        # self-check of the oracle by the optimality certificate (harness error if it fails)
        feas, red = orc.certificate(Yfull[:, cols], cvec, tv)
        sc = max(1.0, float(np.nanmax(np.abs(Y))), max([abs(x) for x in cvec] + [0.0]))
        if feas > 1e-10 * sc or red > 1e-9 * sc * (1.0 + 16.0 * lam_eff):
            raise RuntimeError("C14 oracle self-check failed: feas=%g red=%g case=%r" % (feas, red, case))
        tau[:, cols] = tv
    scale = max(1.0, float(np.nanmax(np.abs(Y))), max([abs(x) for x in list(lvals) + list(cvals)] + [0.0]))
    tol = ATOL + RTOL * scale

    # ---- the call ----------------------------------------------------------------------------
    base = FREQ_BASE[freq]()
    X = np.exp(Y) if log else Y
    x = _series(base, 0, X)
    kw = {"log": bool(log)}
    if lam is not None:
        kw["smooth"] = lam
    if spank != "default":
        kw["span"] = (base + slo) >> (base + shi)

    def cseries(pos, vals):
        if not pos:
            return None
        arr = np.full(max(pos) - min(pos) + 1, np.nan)
        for p, v in zip(pos, vals):
            arr[p - min(pos)] = np.exp(v) if log else v
        return _series(base, min(pos), arr)
    lev, chg = cseries(lpos, lvals), cseries(cpos, cvals)
    if lev is not None:
        kw["level"] = lev
    if chg is not None:
        kw["change"] = chg
    res.ev()
    res.count("series_variants_filtered", V)
    try:
        t, g = ir.hpf(x, **kw)
    except Exception as e:
        bad("hp_exception", "%s: %s" % (type(e).__name__, e), error=type(e).__name__)
        return None
    glo, ghi = min(lo, slo) - 1, max(hi, shi) + 1
    if t.num_variants != V or g.num_variants != V:
        bad("hp_variants", "input %d variants, trend %d, gap %d" % (V, t.num_variants, g.num_variants))
        return None
    TR, out_t = _grid(t, base, glo, ghi, V)
    GP, out_g = _grid(g, base, glo, ghi, V)
    G = ghi - glo + 1
    inspan = np.zeros(G, dtype=bool)
    inspan[slo - glo: shi - glo + 1] = True
    Ygrid = np.full((G, V), np.nan)
    Ygrid[-glo:-glo + n, :] = Y
    Xgrid = np.exp(Ygrid) if log else Ygrid
    taugrid = np.full((G, V), np.nan)
    taugrid[lo - glo: hi - glo + 1, :] = tau
    ok = True

    # (1) the span only clips: trend on every requested period and on nothing else; gap only where data exist
    has_t = ~np.isnan(TR)
    if out_t or out_g or not np.array_equal(has_t, np.repeat(inspan[:, None], V, axis=1)):
        bad("hp_span_clip", "trend defined on %s, requested positions %d..%d" % (
            [int(i) + glo for i in np.flatnonzero(has_t[:, 0])], slo, shi))
        ok = False
    want_g = inspan[:, None] & ~np.isnan(Ygrid)
    if not np.array_equal(~np.isnan(GP), want_g):
        bad("hp_gap_support", "gap must be defined exactly where data exist inside the span")
        ok = False
    if not ok:
        return None
    # (2) trend + gap = data (trend * gap for log)
    w = want_g
    if w.any():
        if log:
            err = np.abs(TR[w] * GP[w] - Xgrid[w]) / np.abs(Xgrid[w])
            lim = 1e-11
        else:
            err = np.abs(TR[w] + GP[w] - Xgrid[w])
            lim = 1e-11 * scale
        if float(err.max()) > lim:
            bad("hp_trend_plus_gap", "max error %.3g" % float(err.max()))
    # log-domain trend
    if log:
        if not np.all(TR[has_t] > 0):
            bad("hp_log_positive", "non-positive trend with log=True")
            return None
        TRd = np.where(has_t, np.log(np.where(has_t, TR, 1.0)), np.nan)
    else:
        TRd = TR
    # (3) the trend is the optimum
    d = np.abs(TRd[has_t] - taugrid[has_t])
    err = float(d.max()) if d.size else 0.0
    if d.size and float(d.max()) > tol:
        k = int(np.argmax(np.abs(np.where(has_t, TRd - taugrid, 0.0)).max(axis=0)))
        bad("hp_trend_optimum", "max |trend - optimum| = %.3g (tol %.1g) variant %s; got %s expected %s" % (
            float(d.max()), tol, labels[k], np.round(TRd[inspan, k], 10).tolist(), np.round(taugrid[inspan, k], 10).tolist()),
            dropped_first_change=bool(dropped))
    # (4) constraints met exactly
    for p, v in zip(lpos, lvals):
        if slo <= p <= shi:
            e = float(np.max(np.abs(TRd[p - glo, :] - v)))
            if e > CTOL * scale:
                bad("hp_level_constraint", "level at position %d: error %.3g" % (p, e))
    for q, v in c_act:
        if slo <= q - 1 and q <= shi:
            e = float(np.max(np.abs(TRd[q - glo, :] - TRd[q - 1 - glo, :] - v)))
            if e > CTOL * scale:
                bad("hp_change_constraint", "change at position %d: error %.3g" % (q, e))
    # (5) affine in the data: every pair superposes
    if pairs:
        worst = 0.0
        for cp, ci, cj in pairs:
            s = TRd[inspan, cp] - TRd[inspan, ci] - TRd[inspan, cj] + TRd[inspan, 0]
            worst = max(worst, float(np.max(np.abs(s))))
        if worst > 4 * tol:
            bad("hp_superposition", "max superposition defect %.3g" % worst)
    # (6) a straight line (an exponential for log) comes back unchanged, also where it is extrapolated
    if fam == "line":
        a, b = LINES[case["seed"] % len(LINES)]
        line = a + b * np.arange(glo, ghi + 1, dtype=float)
        e = float(np.max(np.abs(TRd[inspan, 0] - line[inspan])))
        if e > tol:
            bad("hp_line_unchanged", "max deviation from the line %.3g" % e)
        gg = GP[want_g[:, 0], 0]
        if gg.size and float(np.max(np.abs(gg - (1.0 if log else 0.0)))) > tol:
            bad("hp_line_gap", "gap of a straight line not %s" % ("1" if log else "0"))
    # (7) in-place and functional forms agree with hpf and leave the input alone
    if case.get("forms"):
        try:
            x1 = x.copy()
            r1 = x1.hpf_trend(**kw)
            x2 = x.copy()
            r2 = x2.hpf_gap(**kw)
            f1 = ir.hpf_trend(x, **kw)
            f2 = ir.hpf_gap(x, **kw)

            def same(a, b_):
                ga, _ = _grid(a, base, glo, ghi, V)
                gb, _ = _grid(b_, base, glo, ghi, V)
                return a.num_variants == b_.num_variants and np.array_equal(ga, gb, equal_nan=True)
            if not ((r1 is None or r1 is x1) and (r2 is None or r2 is x2)):
                bad("hp_forms", "in-place hpf_trend/hpf_gap returned something other than None or self")
            if not (same(x1, t) and same(f1, t)):
                bad("hp_forms", "hpf_trend (in-place or functional) differs from hpf trend")
            if not (same(x2, g) and same(f2, g)):
                bad("hp_forms", "hpf_gap (in-place or functional) differs from hpf gap")
            if f1 is x or f2 is x or not same(x, _series(base, 0, X)):
                bad("hp_forms", "functional form changed its input")
        except Exception as e:
            bad("hp_forms", "%s: %s" % (type(e).__name__, e), error=type(e).__name__)
    res.nt((n, tuple(case["miss"]), tuple(case.get("miss2", ())), lpos, cpos, lam, bool(log), spank, fam, freq))
    res.cls("hp_structure", (n, tuple(case["miss"]), lpos, cpos))
    res.cls("hp_filter_span", (n, lo, hi, slo, shi))
    if dropped:
        res.count("hp_first_period_change_dropped")
    res.count("hp_kind_" + case["kind"])
    return {"glo": glo, "TRd": TRd, "slo": slo, "shi": shi, "lo": lo, "tol": tol, "cond": cond, "err": err}


def compare_spans(case_a, out_a, case_b, out_b, res):
    """span only clips: two output spans of the same structure agree on their common periods, unless the wider span
    turns a dropped first-period change constraint into an active one (documented filter span)."""
    if out_a is None or out_b is None:
        return
    cpos = tuple(case_a["cpos"])
    s0 = min([0] + list(case_a["lpos"]) + list(cpos))
    if s0 in cpos and (out_a["lo"] != out_b["lo"]):
        res.count("observed_span_activates_first_change")
        return
    lo = max(out_a["slo"], out_b["slo"])
    hi = min(out_a["shi"], out_b["shi"])
    if lo > hi:
        return
    A = out_a["TRd"][lo - out_a["glo"]: hi - out_a["glo"] + 1, :]
    B = out_b["TRd"][lo - out_b["glo"]: hi - out_b["glo"] + 1, :]
    e = float(np.max(np.abs(A - B)))
    if not e <= 2 * max(out_a["tol"], out_b["tol"]):
        sig = {"part": "hp", "family": case_b["fam"], "kind": case_b["kind"], "log": bool(case_b["log"]),
               "span": case_b["span"], "missing": bool(case_b["miss"]), "smooth": "given", "freq": case_b.get("freq", "Q")}
        res.violation("hp_span_only_clips", sig, dict(case_b, compare_with=case_a["span"]),
                      "span %s vs %s differ by %.3g on common periods" % (case_b["span"], case_a["span"], e))
    else:
        res.count("span_pairs_compared")


def mk_case(n, miss, kind, lpos, cpos, lam, log, spank, fam, seed, **extra):
    c = {"part": "hp", "n": n, "miss": list(miss), "kind": kind, "lpos": list(lpos), "cpos": list(cpos), "lam": lam,
         "log": bool(log), "span": spank, "fam": fam, "seed": seed}
    c.update(extra)
    return c


def call_plan(plan):
    """[(lambda, log, [span kinds, 'default' first])], [(lambda, log, span) for the line family].
    'full' = complete product; 'pairwise' (quick tier) = every (lambda, log) pair, every span kind with every log and with
    two of the three lambdas, fixed independently of the seed."""
    if plan == "full":
        main = [(lam, log, list(SPAN_ORDER)) for lam in LAMBDAS for log in (False, True)]
        line = [(lam, log, sp) for lam in LAMBDAS for log in (False, True) for sp in ("default", "both")]
        return main, line
    trios = (["default", "equal", "left"], ["default", "inside", "right"], ["default", "both", "shifted"])
    main = []
    for li, log in enumerate((False, True)):
        for k, spans in enumerate(trios):
            main.append((LAMBDAS[(k + li) % 3], log, spans))
    line = [(LAMBDAS[0], False, "default"), (LAMBDAS[1], True, "both"), (LAMBDAS[2], False, "both"), (LAMBDAS[2], True, "default")]
    return main, line


def shard_hp(item, res, ctx):
    """all constraint configurations of one group for one (n, mask): x lambda x log x span, basis + line families"""
    n, miss, group, P, plan = item
    seed = ctx.seed
    cache = {}
    first = True
    main, line = call_plan(plan)
    for kind, lpos, cpos in configs(n, P, (group,)):
        for k in [k for k in cache if k[0] == "or"]:
            del cache[k]
        for lam, log, spans in main:
            ref = None
            for spank in spans:
                case = mk_case(n, miss, kind, lpos, cpos, lam, log, spank, "basis", seed)
                out = eval_hp(case, res, cache)
                if spank == "default":
                    ref = (case, out)
                elif ref is not None:
                    compare_spans(ref[0], ref[1], case, out, res)
                if first:
                    res.sample(dict(case, variants=int(cache[("data", n, tuple(miss), (), "basis", seed)][0].shape[1])))
                    first = False
        for lam, log, spank in line:
            eval_hp(mk_case(n, miss, kind, lpos, cpos, lam, log, spank, "line", seed), res, cache)
        if group == "small":
            # in-place / functional forms on a single-variant series
            for log in (False, True):
                for spank in ("default", "both", "inside"):
                    eval_hp(mk_case(n, miss, kind, lpos, cpos, LAMBDAS[0], log, spank, "single", seed, forms=True), res, cache)


def shard_hp_masks2(item, res, ctx):
    """two variants with different missing masks (every ordered pair of masks)"""
    n, miss = item
    seed = ctx.seed
    mid = n // 2
    cfgs = [("none", (), ()), ("L1", (mid,), ()), ("C1", (), (mid,)), ("LC", (mid - 1,), (mid + 1,)), ("C2", (), (0, n))]
    for miss2 in masks(n):
        cache = {}
        for kind, lpos, cpos in cfgs:
            for log in (False, True):
                for spank in ("default", "both"):
                    eval_hp(mk_case(n, miss, kind, lpos, cpos, LAMBDAS[(seed + n) % 3], log, spank, "masks2", seed,
                                    miss2=list(miss2)), res, cache)


def shard_hp_freq(item, res, ctx):
    """every frequency, two explicit smoothing parameters"""
    freq, n = item
    seed = ctx.seed
    mid = n // 2
    cfgs = [("none", (), ()), ("L1", (mid,), ()), ("C1", (), (mid,)), ("LC", (n,), (1,)), ("C2", (), (0, mid))]
    for miss in masks(n):
        cache = {}
        for kind, lpos, cpos in cfgs:
            # the smoothing parameter is always passed explicitly: the statement is about "the given smoothing parameter";
            # the per-frequency default table is outside it (docstring and code disagree for MONTHLY - recorded in DESIGN.md)
            for lam in (1.0, 400.0):
                for log in (False, True):
                    for spank in ("default", "both"):
                        eval_hp(mk_case(n, miss, kind, lpos, cpos, lam, log, spank, "basis", seed, freq=freq), res, cache)


def shard_hp_redundant(item, res, ctx):
    """recorded only: rank-deficient but consistent constraints (level p, level p+1, change p+1 = their difference)"""
    n = item
    base = FREQ_BASE["Q"]()
    for p in range(0, n - 1):
        y = generic_vector(n, ctx.seed, 0)
        l0, l1 = LVALS[ctx.seed % 4], LVALS[(ctx.seed + 1) % 4]
        lev = _series(base, p, [l0, l1])
        chg = _series(base, p + 1, [l1 - l0])
        orc = R.HPOracle(n, np.ones(n, bool), [p, p + 1], [p + 1], 1.0)
        tau = orc.solve(y.reshape(-1, 1), [l0, l1, l1 - l0])[:, 0]
        try:
            t, _ = ir.hpf(_series(base, 0, y), smooth=1.0, level=lev, change=chg)
            got, _o = _grid(t, base, 0, n - 1, 1)
            okk = bool(np.all(np.abs(got[:, 0] - tau) <= 1e-6))
            res.count("observed_redundant_constraints_" + ("optimum" if okk else "not_optimum"))
        except Exception as e:
            res.count("observed_redundant_constraints_raise_" + type(e).__name__)


# ---------------------------------------------------------------------------
# lonf
# ---------------------------------------------------------------------------

LONF_TOL = 1e-7


def eval_lonf(case, res):
    order, lam, freq = case["order"], case["lam"], case.get("freq", "Q")
    ys = [np.asarray(v, dtype=float) for v in case["data"]]        # one vector per variant
    n, V = ys[0].size, len(ys)
    sig = {"part": "lonf", "order": order, "variants": V, "span": case.get("span", "default"), "freq": freq}

    def bad(check, detail="", **extra):
        s = dict(sig)
        s.update(extra)
        res.violation(check, s, case, detail)
    base = FREQ_BASE[freq]()
    x = _series(base, 0, np.column_stack(ys))
    args = {}
    if case.get("span") == "equal":
        args["span"] = base >> (base + n - 1)
    res.ev()
    try:
        t, g = ir.lonf(x, order, lam, **args)
    except Exception as e:
        bad("lonf_exception", "%s: %s" % (type(e).__name__, e), error=type(e).__name__)
        return
    if t.num_variants != V or g.num_variants != V:
        bad("lonf_variants", "input has %d variants, trend %d, gap %d" % (V, t.num_variants, g.num_variants))
    TR, o1 = _grid(t, base, -1, n, V)
    GP, o2 = _grid(g, base, -1, n, V)
    vv = min(V, t.num_variants, g.num_variants)
    if (o1 or o2 or np.isnan(TR[1:-1, :vv]).any() or np.isnan(GP[1:-1, :vv]).any()
            or not np.isnan(TR[[0, -1], :]).all() or not np.isnan(GP[[0, -1], :]).all()):
        bad("lonf_support", "trend and gap not defined exactly on the data span")
        return
    for v in range(min(V, t.num_variants, g.num_variants)):
        y, tr, gp = ys[v], TR[1:-1, v], GP[1:-1, v]
        scale = max(1.0, float(np.max(np.abs(y))), lam)
        if float(np.max(np.abs(tr + gp - y))) > 1e-11 * scale:
            bad("lonf_trend_plus_gap", "max error %.3g" % float(np.max(np.abs(tr + gp - y))))
            continue
        k = R.lonf_kkt(y, tr, y - tr, order, lam)
        if k["range_resid"] > LONF_TOL * scale:
            bad("lonf_gap_not_in_range", "gap is not D'nu: residual %.3g" % k["range_resid"])
        elif k["box_excess"] > LONF_TOL * scale:
            bad("lonf_dual_infeasible", "max|nu| - lambda = %.3g" % k["box_excess"])
        elif k["slack_resid"] > LONF_TOL * scale:
            bad("lonf_complementary_slackness", "nu != lambda*sign(D trend) at a kink: %.3g" % k["slack_resid"])
        elif k["dgap"] > LONF_TOL * scale * scale:
            bad("lonf_duality_gap", "duality gap %.3g" % k["dgap"])
        if case.get("line") and float(np.max(np.abs(tr - y))) > LONF_TOL * scale:
            bad("lonf_line_unchanged", "data in the null space of D not returned unchanged")
        res.nt(("lonf", order, n, lam, tuple(y.tolist()), V, case.get("span", "default"), freq))
        res.cls("lonf_active_set", (order, n, k["pattern"]))
        res.cls("lonf_kink_pattern", (order, n, tuple(int(s) for s in np.sign(np.where(np.abs(k["Dt"]) > 1e-6 * scale, k["Dt"], 0)))))
        if k["kinks"]:
            res.count("lonf_cases_with_kinks")
        if any(k["pattern"]) and not all(k["pattern"]):
            res.count("lonf_cases_mixed_active_set")


def shard_lonf(item, res, ctx):
    order, n, lam, grid, i0, i1 = item
    for idx in range(i0, i1):
        digits, r = [], idx
        for _ in range(n):
            digits.append(grid[r % len(grid)])
            r //= len(grid)
        case = {"part": "lonf", "order": order, "lam": lam, "data": [digits]}
        eval_lonf(case, res)
        if idx == i0 and i0 == 0:
            res.sample(case)


def shard_lonf_extra(item, res, ctx):
    """two-variant inputs, explicit span, other frequencies, null-space data"""
    order, n = item
    grid = (0.0, 1.0, 3.0)
    for vec in itertools.product(grid, repeat=n):
        other = [grid[(grid.index(v) + 1) % 3] for v in reversed(vec)]
        eval_lonf({"part": "lonf", "order": order, "lam": 1.0, "data": [list(vec), other]}, res)
    for lam in (0.3, 1.0, 5.0):
        for a, b in LINES:
            y = [a + (b * i if order == 2 else 0.0) for i in range(n)]
            eval_lonf({"part": "lonf", "order": order, "lam": lam, "data": [y], "line": True}, res)
        y = list(generic_vector(n, ctx.seed, 0))
        eval_lonf({"part": "lonf", "order": order, "lam": lam, "data": [y], "span": "equal"}, res)
        for freq in ("Y", "H", "M", "D", "I"):
            eval_lonf({"part": "lonf", "order": order, "lam": lam, "data": [y], "freq": freq}, res)


# ---------------------------------------------------------------------------
# driver
# ---------------------------------------------------------------------------

def run(ctx, total, info):
    if ctx.quick:
        ns, P, plan = (3, 4, 5, 6), 1, "pairwise"
        n_small_only = (7,)
        ns_three = (3, 4)
        masks2_ns = (3, 4, 5)
        lonf_ns = (4, 5, 6, 7)
        lonf_lams = (0.3, 1.0, 5.0)
        grids = [(0.0, 1.0, 3.0)]
    else:
        ns, P, plan = (3, 4, 5, 6, 7, 8), 2, "full"
        n_small_only = (9,)
        ns_three = (3, 4, 5)
        masks2_ns = (3, 4, 5, 6, 7)
        lonf_ns = (4, 5, 6, 7, 8, 9)
        lonf_lams = (0.1, 0.3, 1.0, 2.0, 5.0)
        grids = [(0.0, 1.0, 3.0), ((0.0, 2.0, 3.0), (0.0, 1.0, 4.0), (-1.0, 0.0, 2.0))[ctx.seed % 3]]
    shards = []
    for n in ns:
        for miss in masks(n):
            for group in ("LC", "two", "small"):
                shards.append((n, miss, group, P, plan))
    for n in n_small_only:
        for miss in masks(n):
            shards.append((n, miss, "small", P, plan))
    for n in ns_three:
        for miss in masks(n):
            shards.append((n, miss, "three", P, plan))
    ncfg = {}
    for s in shards:
        if (s[0], s[2]) not in ncfg:
            ncfg[(s[0], s[2])] = sum(1 for _ in configs(s[0], P, (s[2],)))
    shards.sort(key=lambda s: -ncfg[(s[0], s[2])] * (4 + (s[0] - len(s[1])) ** 2))
    deadline = (ctx.t0 + ctx.cap_s) if getattr(ctx, "cap_s", None) else None
    skipped = 0

    def go(func, items):
        nonlocal skipped
        done, n = engine.run_shards(__name__, func, items, ctx, total, deadline=deadline)
        skipped += n - done
    # small families first (they hold the variants / frequency / forms checks), then the big product, largest shards first
    go("shard_hp_masks2", [(n, m) for n in masks2_ns for m in masks(n)][::-1])
    go("shard_hp_freq", [(f, n) for f in ("Y", "H", "Q", "M", "D", "I") for n in (4, 5)])
    go("shard_hp_redundant", [5, 6])
    go("shard_hp", shards)
    hp_total = total.evaluations
    lshards = []
    for grid in grids:
        for n in lonf_ns:
            tot = len(grid) ** n
            step = 729
            for order in (1, 2):
                for lam in lonf_lams:
                    for i0 in range(0, tot, step):
                        lshards.append((order, n, lam, grid, i0, min(tot, i0 + step)))
    lshards.sort(key=lambda s: -(s[5] - s[4]))
    go("shard_lonf_extra", [(o, n) for o in (1, 2) for n in (4, 5)])
    go("shard_lonf", lshards)
    cl = {k: len(v) for k, v in total.classes.items()}
    info["exhaustive"] = skipped == 0
    if skipped:
        info["time_cap_s"] = ctx.cap_s
        info["shards_not_started_because_of_cap"] = skipped
    info["bound_completed"] = 2
    info["dimensions"] = {
        "hp_lengths": list(ns), "hp_outside_reach_P": P, "hp_lambdas": list(LAMBDAS),
        "hp_span_kinds": list(SPAN_ORDER), "hp_log": [False, True], "hp_constraint_kinds": ["none", "L1", "C1", "LC", "L2", "C2", "L2C", "LC2"],
        "hp_lengths_none_L1_C1_only": list(n_small_only), "hp_lengths_three_constraints": list(ns_three),
        "hp_call_plan": plan + (" product lambda x log x span" if plan == "full" else
                                ": every (lambda, log), every span kind with both log values and two lambdas"),
        "hp_calls_total": int(hp_total), "lonf_calls": int(total.evaluations - hp_total),
        "lonf_lengths": list(lonf_ns), "lonf_lambdas": list(lonf_lams), "lonf_grids": [list(g) for g in grids],
        "data_basis": "zero, unit on every observed date, every pair sum, generic vector (affine deviation bound 2)",
    }
    q = ctx.quick
    info["floors"] = {      # ~50 % of the values measured on the unchanged tree
        "hp_calls": (int(hp_total), 60000 if q else 1200000),
        "hp_structures": (cl.get("hp_structure", 0), 2500 if q else 20000),
        "hp_variants_filtered": (int(total.counters.get("series_variants_filtered", 0)), 500000 if q else 14000000),
        "hp_span_pairs_compared": (int(total.counters.get("span_pairs_compared", 0)), 30000 if q else 700000),
        "hp_first_change_dropped": (int(total.counters.get("hp_first_period_change_dropped", 0)), 5000 if q else 250000),
        "lonf_calls": (int(total.evaluations - hp_total), 10000 if q else 290000),
        "lonf_active_set_patterns": (cl.get("lonf_active_set", 0), 650 if q else 5000),
        "lonf_mixed_active_sets": (int(total.counters.get("lonf_cases_mixed_active_set", 0)), 5500 if q else 180000),
        "distinct_nontrivial": (len(total.nontrivial), 70000 if q else 1500000),
    }
    if skipped:          # a capped run is reported as not exhaustive; the floors describe complete runs only
        info["floors"] = {}
        info["floors_not_applied"] = "time cap"


def replay(case):
    res = engine.Result()
    if case.get("part") == "lonf":
        eval_lonf(case, res)
    elif case.get("part") == "hp":
        c = {k: v for k, v in case.items() if k != "compare_with"}
        out = eval_hp(c, res, {})
        if "compare_with" in case:
            c0 = dict(c, span=case["compare_with"])
            compare_spans(c0, eval_hp(c0, engine.Result(), {}), c, out, res)
    return ["%s %s %s" % (v["check"], engine.sigkey(v["signature"]), v["detail"]) for v in res.violations]
