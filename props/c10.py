"""C10 — a Series is a period-indexed map: reads, writes, alignment, trim, isolation.

Explicit-state exploration of the real Series object.  A state is an operation history,
replayed on a fresh Series and, in lock-step, on a reference map
``(nvar, dict[(offset, variant)] -> float)`` (absent key = missing).  Every transition
compares the complete map on a guarded window, the span/trim invariants, the read API,
input isolation of functional forms and the integrity of every operand.
"""
import math

import numpy as np
import irispie as ir
from irispie import dates as D

from mc import engine
from ref import calendar as C
from props.c09 import mk, FREQ

PROPERTY = "C10"
LEVEL = "model_checking"
RULE = ("BFS over operation histories on a real Series (alphabet of ~150 concrete operations: writes, reads, shifts, "
        "clip, overlay/underlay, hstack, arithmetic with scalars and series operands, elementwise, statistics, "
        "moving windows, fill_missing, extrapolate, copy, in method and functional form) from 7 initial states per "
        "frequency; distinct = canonical (frequency, start offset, rows) of the real object; every transition is "
        "compared with the reference map")
MANIFEST_ENTRY = dict(level="model_checking", design="DESIGN.md section 4 / C10",
    technique="explicit-state BFS over Series operation histories on the real object with a dict reference model stepped in lock-step",
    text="Level-synchronous BFS over all operation sequences of the full alphabet (~190 operations) up to depth 2 and of a 29-operation span-moving sub-alphabet up to depth 3 (quick) / full alphabet depth 3, core alphabet depth 3 and sub-alphabet up to depth 6 under a reported time cap (thorough) from 7 initial states on quarterly series and depth 1-2 on monthly, yearly, daily and integer series; on every transition the full (period, variant) map on a guarded window, span coverage, trimming after writes/arithmetic, the read API, isolation of functional forms and copy(), integrity of all operands and rejection of mixed frequencies are checked against a 200-line dict reference.",
    note="Trusted: numpy scalar arithmetic and the reference in this module. Window of 6 periods + guards, value table of 5 numbers (rotated by seed), variants 1-2. Not asserted: keyword shifts (C13), fill 'nearest' ties and 'linear' edge rule (undocumented), multi-variant filler series, clip on an empty series.")
ASSUMPTIONS = ["IEEE/numpy scalar arithmetic is the meaning of the arithmetic operators",
               "span-sensitive operations (underlay, fill_missing on the own span) are only applied from states whose stored span equals the hull of their observations"]

NAN = float("nan")
LO, HI = -14, 22            # observation window (offsets from the base period)
KEEP_LO, KEEP_HI = -10, 16  # states with observations outside are checked but not expanded

BASE = {C.Q: C.ordinal(C.Q, 2019, 3), C.M: C.ordinal(C.M, 2019, 11), C.Y: 2015, C.D: 737482, C.I: -2}   # D: 2020-02-26
OTHER = {C.Q: C.M, C.M: C.Q, C.Y: C.Q, C.D: C.M, C.I: C.Q}
VALTAB = [(1.0, 2.5, 0.5, -1.5, 3.0), (2.0, 0.25, 1.5, -0.5, 4.0), (1.5, 3.5, 0.75, -2.0, 2.0)]


_PER = {}


def per(f, i):
    p = _PER.get((f, i))
    if p is None:
        p = _PER[(f, i)] = mk(f, BASE[f] + i)
    return p


_WIN = {}


def _window(f):
    w = _WIN.get(f)
    if w is None:
        w = _WIN[f] = tuple(per(f, i) for i in range(LO, HI + 1))
    return w


def isnan(x):
    return x != x


def close(a, b):
    """equal as map values: both missing, identical (incl. infinities) or within 1e-9 relative"""
    if a == b or (a != a and b != b):
        return True
    if a != a or b != b or math.isinf(a) or math.isinf(b):
        return False
    return abs(a - b) <= 1e-9 * max(1.0, abs(a), abs(b))


# ---------------------------------------------------------------------------
# reference model
# ---------------------------------------------------------------------------

class Ref:
    __slots__ = ("nv", "d")

    def __init__(self, nv=1, d=None):
        self.nv = nv
        self.d = dict(d or {})

    def copy(self):
        return Ref(self.nv, self.d)

    def get(self, i, v):
        return self.d.get((i, v), NAN)

    def put(self, i, v, x):
        x = float(x)
        if isnan(x):
            self.d.pop((i, v), None)
        else:
            self.d[(i, v)] = x

    def hull(self):
        ks = [i for (i, _) in self.d]
        return (min(ks), max(ks)) if ks else None

    def bcast(self, i, v):
        """read variant v with single-variant broadcasting"""
        return self.get(i, v if self.nv > 1 else 0)


def f_arith(name):
    def g(a, b):
        with np.errstate(all="ignore"):
            a, b = np.float64(a), np.float64(b)
            if name == "add":
                return float(a + b)
            if name == "sub":
                return float(a - b)
            if name == "mul":
                return float(a * b)
            if name == "div":
                return float(a / b)
            if name == "pow":
                return float(a ** b)
        raise KeyError(name)
    return g


def ref_binop(a: Ref, b: Ref, fn):
    if a.nv != b.nv and min(a.nv, b.nv) != 1:
        return None
    nv = max(a.nv, b.nv)
    r = Ref(nv)
    ks = {i for (i, _) in a.d} | {i for (i, _) in b.d}
    for i in ks:
        for v in range(nv):
            r.put(i, v, fn(a.bcast(i, v), b.bcast(i, v)))
    return r


def ref_map(a: Ref, fn):
    r = Ref(a.nv)
    for (i, v), x in a.d.items():
        r.put(i, v, fn(x))
    return r


def ref_overlay(a: Ref, b: Ref):
    """documented algorithm: self's observations, then within the span of `other` (first to last available
    observation) other's values are superimposed including in-sample missing ones"""
    if a.nv != b.nv and min(a.nv, b.nv) != 1:
        return None
    nv = max(a.nv, b.nv)
    r = Ref(nv)
    for i in {i for (i, _) in a.d}:
        for v in range(nv):
            r.put(i, v, a.bcast(i, v))
    h = b.hull()
    if h:
        for i in range(h[0], h[1] + 1):
            for v in range(nv):
                r.put(i, v, b.bcast(i, v))
    return r


E1 = {
    "log": lambda x: math.log(x) if x > 0 else (-math.inf if x == 0 else NAN),
    "exp": lambda x: float(np.exp(np.float64(x))),
    "sqrt": lambda x: float(np.sqrt(np.float64(x))) if x >= 0 else NAN,
    "abs": abs,
    "sign": lambda x: float(np.sign(x)),
    "neg": lambda x: -x,
    "pos": lambda x: x,
}
STATS = {
    "sum": lambda row: NAN if any(map(isnan, row)) else float(np.sum(row)),
    "mean": lambda row: NAN if any(map(isnan, row)) else float(np.mean(row)),
    "max": lambda row: NAN if any(map(isnan, row)) else max(row),
    "min": lambda row: NAN if any(map(isnan, row)) else min(row),
    "nansum": lambda row: float(np.sum([x for x in row if not isnan(x)])),
    "nanmax": lambda row: max([x for x in row if not isnan(x)], default=NAN),
}
MOV = {"mov_sum": lambda w: float(np.sum(w)), "mov_avg": lambda w: float(np.mean(w)), "mov_prod": lambda w: float(np.prod(w))}


def pool_refs(vals):
    a, b, c, d, e = vals
    return {
        "ov": Ref(1, {(1, 0): a * 10, (2, 0): b * 10}),
        "gap": Ref(1, {(1, 0): c, (3, 0): d}),
        "far": Ref(1, {(9, 0): e}),
        "emp": Ref(1, {}),
        "two": Ref(2, {(0, 0): b, (0, 1): c, (1, 1): d}),
        "wide": Ref(1, {(i, 0): a + i for i in range(-2, 8)}),
    }


def init_refs(vals):
    a, b, c, d, e = vals
    return {
        "empty": Ref(1, {}),
        "one": Ref(1, {(1, 0): a}),
        "full": Ref(1, {(0, 0): a, (1, 0): b, (2, 0): c, (3, 0): d}),
        "hole": Ref(1, {(0, 0): a, (2, 0): b, (3, 0): e}),
        "two": Ref(2, {(0, 0): a, (0, 1): b, (1, 0): c, (1, 1): d, (2, 0): e, (2, 1): a}),
        "two_nan": Ref(2, {(0, 0): a, (0, 1): b, (1, 1): c, (2, 0): d}),
        "two_lead": Ref(2, {(0, 1): a, (1, 0): b, (1, 1): c}),
        "empty2": Ref(2, {}),
    }


def build(f, r: Ref):
    """real Series from a reference map (used for initial states and operands only)"""
    x = ir.Series(num_variants=r.nv)
    h = r.hull()
    if h is None:
        return x
    arr = np.array([[r.get(i, v) for v in range(r.nv)] for i in range(h[0], h[1] + 1)], dtype=float)
    return ir.Series(start=per(f, h[0]), values=arr)


# ---------------------------------------------------------------------------
# alphabet
# ---------------------------------------------------------------------------

def alphabet(f, vals, level):
    """level 'full' | 'core' | 'mini'.  Operations are plain tuples (JSON-able)."""
    a, b, c, d, e = vals
    if level == "mini":
        # the operations that move, grow, shrink or combine spans - for deep sequences
        return [("set", -1, a), ("set", 2, "nan"), ("set", 6, a), ("setv", 1, 1, c), ("setspan", 0, 3, "nan"), ("setspan", 2, 5, c),
                ("setser", "gap", 1, 3), ("shift_m", -1), ("shift_m", 2), ("shift_lag", 1), ("clip", 1, 3), ("clip", None, 2), ("clip", 6, 9),
                ("overlay_m", "gap"), ("overlay_m", "two"), ("underlay_m", "ov"), ("underlay_f", "far"), ("hstack_or", "gap"),
                ("sc", "mul", b, "l"), ("sc", "sub", b, "r"), ("bin", "add", "gap", "l"), ("bin", "div", "two", "r"), ("bin", "sub", "self", "l"),
                ("un", "neg"), ("el_m", "log"), ("mov_m", "mov_sum", -2), ("fill_m", "previous"), ("copy",), ("call", 1, 2)]
    ops = []
    # writes
    for i in (-1, 0, 2, 6):
        ops.append(("set", i, a))
        ops.append(("set", i, "nan"))
    ops += [("setv", 1, 0, b), ("setv", 1, 1, c), ("setv", 0, 1, "nan"), ("setv", 3, 0, "nan")]
    ops += [("setspan", 1, 3, b), ("setspan", -2, -1, "nan"), ("setspan", 0, 3, "nan"), ("setspan", 2, 5, c)]
    ops += [("setarr", (4, 0), (c, d)), ("setarr", (1, 1), (a, b)), ("setarr2", (2, -1), ((a, b), (c, "nan")))]
    ops += [("setser", "wide", 2, 4), ("setser", "two", 0, 1), ("setser", "gap", 1, 3)]
    # shifts
    for k in (-1, 1, 2, -2):
        ops.append(("shift_m", k))
    ops += [("shift_lag", -1), ("shift_lag", 1), ("shift_f", -1), ("shift_f", 2)]
    if f in (C.Q, C.M, C.Y):
        ops += [("shift_m", "yoy")]
    # clip
    ops += [("clip", 1, 3), ("clip", -5, 1), ("clip", None, 2), ("clip", 2, None), ("clip", 6, 9), ("clip", -9, -6)]
    # overlay / underlay / hstack with every operand
    for n in ("ov", "gap", "far", "emp", "two"):
        ops += [("overlay_m", n), ("underlay_m", n)]
        ops += [("hstack_or", n)]
    ops += [("overlay_f", "gap"), ("underlay_f", "gap"), ("overlay_f", "two"), ("underlay_f", "two"),
            ("hstack_m", "gap"), ("hstack_and", "emp"), ("hstack_num", a)]
    # arithmetic
    for name in ("add", "sub", "mul", "div", "pow"):
        ops.append(("sc", name, b, "l"))          # x op scalar
        ops.append(("sc", name, b, "r"))          # scalar op x
    for name in ("add", "sub", "mul", "div"):
        for n in ("ov", "gap", "far", "emp", "two"):
            ops.append(("bin", name, n, "l"))
        ops.append(("bin", name, "gap", "r"))
        ops.append(("bin", name, "two", "r"))
    ops += [("bin", "pow", "ov", "l"), ("sc", "mul", "nan", "l"), ("bin", "add", "self", "l"), ("bin", "sub", "self", "l")]
    ops += [("un", "neg"), ("un", "pos"), ("un", "abs_builtin"), ("un", "round_builtin", 1)]
    # mixed frequency must raise
    ops += [("mixed", "add"), ("mixed", "overlay"), ("mixed", "hstack"), ("mixed", "setser")]
    # copy and sub-series
    ops += [("copy",), ("call", 1, 2), ("call", -3, 0), ("call", 2, 9)]
    if level == "core":
        return ops
    # elementwise
    for name in ("log", "exp", "sqrt", "abs", "sign"):
        ops.append(("el_m", name))
        ops.append(("el_f", name))
    ops += [("el2_m", "maximum", b), ("el2_f", "maximum", b), ("el2_m", "minimum", b), ("el2_f", "minimum", b),
            ("el2_m", "round", 0), ("el2_f", "round", 1)]
    # statistics across variants
    for name in STATS:
        ops.append(("stat_m", name))
    ops += [("stat_f", "sum"), ("stat_f", "mean"), ("stat_f", "nanmax")]
    # moving windows
    for name in MOV:
        ops.append(("mov_m", name, -2))
        ops.append(("mov_f", name, -3))
    ops.append(("mov_f", "mov_sum", -1))
    # fill
    for m in ("next", "previous", "nearest", "linear"):
        ops.append(("fill_m", m))
    ops += [("fill_f", "next"), ("fill_f", "previous"), ("fill_const", e, None), ("fill_const", e, (-1, 5)),
            ("fill_const_f", e, (0, 4)), ("fill_series", "wide", None), ("fill_series", "gap", (0, 4)), ("fill_series_f", "wide", (-1, 3)),
            ("fill_next_span", (-1, 5))]
    # extrapolate
    ops += [("extra_m", (0.5,), 4, 6, 0.0), ("extra_m", (0.5, 0.25), 4, 5, 1.0), ("extra_f", (0.8,), 3, 5, 0.5),
            ("extra_m", (0.5,), 8, 9, 0.0), ("extra_log", (0.5,), 4, 5)]
    return ops


TRIM_KINDS = {"set", "setv", "setspan", "setarr", "setarr2", "setser", "sc", "bin", "un"}


def num(x):
    return NAN if x == "nan" else float(x)


class Machine:
    def __init__(self, level="full"):
        self.level = level

    # ---- explorer protocol ---------------------------------------------------------
    def initial(self, ctx):
        out = []
        for f in self.freqs(ctx):
            for name in init_refs(VALTAB[0]):
                out.append([("init", f, name)])
        return out

    def freqs(self, ctx):
        return [C.Q]

    def key0(self, hist, ctx):
        return tuple(hist[0])

    def ops(self, hist, ctx):
        f = hist[0][1]
        return alphabet(f, VALTAB[ctx.seed % len(VALTAB)], self.level)

    # ---- replay ----------------------------------------------------------------------
    def replay(self, hist, vals, upto=None):
        """returns (freq, real series, reference) after replaying hist (without checks)"""
        f = hist[0][1]
        r = init_refs(vals)[hist[0][2]]
        x = build(f, r)
        r = r.copy()
        for op in hist[1:upto]:
            op = tuple(op)
            r2 = self.ref_apply(f, r, op, vals, x)
            if r2 in ("raise", "skip") or r2 is None:
                raise RuntimeError("history contains a non-state-changing op %r" % (op,))
            x = self.impl_apply(f, x, op, vals)[0]
            r = r2
        return f, x, r

    # ---- reference semantics ---------------------------------------------------------------
    def ref_apply(self, f, r: Ref, op, vals, x=None):
        """returns new Ref | 'raise' (must raise) | 'skip' (operation not applicable / not asserted from this state)"""
        k = op[0]
        pool = pool_refs(vals)
        trimmed = self.is_trimmed(f, x, r) if x is not None else True
        if k == "set":
            o = r.copy()
            for v in range(r.nv):
                o.put(op[1], v, num(op[2]))
            return o
        if k == "setv":
            if op[2] >= r.nv:
                return "skip"
            o = r.copy()
            o.put(op[1], op[2], num(op[3]))
            return o
        if k == "setspan":
            o = r.copy()
            for i in range(op[1], op[2] + 1):
                for v in range(r.nv):
                    o.put(i, v, num(op[3]))
            return o
        if k == "setarr":
            o = r.copy()
            for i, val in zip(op[1], op[2]):
                for v in range(r.nv):
                    o.put(i, v, num(val))
            return o
        if k == "setarr2":
            if r.nv != 2:
                return "skip"
            o = r.copy()
            for i, row in zip(op[1], op[2]):
                for v in range(2):
                    o.put(i, v, num(row[v]))
            return o
        if k == "setser":
            s = pool[op[1]]
            o = r.copy()
            for i in range(op[2], op[3] + 1):
                for v in range(r.nv):
                    o.put(i, v, s.get(i, min(v, s.nv - 1)))
            return o
        if k in ("shift_m", "shift_lag", "shift_f"):
            by = op[1]
            if by == "yoy":
                by = -f
            return Ref(r.nv, {(i - by, v): val for (i, v), val in r.d.items()})
        if k == "clip":
            if x is not None and x.start is None:
                return "skip"           # clip of a series without a start: not asserted
            lo = -10 ** 9 if op[1] is None else op[1]
            hi = 10 ** 9 if op[2] is None else op[2]
            return Ref(r.nv, {(i, v): val for (i, v), val in r.d.items() if lo <= i <= hi})
        if k in ("overlay_m", "overlay_f"):
            o = ref_overlay(r, pool[op[1]])
            return o if o is not None else "skip"
        if k in ("underlay_m", "underlay_f"):
            if not trimmed:
                return "skip"
            o = ref_overlay(pool[op[1]], r)
            return o if o is not None else "skip"
        if k in ("hstack_or", "hstack_m", "hstack_and"):
            s = pool[op[1]]
            o = Ref(r.nv + s.nv, r.d)
            for (i, v), val in s.d.items():
                o.put(i, r.nv + v, val)
            return o
        if k == "hstack_num":
            h = self.impl_span(f, x) if x is not None else r.hull()
            if h is None or not trimmed:
                return "skip"
            o = Ref(r.nv + 1, r.d)
            for i in range(h[0], h[1] + 1):
                o.put(i, r.nv, num(op[1]))
            return o
        if k == "sc":
            c = num(op[2])
            fn = f_arith(op[1])
            return ref_map(r, (lambda v: fn(v, c)) if op[3] == "l" else (lambda v: fn(c, v)))
        if k == "bin":
            s = r if op[2] == "self" else pool[op[2]]
            o = ref_binop(r, s, f_arith(op[1])) if op[3] == "l" else ref_binop(s, r, f_arith(op[1]))
            return o if o is not None else "skip"
        if k == "un":
            if op[1] == "abs_builtin":
                return ref_map(r, abs)
            if op[1] == "round_builtin":
                return ref_map(r, lambda v: float(np.round(v, op[2])))
            return ref_map(r, E1[op[1]])
        if k == "mixed":
            if x is None or x.start is None:
                return "skip"
            return "raise"
        if k == "copy":
            return r.copy()
        if k == "call":
            return Ref(r.nv, {(i, v): val for (i, v), val in r.d.items() if op[1] <= i <= op[2]})
        if k in ("el_m", "el_f"):
            return ref_map(r, E1[op[1]])
        if k in ("el2_m", "el2_f"):
            c = num(op[2])
            if op[1] == "maximum":
                return ref_map(r, lambda v: max(v, c))
            if op[1] == "minimum":
                return ref_map(r, lambda v: min(v, c))
            return ref_map(r, lambda v: float(np.round(v, int(c))))
        if k in ("stat_m", "stat_f"):
            fn = STATS[op[1]]
            o = Ref(1)
            h = self.impl_span(f, x) if x is not None else r.hull()
            if op[1].startswith("nan") and not trimmed:
                return "skip"
            if h is None:
                return Ref(1) if not op[1].startswith("nan") else "skip"
            for i in range(h[0], h[1] + 1):
                o.put(i, 0, fn([r.get(i, v) for v in range(r.nv)]))
            return o
        if k in ("mov_m", "mov_f"):
            n = -op[2]
            fn = MOV[op[1]]
            o = Ref(r.nv)
            h = r.hull()
            if h is None:
                return o
            for i in range(h[0], h[1] + n):
                for v in range(r.nv):
                    w = [r.get(i - j, v) for j in range(n)]
                    if not any(map(isnan, w)):
                        o.put(i, v, fn(w))
            # a moving window is evaluated on the stored span only
            hs = self.impl_span(f, x) if x is not None else h
            if hs is not None:
                o.d = {(i, v): val for (i, v), val in o.d.items() if hs[0] <= i <= hs[1]}
            return o
        if k in ("fill_m", "fill_f", "fill_next_span"):
            method = op[1] if k != "fill_next_span" else "next"
            if k == "fill_next_span":
                lo, hi = op[1]
            else:
                if not trimmed:
                    return "skip"
                h = r.hull()
                if h is None:
                    return "skip" if x is not None and x.start is None else r.copy()
                lo, hi = h
            o = r.copy()
            for v in range(r.nv):
                obs = [i for i in range(lo, hi + 1) if not isnan(r.get(i, v))]
                if not obs:
                    continue
                for i in range(lo, hi + 1):
                    if not isnan(r.get(i, v)):
                        continue
                    prev = max([j for j in obs if j < i], default=None)
                    nxt = min([j for j in obs if j > i], default=None)
                    if method == "next":
                        src = nxt
                    elif method == "previous":
                        src = prev
                    elif method == "nearest":
                        if prev is not None and nxt is not None and i - prev == nxt - i:
                            return "skip"       # tie: not documented
                        src = prev if nxt is None else nxt if prev is None else (prev if i - prev < nxt - i else nxt)
                    elif method == "linear":
                        if prev is None or nxt is None:
                            return "skip"       # edge rule not documented
                        o.put(i, v, r.get(prev, v) + (r.get(nxt, v) - r.get(prev, v)) * (i - prev) / (nxt - prev))
                        continue
                    if src is not None:
                        o.put(i, v, r.get(src, v))
            return o
        if k in ("fill_const", "fill_const_f"):
            if op[2] is None:
                if not trimmed:
                    return "skip"
                h = r.hull()
                if h is None:
                    return "skip" if x is not None and x.start is None else r.copy()
            else:
                h = op[2]
            o = r.copy()
            for i in range(h[0], h[1] + 1):
                for v in range(r.nv):
                    if isnan(r.get(i, v)):
                        o.put(i, v, num(op[1]))
            return o
        if k in ("fill_series", "fill_series_f"):
            s = pool[op[1]]
            if op[2] is None:
                if not trimmed:
                    return "skip"
                h = r.hull()
                if h is None:
                    return "skip" if x is not None and x.start is None else r.copy()
            else:
                h = op[2]
            o = r.copy()
            for i in range(h[0], h[1] + 1):
                for v in range(r.nv):
                    if isnan(r.get(i, v)):
                        o.put(i, v, s.get(i, 0))
            return o
        if k in ("extra_m", "extra_f", "extra_log"):
            if x is not None and x.start is None:
                return r.copy()      # documented no-op path: nothing to extrapolate from
            coefs = op[1]
            a, b = op[2], op[3]
            c = op[4] if k != "extra_log" else 0.0
            o = r.copy()
            for v in range(r.nv):
                path = {}

                def val(i):
                    return path[i] if i in path else r.get(i, v)
                for i in range(a, b + 1):
                    lags = [val(i - j - 1) for j in range(len(coefs))]
                    if k == "extra_log":
                        if any((not isnan(z)) and z <= 0 for z in lags):
                            return "skip"       # logarithm of non-positive data: outside the documented domain
                        if any(isnan(z) for z in lags):
                            path[i] = NAN
                        else:
                            path[i] = math.exp(sum(cf * math.log(z) for cf, z in zip(coefs, lags)) + c)
                    else:
                        path[i] = NAN if any(map(isnan, lags)) else sum(cf * z for cf, z in zip(coefs, lags)) + c
                for i in range(a, b + 1):
                    o.put(i, v, path[i])
            return o
        raise KeyError(op)

    # ---- implementation ----------------------------------------------------------------------------
    def impl_apply(self, f, x, op, vals):
        """returns (result series, functional?, operands dict)"""
        k = op[0]
        refs = pool_refs(vals)
        pool = {n: build(f, refs[n]) for n in op[1:] if isinstance(n, str) and n in refs}
        P = lambda i: per(f, i)
        sp = lambda a, b: P(a) >> P(b)
        if k == "set":
            x[P(op[1])] = num(op[2]); return x, False, pool
        if k == "setv":
            x[P(op[1]), op[2]] = num(op[3]); return x, False, pool
        if k == "setspan":
            x[sp(op[1], op[2])] = num(op[3]); return x, False, pool
        if k == "setarr":
            x[[P(i) for i in op[1]]] = np.array([num(v) for v in op[2]], dtype=float).reshape(-1, 1); return x, False, pool
        if k == "setarr2":
            x[[P(i) for i in op[1]]] = np.array([[num(v) for v in row] for row in op[2]], dtype=float); return x, False, pool
        if k == "setser":
            x[sp(op[2], op[3])] = pool[op[1]]; return x, False, pool
        if k == "shift_m":
            x.shift(op[1]); return x, False, pool
        if k == "shift_lag":
            return x[op[1]], True, pool
        if k == "shift_f":
            return ir.shift(x, op[1]), True, pool
        if k == "clip":
            x.clip(None if op[1] is None else P(op[1]), None if op[2] is None else P(op[2])); return x, False, pool
        if k == "overlay_m":
            x.overlay(pool[op[1]]); return x, False, pool
        if k == "underlay_m":
            x.underlay(pool[op[1]]); return x, False, pool
        if k == "overlay_f":
            return ir.overlay(x, pool[op[1]]), True, pool
        if k == "underlay_f":
            return ir.underlay(x, pool[op[1]]), True, pool
        if k == "hstack_or":
            return x | pool[op[1]], True, pool
        if k == "hstack_and":
            return x & pool[op[1]], True, pool
        if k == "hstack_m":
            return x.hstack(pool[op[1]]), True, pool
        if k == "hstack_num":
            return x.hstack(num(op[1])), True, pool
        if k == "sc":
            c = num(op[2])
            import operator as O
            fn = {"add": O.add, "sub": O.sub, "mul": O.mul, "div": O.truediv, "pow": O.pow}[op[1]]
            with np.errstate(all="ignore"):
                return (fn(x, c) if op[3] == "l" else fn(c, x)), True, pool
        if k == "bin":
            import operator as O
            fn = {"add": O.add, "sub": O.sub, "mul": O.mul, "div": O.truediv, "pow": O.pow}[op[1]]
            s = x if op[2] == "self" else pool[op[2]]
            with np.errstate(all="ignore"):
                return (fn(x, s) if op[3] == "l" else fn(s, x)), True, pool
        if k == "un":
            if op[1] == "neg":
                return -x, True, pool
            if op[1] == "pos":
                return +x, True, pool
            if op[1] == "abs_builtin":
                return abs(x), True, pool
            if op[1] == "round_builtin":
                return round(x, op[2]), True, pool
        if k == "mixed":
            g = OTHER[f]
            other = ir.Series(start=mk(g, C.ordinal(g, 2020, 1) if g != C.I else 0), values=(1.0, 2.0))
            if op[1] == "add":
                return x + other, True, pool
            if op[1] == "overlay":
                x.overlay(other); return x, False, pool
            if op[1] == "hstack":
                return x | other, True, pool
            if op[1] == "setser":
                x[sp(0, 1)] = other; return x, False, pool
        if k == "copy":
            return x.copy(), True, pool
        if k == "call":
            return x(sp(op[1], op[2])), True, pool
        if k == "el_m":
            with np.errstate(all="ignore"):
                getattr(x, op[1])(); return x, False, pool
        if k == "el_f":
            with np.errstate(all="ignore"):
                return getattr(ir, op[1])(x), True, pool
        if k == "el2_m":
            getattr(x, op[1])(int(op[2]) if op[1] == "round" else num(op[2])); return x, False, pool
        if k == "el2_f":
            return getattr(ir, op[1])(x, int(op[2]) if op[1] == "round" else num(op[2])), True, pool
        if k == "stat_m":
            with np.errstate(all="ignore"):
                getattr(x, op[1])(); return x, False, pool
        if k == "stat_f":
            with np.errstate(all="ignore"):
                return getattr(ir, op[1])(x), True, pool
        if k == "mov_m":
            getattr(x, op[1])(op[2]); return x, False, pool
        if k == "mov_f":
            return getattr(ir, op[1])(x, op[2]), True, pool
        if k == "fill_m":
            x.fill_missing(op[1]); return x, False, pool
        if k == "fill_f":
            return ir.fill_missing(x, op[1]), True, pool
        if k == "fill_next_span":
            x.fill_missing("next", None, sp(*op[1])); return x, False, pool
        if k == "fill_const":
            x.fill_missing("constant", num(op[1]), span=(None if op[2] is None else sp(*op[2]))); return x, False, pool
        if k == "fill_const_f":
            return ir.fill_missing(x, "constant", num(op[1]), span=sp(*op[2])), True, pool
        if k == "fill_series":
            x.fill_missing("from_series", pool[op[1]], span=(None if op[2] is None else sp(*op[2]))); return x, False, pool
        if k == "fill_series_f":
            return ir.fill_missing(x, "from_series", pool[op[1]], span=sp(*op[2])), True, pool
        if k == "extra_m":
            x.extrapolate(op[1], sp(op[2], op[3]), intercept=op[4]); return x, False, pool
        if k == "extra_f":
            return ir.extrapolate(x, op[1], sp(op[2], op[3]), intercept=op[4]), True, pool
        if k == "extra_log":
            with np.errstate(all="ignore"):
                x.extrapolate(op[1], sp(op[2], op[3]), log=True); return x, False, pool
        raise KeyError(op)

    # ---- observations ---------------------------------------------------------------------------
    def impl_span(self, f, x):
        if x is None or x.start is None or x.data.shape[0] == 0:
            return None
        s = x.start - per(f, 0)
        return (s, s + x.data.shape[0] - 1)

    def is_trimmed(self, f, x, r):
        return self.impl_span(f, x) == r.hull() and (r.hull() is not None or x.start is None)

    def observe(self, f, x, hull=None):
        """every observed cell of x, read through the public span reader over the fixed window widened to the
        series' own stored span and to the reference's hull (a keyword shift by a whole year of a monthly or daily
        series leaves any fixed window after two steps)"""
        nv = x.num_variants
        lo, hi = LO, HI
        for h in (hull, self.impl_span(f, x)):
            if h is not None:
                lo, hi = min(lo, h[0] - 1), max(hi, h[1] + 1)
        data = x.get_data_from_until((per(f, lo), per(f, hi)))
        out = {}
        rows, cols = np.nonzero(~np.isnan(data))
        for i, v in zip(rows.tolist(), cols.tolist()):
            out[(i + lo, v)] = float(data[i, v])
        return nv, out

    def canon(self, f, x):
        st = None if x.start is None else x.start - per(f, 0)
        rows = tuple(tuple("nan" if v != v else round(float(v), 9) for v in row) for row in x.data.tolist())
        return (f, x.num_variants, st, rows)

    @staticmethod
    def same(a, b):
        if a.keys() != b.keys():
            return False
        for k, v in a.items():
            if not close(v, b[k]):
                return False
        return True

    # ---- one transition -----------------------------------------------------------------------------
    def step(self, hist, op, res, ctx):
        op = tuple(op)
        vals = VALTAB[ctx.seed % len(VALTAB)]
        f = hist[0][1]
        fname = C.NAMES[f]
        case = {"history": [list(h) for h in hist] + [list(op)], "valtab": ctx.seed % len(VALTAB), "level": self.level}
        res.ev()

        def bad(check, detail="", **extra):
            sig = {"freq": fname, "op": op[0], "arg": str(op[1]) if len(op) > 1 else ""}
            sig.update(extra)
            res.violation(check, sig, case, detail)
        try:
            f, x, r = self.replay(hist, vals)
        except Exception as e:
            bad("replay_exception", "%s: %s" % (type(e).__name__, e), error=type(e).__name__)
            return None
        exp = self.ref_apply(f, r, op, vals, x)
        if exp == "skip":
            res.count("skipped_not_asserted")
            return None
        start0 = x.start
        data0 = x.data.copy()
        obs_before = self.observe(f, x) if exp == "raise" else None

        def x_unchanged():
            return x.start == start0 and x.data.shape == data0.shape and np.array_equal(x.data, data0, equal_nan=True)
        # a second series built on the very same array (Series.from_start_and_array keeps the caller's array): whatever
        # is done to x afterwards must not show through in it
        sib = sib_before = None
        if x.start is not None and x.data.size:
            try:
                sib = ir.Series.from_start_and_array(x.start, x.data)
                sib_before = (sib.start, sib.data.copy())
            except Exception:
                sib = None
        try:
            y, functional, pool = self.impl_apply(f, x, op, vals)
        except Exception as e:
            if exp == "raise":
                res.count("mixed_frequency_rejected")
                # a rejected operation must leave the receiver intact
                if self.observe(f, x) != obs_before:
                    bad("rejected_but_modified", "values of the receiver changed by a rejected operation")
                return None
            bad("unexpected_exception", "%s: %s" % (type(e).__name__, str(e)[:200]), error=type(e).__name__)
            return None
        if exp == "raise":
            bad("mixed_frequency_accepted", "operation mixing frequencies did not raise")
            return None
        if not isinstance(y, ir.Series):
            bad("result_type", repr(type(y)))
            return None
        # (1) full-map equality
        nv, obs = self.observe(f, y, exp.hull())
        if nv != exp.nv or not self.same(obs, exp.d):
            diff = sorted(set(obs.items()) ^ set(exp.d.items()))[:6]
            bad("map", "nv impl %d ref %d; differing cells %r" % (nv, exp.nv, diff))
            return None
        # (2) span invariants
        h = exp.hull()
        sp = self.impl_span(f, y)
        if h is not None and (sp is None or sp[0] > h[0] or sp[1] < h[1]):
            bad("span_cover", "span %r does not cover observations %r" % (sp, h))
        if op[0] in TRIM_KINDS and (op[0] != "un" or op[1] in ("neg", "pos")):
            if h is None:
                if y.start is not None or y.data.shape[0] != 0:
                    bad("not_empty", "all-missing result is not the empty series: start=%r rows=%d" % (y.start, y.data.shape[0]))
            elif sp != h:
                bad("not_trimmed", "span %r, observations %r" % (sp, h))
        if sp is not None:
            if not (y.end - y.start == sp[1] - sp[0] and len(y.periods) == y.data.shape[0] and y.periods[0] == y.start
                    and y.periods[-1] == y.end and y.shape == y.data.shape and y.num_periods == y.data.shape[0]):
                bad("span_api", "start/end/periods/shape disagree")
            if y.frequency is not FREQ[f]:
                bad("frequency", repr(y.frequency))
        # (3) read API agrees with the map
        try:
            probe = [per(f, i) for i in (3, -1, 0, 12, 1)]
            g1 = y.get_data(probe)
            g2 = y[probe]
            g3 = y(per(f, -1) >> per(f, 3))
            vals_api = y.get_values(per(f, 0) >> per(f, 2), unpack_singleton=False)
            for row, i in zip(g1, (3, -1, 0, 12, 1)):
                for v in range(nv):
                    e_ = exp.get(i, v)
                    if not close(float(row[v]), e_):
                        bad("read_get_data", "i=%d v=%d got %r expected %r" % (i, v, row[v], e_))
            if not np.array_equal(g1, g2, equal_nan=True):
                bad("read_getitem", "x[dates] differs from get_data(dates)")
            nvg, og = self.observe(f, g3)
            if nvg != nv or not self.same(og, {kk: vv for kk, vv in exp.d.items() if -1 <= kk[0] <= 3}):
                bad("read_call", "x(span) is not the restriction of the map")
            for v in range(nv):
                for j, i in enumerate((0, 1, 2)):
                    a_, e_ = vals_api[v][j], exp.get(i, v)
                    if not close(a_, e_):
                        bad("read_get_values", "v=%d i=%d" % (v, i))
            if y.start is not None:
                one = y[per(f, 1), 0]
                e_ = exp.get(1, 0)
                if not close(float(one[0, 0]), e_):
                    bad("read_variant", "x[period, 0]")
        except Exception as e:
            bad("read_exception", "%s: %s" % (type(e).__name__, str(e)[:200]), error=type(e).__name__)
        # (4) isolation
        if sib is not None:
            res.count("sibling_on_shared_array_checked")
            if sib.start != sib_before[0] or sib.data.shape != sib_before[1].shape or not np.array_equal(sib.data, sib_before[1], equal_nan=True):
                bad("shared_array_modified", "a series built earlier on the same array changed when the receiver was operated on")
        for n, s in pool.items():
            fresh = build(f, pool_refs(vals)[n])
            if s.start != fresh.start or s.data.shape != fresh.data.shape or not np.array_equal(s.data, fresh.data, equal_nan=True):
                bad("operand_modified", "operand %s changed" % n, operand=n)
            if s.data.size and y.data.size and np.shares_memory(s.data, y.data):
                bad("operand_aliased", "result shares memory with operand %s" % n, operand=n)
        if functional:
            if y is x:
                bad("functional_returned_input", "functional form returned its input object")
            else:
                if not x_unchanged():
                    bad("input_modified", "functional form modified its input")
                if x.data.size and y.data.size and np.shares_memory(x.data, y.data):
                    bad("input_aliased", "result shares memory with the input")
                if y.data.size:
                    saved = y.data.copy()
                    y.data[...] = 12345.0
                    if not x_unchanged():
                        bad("input_aliased", "writing into the result changed the input")
                    y.data[...] = saved
        res.nt(self.canon(f, y))
        ks = [i for (i, _) in exp.d]
        if ks and (min(ks) < KEEP_LO or max(ks) > KEEP_HI):
            res.count("not_expanded_outside_window")
            return None
        return self.canon(f, y)


class MachineQ(Machine):
    pass


class MachineOther(Machine):
    def freqs(self, ctx):
        return [C.M, C.Y, C.D, C.I]


FULL_Q = MachineQ("full")
CORE_Q = MachineQ("core")
MINI_Q = MachineQ("mini")
FULL_OTHER = MachineOther("full")


def run(ctx, total, info):
    parts = []
    import time
    if ctx.quick:
        plan = [("FULL_Q", 2, None), ("FULL_OTHER", 1, None), ("MINI_Q", 3, None)]
    else:
        # the last exploration runs under a time cap; a level that is cut short is reported as such
        cap = (ctx.cap_s or 15 * 60)
        plan = [("FULL_Q", 3, None), ("FULL_OTHER", 2, None), ("CORE_Q", 3, None), ("MINI_Q", 6, cap)]
    states = transitions = 0
    complete = True
    for name, depth, cap in plan:
        before = total.transitions
        ex = engine.explore(__name__, name, ctx, total, max_depth=depth, deadline=(time.time() + cap) if cap else None)
        ex["time_cap_s"] = cap
        ex["transitions"] = total.transitions - before
        parts.append(dict(ex, machine=name))
        states += ex["states"]
        transitions += ex["transitions"]
        complete = complete and ex["max_depth"] == depth
    info["states"] = states
    info["transitions"] = transitions
    info["traces_validated_against_impl"] = transitions
    info["max_depth"] = max(p["max_depth"] for p in parts)
    info["explorations"] = parts
    info["alphabet_size"] = {"full_Q": len(alphabet(C.Q, VALTAB[0], "full")), "core_Q": len(alphabet(C.Q, VALTAB[0], "core")),
                             "mini_Q": len(alphabet(C.Q, VALTAB[0], "mini"))}
    info["fully_completed"] = [(p["machine"], p["max_depth"]) for p in parts]
    info["alphabet"] = [list(map(str, o)) for o in alphabet(C.Q, VALTAB[0], "full")]
    info["initial_state_names"] = sorted(init_refs(VALTAB[0]))
    info["exhaustive"] = complete
    info["floors"] = {"states": (states, 1500 if ctx.quick else 20000), "transitions": (transitions, 40000 if ctx.quick else 1000000),
                      "mixed_frequency_rejected": (total.counters.get("mixed_frequency_rejected", 0), 100),
                      "sibling_on_shared_array_checked": (total.counters.get("sibling_on_shared_array_checked", 0), 30000 if ctx.quick else 500000)}


def replay(case):
    res = engine.Result()
    ctx = engine.Ctx("quick", int(case.get("valtab", 0)))
    m = {"full": FULL_Q, "core": CORE_Q, "mini": MINI_Q}.get(case.get("level", "full"), FULL_Q)
    hist = [tuple(h) if not isinstance(h, tuple) else h for h in case["history"]]
    hist = [_detuple(h) for h in hist]
    m.step(hist[:-1], hist[-1], res, ctx)
    return ["%s %s %s" % (v["check"], engine.sigkey(v["signature"]), v["detail"]) for v in res.violations]


def _detuple(op):
    """JSON turns tuples into lists and NaN markers stay strings; restore nested tuples"""
    return tuple(_detuple(o) if isinstance(o, list) else o for o in op)
