"""C07 — simulation plans hit exogenized points exactly; swaps invert a simulation.

Enumeration: determinate generated models x ALL exactly identified plans with <= 2
(variable, date) targets and <= 2 (shock, date) instruments over dates 1..3, in
unanticipated and anticipated mode x {arbitrary targets, targets taken from an
ordinary simulation} x methods first_order (all) and stacked_time (bound-1 plans).
"""
import contextlib
import io
import itertools

import numpy as np
import irispie as ir

from mc import engine
from ref import linre

PROPERTY = "C07"
LEVEL = "exploration"
RULE = ("models x every exactly identified plan with 1 or 2 (thorough: 3 for models with <= 2 variables) (variable,date) targets and as many (shock,date) instruments over "
        "dates 1..3 (unanticipated: same date; anticipated: instrument date <= target date, any date for models with leads) "
        "x target source (arbitrary values | taken from an ordinary simulation); plans whose impact matrix "
        "(from unplanned unit simulations) has condition number > 1e6 are excluded; distinct non-trivial = (model, plan, source, method)")
MANIFEST_ENTRY = dict(level="exploration", design="DESIGN.md section 4 / C07",
    technique="bounded-exhaustive enumeration of all exactly identified plans with <= 2 targets/instruments over 3 dates on generated models; exactness, unchanged-input, re-simulation and inversion oracles",
    text="For 7 (quick) / 10 (thorough) determinate generated models (with lags, leads, cross terms; one with log-variables) every exactly identified plan with 1 or 2 targets and instruments over dates 1..3 in unanticipated and in anticipated mode is simulated (first_order; stacked_time for all single-swap plans): every exogenized cell equals its input value, only endogenized shocks at endogenized dates differ from their inputs (all other shocks - including a bystander anticipated shock kept in the input - and initial conditions untouched), the planned path is reproduced by an ordinary simulation driven by the returned shocks (so it satisfies the equations in the sense of C01), a two-variant run with different targets per variant equals the two single-variant runs, and when the targets come from an ordinary simulation driven by shocks at the instrument cells the plan recovers those shocks and the whole path (asserted for unanticipated plans and for anticipated plans with a single information set).",
    note="Trusted: the unplanned first-order simulator (C01) as the reference for re-simulation and impact matrices. Ill-conditioned plans (cond > 1e6) excluded by an oracle-side criterion and counted. stacked_time runs that report failure are counted, not gated.")
ASSUMPTIONS = ["the unplanned first-order simulator is correct (C01)"]

START = ir.qq(2020, 1)
N = 6
DATES = (1, 2, 3)


def models(tier):
    mk = linre.make_spec
    L = [
        mk(1, (1,), (0,), 0, "backward", meas="one"),
        mk(2, (1, 1), (0, 0), -1, "backward", meas="none"),
        mk(2, (1, 1), (0, 1), -1, "saddle", meas="one"),
        mk(2, (1, 0), (1, 1), 0, "saddle", meas="none"),
        mk(2, (2, 1), (0, 0), 0, "backward", meas="none"),
        mk(1, (1,), (1,), 0, "saddle", meas="none"),
    ]
    L.append(mk(2, (1, 1), (0, 1), -1, "saddle", meas="one", log=True))
    if tier != "quick":
        L += [
            mk(3, (1, 1, 1), (0, 1, 0), -1, "saddle", meas="none"),
            mk(2, (1, 1), (1, 1), 1, "saddle", meas="none"),
            mk(2, (1, 2), (2, 0), -1, "saddle", meas="none"),
        ]
    return L


def build(spec):
    with contextlib.redirect_stdout(io.StringIO()):
        m = ir.Simultaneous.from_string(spec.source(), linear=not spec.log, flat=spec.flat)
        m.assign(**spec.param_values())
        m.steady()
        m.solve()
    return m


def simulate(m, db, span, plan=None, method="first_order", **kw):
    buf = io.StringIO()
    with contextlib.redirect_stdout(buf):
        return m.simulate(db, span, method=method, deviation=False, plan=plan, **kw)


def arr(db, name, lo=-2, hi=N - 1):
    if name not in db:
        return np.zeros(hi - lo + 1)
    a = db[name].get_data_from_until((START + lo, START + hi))[:, 0].astype(float)
    return a


def plans_for(spec, tier="quick"):
    """all plans: list of (mode, [(var j, date)], [(kind 'u'|'a', shock i, date)]); thorough adds every plan with three
    swaps for models with at most two variables"""
    n = spec.n
    has_leads = spec.max_lead() > 0
    singles_u = [(("v", j, d), ("u", i, d)) for j in range(n) for i in range(n) for d in DATES]
    singles_a = [(("v", j, dt), ("a", i, ds)) for j in range(n) for i in range(n) for dt in DATES for ds in DATES
                 if ds <= dt or has_leads]
    out = []
    for s in singles_u:
        out.append(("unanticipated", [s[0]], [s[1]]))
    for s in singles_a:
        out.append(("anticipated", [s[0]], [s[1]]))
    for a, b in itertools.combinations(singles_u, 2):
        if a[0] != b[0] and a[1] != b[1]:
            out.append(("unanticipated", [a[0], b[0]], [a[1], b[1]]))
    for a, b in itertools.combinations(singles_a, 2):
        if a[0] != b[0] and a[1] != b[1]:
            out.append(("anticipated", [a[0], b[0]], [a[1], b[1]]))
    if tier != "quick" and n <= 2:
        for group, mode in ((singles_u, "unanticipated"), (singles_a, "anticipated")):
            for a, b, c in itertools.combinations(group, 3):
                if len({a[0], b[0], c[0]}) == 3 and len({a[1], b[1], c[1]}) == 3:
                    out.append((mode, [a[0], b[0], c[0]], [a[1], b[1], c[1]]))
    # plans mixing unanticipated and anticipated swaps are not enumerated: the statement speaks of anticipated or
    # unanticipated mode, and with several information sets "exactly identified" is no longer decided by one impact matrix
    return out


def shock_name(spec, ins):
    return ("ant_" if ins[0] == "a" else "") + spec.shk(ins[1])


def check_plan(spec, m, plan_desc, res, ctx, methods=("first_order",), n_per=N):
    """n_per: number of simulated periods (N, or the date of the last plan point: the plan then ends on the last
    period of the span)"""
    mode, targets, instruments = plan_desc
    name = spec.name
    NP = n_per
    span = START >> (START + NP - 1)
    amp = 0.1 if spec.log else 1.0
    case = {"spec": spec.to_json(), "plan": [mode, [list(t) for t in targets], [list(i) for i in instruments]], "n_per": NP}

    def arr(db, name, lo=-2, hi=None):
        return globals()["arr"](db, name, lo, NP - 1 if hi is None else hi)

    def bad(check, detail, **extra):
        sig = {"mode": mode, "k": len(targets), "leads": spec.max_lead() > 0, "log": spec.log}
        sig.update({k: v for k, v in extra.items() if k in ("method", "source", "error", "what")})
        res.violation(check, sig, dict(case, **extra), "%s plan %s %r <- %r: %s" % (name, mode, targets, instruments, detail))

    def steady_db():
        return ir.Databox.steady(m, span, deviation=False)

    def val(db, n_, d):
        return db[n_].get_data(START + d - 1)[0, 0]
    names_v = [spec.var(j) for j in range(spec.n)]
    names_s = [spec.shk(i) for i in range(spec.n)] + ["ant_" + spec.shk(i) for i in range(spec.n)]
    # ---- oracle-side conditioning of the plan: impact matrix from unplanned unit simulations ---------------
    # for unanticipated instruments at date d > 1 the unit response is that of a fresh information set
    zero = simulate(m, steady_db(), span)
    M = np.zeros((len(targets), len(instruments)))
    for l, ins in enumerate(instruments):
        db = steady_db()
        db[shock_name(spec, ins)][START + ins[2] - 1] = 1.0
        r = simulate(m, db, span)
        for k, tg in enumerate(targets):
            a = val(r, spec.var(tg[1]), tg[2]) / val(zero, spec.var(tg[1]), tg[2]) if spec.log else val(r, spec.var(tg[1]), tg[2]) - val(zero, spec.var(tg[1]), tg[2])
            M[k, l] = np.log(a) if spec.log else a
    res.ev(len(instruments) + 1)
    if not np.all(np.isfinite(M)) or np.linalg.matrix_rank(M, tol=1e-9) < len(targets) or np.linalg.cond(M) > 1e6:
        res.exclude("singular_or_ill_conditioned_plan")
        return
    res.cls("mode_k", (mode, len(targets)))
    for source in ("inversion", "arbitrary"):
        # ---- input databox ---------------------------------------------------------------------------------
        db_in = steady_db()
        # background: a non-zero initial condition and a non-endogenized shock somewhere else
        j0 = 0
        db_in[spec.var(j0)][START - 1] = val(db_in, spec.var(j0), 0) * np.exp(0.2 * amp) if spec.log else val(db_in, spec.var(j0), 0) + 0.2
        # a bystander: an anticipated shock that is known, not endogenized, and stays in the input (date 4 is never an
        # instrument date, so the run keeps a single information set)
        if NP > 3:
            db_in["ant_" + spec.shk(spec.n - 1)][START + 3] = 0.3 * amp
        # a second bystander in unanticipated mode: an ordinary unanticipated shock, left in the input as data, at a
        # later date at which the plan endogenizes nothing (every information set is then still exactly identified;
        # under an anticipated plan such a surprise would change the information set of the instruments - not enumerated)
        if mode == "unanticipated":
            free = [d for d in range(2, min(NP, 4) + 1) if d not in {ins[2] for ins in instruments}]
            if free:
                db_in[spec.shk(0)][START + free[0] - 1] = -0.25 * amp
                res.count("plans_with_unanticipated_bystander")
        truth = None
        if source == "inversion":
            db_true = db_in.copy()
            for l, ins in enumerate(instruments):
                db_true[shock_name(spec, ins)][START + ins[2] - 1] = amp * (0.7 - 0.4 * l)
            truth = simulate(m, db_true, span)
            res.ev()
            for tg in targets:
                db_in[spec.var(tg[1])][START + tg[2] - 1] = val(truth, spec.var(tg[1]), tg[2])
        else:
            for k, tg in enumerate(targets):
                v = amp * (0.5 - 0.8 * k)
                old = val(db_in, spec.var(tg[1]), tg[2])
                db_in[spec.var(tg[1])][START + tg[2] - 1] = old * np.exp(v) if spec.log else old + v
        # the cells of the endogenized shocks hold stale non-zero values in the input (an earlier judgement that is
        # now re-tuned): what comes back is the whole shock, whatever the input cell held
        for l, ins in enumerate(instruments):
            db_in[shock_name(spec, ins)][START + ins[2] - 1] = amp * (0.15 + 0.1 * l)
        plan = ir.SimulationPlan(m, span)
        for tg, ins in zip(targets, instruments):
            p_t, p_i = START + tg[2] - 1, START + ins[2] - 1
            if ins[0] == "u":
                plan.exogenize_unanticipated((p_t,), spec.var(tg[1]))
                plan.endogenize_unanticipated((p_i,), spec.shk(ins[1]))
            else:
                plan.exogenize_anticipated((p_t,), spec.var(tg[1]))
                plan.endogenize_anticipated((p_i,), "ant_" + spec.shk(ins[1]))
        for method in methods:
            res.ev()
            try:
                out = simulate(m, db_in, span, plan=plan, method=method)
            except Exception as e:
                msg = str(e)
                if method != "first_order" and ("failed to complete" in msg or "Cannot make" in msg):
                    res.count("stacked_time_reported_failure")
                    continue
                bad("exception", "%s: %s" % (type(e).__name__, msg[:300]), method=method, source=source, error=type(e).__name__)
                continue
            res.nt((name, mode, tuple(targets), tuple(instruments), source, method, NP))
            if NP != N:
                res.count("plans_ending_on_the_last_period")
            res.count("planned_simulations_" + method)
            tol = 1e-8 if method == "first_order" else 1e-6
            # absolute tolerance relative to the largest number in the run: an admissible (cond <= 1e6) but poorly
            # conditioned plan returns shocks of size 1e4 and the path inherits their rounding error
            scale = 1.0
            for n_ in names_s + names_v:
                a_ = arr(out, n_, 0)
                if np.any(np.isfinite(a_)):
                    scale = max(scale, float(np.nanmax(np.abs(a_))))
            # (a) exogenized cells equal their input values
            for tg in targets:
                g, e_ = val(out, spec.var(tg[1]), tg[2]), val(db_in, spec.var(tg[1]), tg[2])
                if not np.isclose(g, e_, rtol=tol, atol=tol * scale):
                    bad("target_missed", "%s at date %d: %.12g, input %.12g" % (spec.var(tg[1]), tg[2], g, e_), method=method, source=source)
            # (b) only endogenized shocks at endogenized dates differ from their inputs; initial conditions untouched
            endo = {(shock_name(spec, ins), ins[2]) for ins in instruments}
            for n_ in names_s:
                a, b = np.nan_to_num(arr(out, n_, 0)), np.nan_to_num(arr(db_in, n_, 0))
                for d in range(1, NP + 1):
                    if (n_, d) not in endo and not np.isclose(a[d - 1], b[d - 1], rtol=0, atol=1e-10):
                        bad("other_shock_changed", "%s at date %d: %.12g, input %.12g" % (n_, d, a[d - 1], b[d - 1]), method=method, source=source, what="shock")
            for n_ in names_v:
                a, b = arr(out, n_, -2, -1), arr(db_in, n_, -2, -1)
                if not np.allclose(a, b, rtol=1e-12, atol=1e-12, equal_nan=True):
                    bad("initial_condition_changed", "%s before the start: %s vs %s" % (n_, a.tolist(), b.tolist()), method=method, source=source, what="initial")
            # (a2) first order: the same planned run with one frame per information set (force_split_frames) is the
            #      same simulation
            if method == "first_order":
                try:
                    out_s = simulate(m, db_in, span, plan=plan, method=method, force_split_frames=True)
                    res.ev()
                    res.count("planned_simulations_split_frames")
                    for n_ in names_s + names_v:
                        a, b = np.nan_to_num(arr(out_s, n_, 0)), np.nan_to_num(arr(out, n_, 0))
                        if not np.allclose(a, b, rtol=tol, atol=tol * scale):
                            bad("split_frames", "%s: split frames %s, single frame %s" % (n_, np.round(a, 8).tolist(), np.round(b, 8).tolist()),
                                method=method, source=source, what="split_frames")
                            break
                except Exception as e:
                    bad("exception", "force_split_frames: %s: %s" % (type(e).__name__, str(e)[:300]), method=method, source=source, error=type(e).__name__, what="split_frames")
            # (a3) first order: the same plan reached by EDITING - a decoy instrument and a decoy target are registered
            #      and then withdrawn (status=False) - is the same plan
            if method == "first_order" and NP == N:
                try:
                    plan_e = ir.SimulationPlan(m, span)
                    used_s = {(ins[0], ins[1]) for ins in instruments}
                    used_v = {tg[1] for tg in targets}
                    decoy_s = [i for i in range(spec.n) if (instruments[0][0], i) not in used_s]
                    decoy_v = [j for j in range(spec.n) if j not in used_v]
                    dts = tuple(START + d - 1 for d in sorted({ins[2] for ins in instruments}))
                    un = instruments[0][0] == "u"
                    endo = plan_e.endogenize_unanticipated if un else plan_e.endogenize_anticipated
                    exo = plan_e.exogenize_unanticipated if un else plan_e.exogenize_anticipated
                    if decoy_s:
                        endo(dts, (spec.shk(decoy_s[0]) if un else "ant_" + spec.shk(decoy_s[0])))
                    if decoy_v:
                        exo(dts, spec.var(decoy_v[0]))
                    for tg, ins in zip(targets, instruments):
                        p_t, p_i = START + tg[2] - 1, START + ins[2] - 1
                        exo((p_t,), spec.var(tg[1]))
                        endo((p_i,), (spec.shk(ins[1]) if un else "ant_" + spec.shk(ins[1])))
                    if decoy_s:
                        endo(dts, (spec.shk(decoy_s[0]) if un else "ant_" + spec.shk(decoy_s[0])), status=False)
                    if decoy_v:
                        exo(dts, spec.var(decoy_v[0]), status=False)
                    if decoy_s or decoy_v:
                        out_e = simulate(m, db_in, span, plan=plan_e, method=method)
                        res.ev()
                        res.count("planned_simulations_edited_plan")
                        for n_ in names_s + names_v:
                            a, b = np.nan_to_num(arr(out_e, n_, 0)), np.nan_to_num(arr(out, n_, 0))
                            if not np.allclose(a, b, rtol=tol, atol=tol * scale):
                                bad("edited_plan", "%s: plan with withdrawn decoys %s, plain plan %s" % (n_, np.round(a, 8).tolist(), np.round(b, 8).tolist()),
                                    method=method, source=source, what="edited_plan")
                                break
                except Exception as e:
                    bad("exception", "edited plan: %s: %s" % (type(e).__name__, str(e)[:300]), method=method, source=source, error=type(e).__name__, what="edited_plan")
            # (c) the planned path is an ordinary simulation under the returned shocks
            db_re = db_in.copy()
            for n_ in names_s:
                db_re[n_] = out[n_].copy()
            re = simulate(m, db_re, span)
            res.ev()
            # (stacked time does not simulate measurement variables)
            for n_ in names_v + ([spec.obs(k) for k in range(len(spec.meas))] if method == "first_order" else []):
                a, b = arr(out, n_, 0), arr(re, n_, 0)
                if not np.allclose(a, b, rtol=tol, atol=tol * scale):
                    bad("not_a_simulation", "%s: planned %s, ordinary simulation with the returned shocks %s" % (n_, np.round(a, 8).tolist(), np.round(b, 8).tolist()),
                        method=method, source=source, what="path")
                    break
            # (d) inversion
            single_info_set = mode == "anticipated" or (mode == "unanticipated")
            if source == "inversion" and single_info_set:
                for n_ in names_s + names_v:
                    a, b = np.nan_to_num(arr(out, n_, 0)), np.nan_to_num(arr(truth, n_, 0))
                    if not np.allclose(a, b, rtol=tol, atol=tol * scale):
                        bad("inversion", "%s: recovered %s, true %s" % (n_, np.round(a, 8).tolist(), np.round(b, 8).tolist()), method=method, source=source,
                            what="shock" if n_ in names_s else "path")
                        break
    # ---- variants: each variant of a multi-variant run uses its own exogenized data -------------------------
    if NP != N:
        return
    try:
        check_variants(spec, m, plan_desc, res, bad, methods)
    except Exception as e:
        bad("exception", "variants: %s: %s" % (type(e).__name__, str(e)[:300]), error=type(e).__name__, source="variants")
    res.sample({"model": name, "mode": mode, "targets": targets, "instruments": instruments})


_M2 = {}


def check_variants(spec, m, plan_desc, res, bad, methods):
    """two variants with different targets (and a different background shock) must equal the two single-variant runs"""
    mode, targets, instruments = plan_desc
    span = START >> (START + N - 1)
    amp = 0.1 if spec.log else 1.0
    key = spec.name
    if key not in _M2:
        m2 = m.copy()
        m2.alter_num_variants(2)
        _M2.clear()
        _M2[key] = m2
    m2 = _M2[key]

    def make_plan(model):
        plan = ir.SimulationPlan(model, span)
        for tg, ins in zip(targets, instruments):
            p_t, p_i = START + tg[2] - 1, START + ins[2] - 1
            if ins[0] == "u":
                plan.exogenize_unanticipated((p_t,), spec.var(tg[1]))
                plan.endogenize_unanticipated((p_i,), spec.shk(ins[1]))
            else:
                plan.exogenize_anticipated((p_t,), spec.var(tg[1]))
                plan.endogenize_anticipated((p_i,), "ant_" + spec.shk(ins[1]))
        return plan
    base = ir.Databox.steady(m, span, deviation=False)
    singles = []
    tv = []
    for k in range(2):
        db = base.copy()
        vals = []
        for j, tg in enumerate(targets):
            v = amp * (0.5 - 0.8 * j) * (1.0 if k == 0 else -0.6)
            old = db[spec.var(tg[1])].get_data(START + tg[2] - 1)[0, 0]
            new = old * np.exp(v) if spec.log else old + v
            db[spec.var(tg[1])][START + tg[2] - 1] = new
            vals.append(new)
        tv.append(vals)
        singles.append(db)
    db2 = ir.Databox.steady(m2, span, deviation=False)
    for j, tg in enumerate(targets):
        s_ = db2[spec.var(tg[1])]
        if s_.num_variants == 1:
            s_.alter_num_variants(2)
        s_[START + tg[2] - 1] = np.array([[tv[0][j], tv[1][j]]])
    for method in methods[:1]:
        res.ev(3)
        outs = [simulate(m, singles[k], span, plan=make_plan(m), method=method) for k in range(2)]
        out2 = simulate(m2, db2, span, plan=make_plan(m2), method=method)
        res.nt((spec.name, mode, tuple(targets), tuple(instruments), "variants", method))
        res.count("variant_runs")
        names = [spec.var(j) for j in range(spec.n)] + [spec.shk(i) for i in range(spec.n)] + ["ant_" + spec.shk(i) for i in range(spec.n)]
        for n_ in names:
            a2 = out2[n_].get_data_from_until((START, START + N - 1))
            for k in range(2):
                col = a2[:, k] if a2.shape[1] > 1 else a2[:, 0]
                b = outs[k][n_].get_data_from_until((START, START + N - 1))[:, 0]
                if not np.allclose(np.nan_to_num(col), np.nan_to_num(b), rtol=1e-8, atol=1e-8):
                    bad("variant_mismatch", "%s variant %d: multi-variant run %s, single-variant run with the same inputs %s"
                        % (n_, k, np.round(col, 8).tolist(), np.round(b, 8).tolist()), method=method, source="variants", what="variant%d" % k)
                    return


# ---------------------------------------------------------------------------
# plans that mix the two modes: one unanticipated and one anticipated swap (first order)
# ---------------------------------------------------------------------------

def mixed_plans(spec):
    n = spec.n
    out = []
    for j, k in itertools.permutations(range(n), 2):
        for i, l in itertools.permutations(range(n), 2):
            for d1 in (1, 2, 3):
                for d2 in (1, 2, 3, 4):
                    out.append((j, i, d1, k, l, d2))       # v_j@d1 <- e_i@d1 (unanticipated) ; v_k@d2 <- ant_e_l@d2
    return out


def check_mixed_plan(spec, m, plan_desc, res, ctx):
    """The information sets of such a run start at period 1 and at every unanticipated date; in each of them the
    unknowns are the unanticipated instruments of its first period and the anticipated instruments not yet in the
    past, the targets are the unanticipated targets of its first period and the anticipated targets not yet in the
    past.  Admissible = every information set is square with a well-conditioned impact matrix (from unplanned unit
    simulations started in that period); only then the targets must be hit.  Asserted: exogenized cells equal their
    inputs, every other shock cell is unchanged (nothing is said about the path being one simulation: the returned
    anticipated shock is the one of the last information set)."""
    j, i, d1, k, l, d2 = plan_desc
    amp = 0.1 if spec.log else 1.0
    span = START >> (START + N - 1)
    case = {"spec": spec.to_json(), "mixed_plan": list(plan_desc)}

    def bad(check, detail, **extra):
        sig = {"mode": "mixed", "k": 2, "leads": spec.max_lead() > 0, "log": spec.log}
        sig.update({k_: v for k_, v in extra.items() if k_ in ("error", "what")})
        res.violation(check, sig, case, "%s mixed plan %r: %s" % (spec.name, plan_desc, detail))

    def val(db, n_, d):
        return db[n_].get_data(START + d - 1)[0, 0]

    def unit(frame_start, shock_name_, date):
        sp = (START + frame_start - 1) >> (START + N - 1)
        db0 = ir.Databox.steady(m, sp, deviation=False)
        z = simulate(m, db0, sp)
        db1 = ir.Databox.steady(m, sp, deviation=False)
        db1[shock_name_][START + date - 1] = 1.0
        r = simulate(m, db1, sp)
        return z, r

    def resp(z, r, var, date):
        a, b = val(r, var, date), val(z, var, date)
        return np.log(a / b) if spec.log else a - b
    frames = sorted({1, d1})
    for f in frames:
        unknowns = ([("u", spec.shk(i), d1)] if f == d1 else []) + ([("a", "ant_" + spec.shk(l), d2)] if d2 >= f else [])
        targets = ([(spec.var(j), d1)] if f == d1 else []) + ([(spec.var(k), d2)] if d2 >= f else [])
        if not unknowns and not targets:
            continue
        if len(unknowns) != len(targets):
            res.exclude("mixed_plan_information_set_not_square")
            return
        M = np.zeros((len(targets), len(unknowns)))
        for c_, (kind_, sn, dt_) in enumerate(unknowns):
            z, r = unit(f, sn, dt_)
            res.ev(2)
            for r_, (vn, dtt) in enumerate(targets):
                M[r_, c_] = resp(z, r, vn, dtt)
        if not np.all(np.isfinite(M)) or np.linalg.matrix_rank(M, tol=1e-9) < len(targets) or np.linalg.cond(M) > 1e4:
            res.exclude("mixed_plan_singular_or_ill_conditioned_information_set")
            return
    db_in = ir.Databox.steady(m, span, deviation=False)
    o1, o2 = val(db_in, spec.var(j), d1), val(db_in, spec.var(k), d2)
    t1 = o1 * np.exp(0.5 * amp) if spec.log else o1 + 0.5
    t2 = o2 * np.exp(-0.3 * amp) if spec.log else o2 - 0.3
    db_in[spec.var(j)][START + d1 - 1] = t1
    db_in[spec.var(k)][START + d2 - 1] = t2
    plan = ir.SimulationPlan(m, span)
    plan.exogenize_unanticipated((START + d1 - 1,), spec.var(j))
    plan.endogenize_unanticipated((START + d1 - 1,), spec.shk(i))
    plan.exogenize_anticipated((START + d2 - 1,), spec.var(k))
    plan.endogenize_anticipated((START + d2 - 1,), "ant_" + spec.shk(l))
    res.ev()
    try:
        out = simulate(m, db_in, span, plan=plan)
    except Exception as e:
        bad("exception", "%s: %s" % (type(e).__name__, str(e)[:300]), error=type(e).__name__)
        return
    res.nt((spec.name, "mixed") + tuple(plan_desc))
    res.count("mixed_plans_judged")
    g1, g2 = val(out, spec.var(j), d1), val(out, spec.var(k), d2)
    if not (np.isclose(g1, t1, rtol=1e-7, atol=1e-7) and np.isclose(g2, t2, rtol=1e-7, atol=1e-7)):
        bad("target_missed", "targets (%.10g, %.10g), got (%.10g, %.10g)" % (t1, t2, g1, g2), what="mixed")
    endo = {(spec.shk(i), d1), ("ant_" + spec.shk(l), d2)}
    for n_ in [spec.shk(q) for q in range(spec.n)] + ["ant_" + spec.shk(q) for q in range(spec.n)]:
        a, b = np.nan_to_num(arr(out, n_, 0)), np.nan_to_num(arr(db_in, n_, 0))
        for d in range(1, N + 1):
            if (n_, d) not in endo and not np.isclose(a[d - 1], b[d - 1], rtol=0, atol=1e-10):
                bad("other_shock_changed", "%s at date %d: %.12g, input %.12g" % (n_, d, a[d - 1], b[d - 1]), what="mixed")


def shard_mixed(item, res, ctx):
    spec = linre.LinSpec.from_json(item["spec"])
    m = build(spec)
    plans = mixed_plans(spec)
    for p_ in plans[item["lo"]: item["hi"]]:
        try:
            check_mixed_plan(spec, m, p_, res, ctx)
        except Exception as e:
            import traceback
            res.violation("harness_or_api_exception", {"error": type(e).__name__, "mode": "mixed"}, {"spec": item["spec"], "mixed_plan": list(p_)},
                          traceback.format_exc()[-900:])


def shard(item, res, ctx):
    spec = linre.LinSpec.from_json(item["spec"])
    m = build(spec)
    plans = plans_for(spec, ctx.tier)
    for k in range(item["lo"], min(item["hi"], len(plans))):
        p = plans[k]
        methods = ("first_order", "stacked_time") if (len(p[1]) == 1 or not ctx.quick) else ("first_order",)
        try:
            check_plan(spec, m, p, res, ctx, methods)
            # the same plan on a span that ends with the last plan point
            check_plan(spec, m, p, res, ctx, methods, n_per=max(x[2] for x in list(p[1]) + list(p[2])))
        except Exception as e:
            import traceback
            res.violation("harness_or_api_exception", {"error": type(e).__name__, "mode": p[0]}, {"spec": item["spec"], "plan": [p[0], p[1], p[2]]},
                          traceback.format_exc()[-900:])


def run(ctx, total, info):
    shards = []
    n_plans = 0
    for spec in models(ctx.tier):
        P = len(plans_for(spec, ctx.tier))
        n_plans += P
        step = 40
        for lo in range(0, P, step):
            shards.append({"spec": spec.to_json(), "lo": lo, "hi": lo + step})
    engine.run_shards(__name__, "shard", shards, ctx, total)
    mshards = []
    for spec in models(ctx.tier):
        if spec.n >= 2:
            P = len(mixed_plans(spec))
            for lo in range(0, P, 24):
                mshards.append({"spec": spec.to_json(), "lo": lo, "hi": lo + 24})
    engine.run_shards(__name__, "shard_mixed", mshards, ctx, total)
    info["plans_enumerated"] = n_plans
    info["exhaustive"] = True
    info["bound_completed"] = 2 if ctx.quick else 3
    c = total.counters
    info["floors"] = {"plans": (len(total.nontrivial), 1500), "mode_k_classes": (len(total.classes.get("mode_k", ())), 4),
                      "stacked_time_successes": (c.get("planned_simulations_stacked_time", 0), 100),
                      "variant_runs": (c.get("variant_runs", 0), 700),
                      "plans_ending_on_the_last_period": (c.get("plans_ending_on_the_last_period", 0), 1500),
                      "planned_simulations_split_frames": (c.get("planned_simulations_split_frames", 0), 3000),
                      "plans_with_unanticipated_bystander": (c.get("plans_with_unanticipated_bystander", 0), 400),
                      "planned_simulations_edited_plan": (c.get("planned_simulations_edited_plan", 0), 1500),
                      "mixed_plans_judged": (c.get("mixed_plans_judged", 0), 100)}


def replay(case):
    res = engine.Result()
    spec = linre.LinSpec.from_json(case["spec"])
    m = build(spec)
    if "mixed_plan" in case:
        check_mixed_plan(spec, m, tuple(case["mixed_plan"]), res, engine.Ctx("quick", 0))
        return ["%s %s %s" % (v["check"], engine.sigkey(v["signature"]), v["detail"]) for v in res.violations]
    p = case["plan"]
    desc = (p[0], [tuple(t) for t in p[1]], [tuple(i) for i in p[2]])
    check_plan(spec, m, desc, res, engine.Ctx("quick", 0), ("first_order", "stacked_time"), n_per=int(case.get("n_per", N)))
    return ["%s %s %s" % (v["check"], engine.sigkey(v["signature"]), v["detail"]) for v in res.violations]
